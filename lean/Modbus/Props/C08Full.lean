import Modbus.Props.C08
import Modbus.Props.C08Crc
/-
C08, last sentence, composed — "a valid frame altered by any single-bit error, any double-bit error
or any error burst up to 16 bits long is never returned as the full-length frame at its original
position".

`Props/C08Crc.lean` proves that `rtu::extract_frame`, asked for the frame occupying all of the
corrupted string `F ⊕ E`, answers `Error::Crc` (`crc_detects`).  `Props/C08.lean` proves that whatever
`rtu::decode` reports at a location is what `extract_frame` returned there (`rtu_scan_extract_*`,
`rtu_scan_sound_*`).  This file composes the two, for the corrupted frame followed by **any** bytes
`rest`, for both scan directions and both RTU ADU decoders:

* `extract_append` — bytes after the claimed frame do not influence `extract_frame`;
* `rtu_extract_corrupt` — the extractor's verdict on `(F ⊕ E) ++ rest` at the original length is `Error::Crc`;
* `rtu_req_corrupt_not_returned` / `rtu_rsp_corrupt_not_returned` — the scanners never report a frame
  at location `(0, F.length)` in `(F ⊕ E) ++ rest`;
* `rtu_server_corrupt_not_decoded` / `rtu_client_corrupt_not_decoded` — whatever the ADU decoders return
  on `(F ⊕ E) ++ rest` comes from a scan result whose location is not `(0, F.length)`;
* `rtu_*_corrupt_rejected_at_zero` — when the corruption leaves the length prediction unchanged, offset 0
  is rejected with `Error::Crc` (so the scanner moves on to offset 1).

Hypotheses throughout: `F` is accepted at full length (`Rtu.extractFrame F (F.length - 3) = .ok (some fr)`),
the error pattern has the frame's length, and it is a single-bit error, a burst confined to 16
consecutive transmitted bit positions, or a double-bit error in a frame of at most 256 bytes (the RTU
maximum).  No other bound on `F`, none on `rest`.

Not claimed (and false): that *no* frame is reported at offset 0.  A corrupted function code or count
byte changes the predicted length; a different, shorter or longer, CRC-valid frame at offset 0 is then
a different location `(0, size ≠ F.length)` and outside what a CRC of the original span can exclude.
-/
namespace Modbus.C08Full
open Modbus.Crc

/-- the error classes of the property -/
def Detectable (F E : Bytes) : Prop :=
  SingleBit E ∨ Burst16 E ∨ (DoubleBit E ∧ F.length ≤ 256)

/-! ### bytes after the claimed frame do not matter to the extractor -/

theorem read16_append (x rest : Bytes) (h : 2 ≤ x.length) : read16 (x ++ rest) 0 = read16 x 0 := by
  unfold read16
  rw [List.getElem?_append_left (by omega), List.getElem?_append_left (by omega)]

/-- `rtu::extract_frame(buf, n)` looks at the first `n + 3` bytes only -/
theorem extract_append (g rest : Bytes) (n : Nat) (h : n + 3 ≤ g.length) :
    Rtu.extractFrame (g ++ rest) n = Rtu.extractFrame g n := by
  have e1 : (g ++ rest).isEmpty = false := by
    cases g with
    | nil => simp at h
    | cons _ _ => rfl
  have e2 : g.isEmpty = false := by
    cases g with
    | nil => simp at h
    | cons _ _ => rfl
  have hl1 : (g ++ rest).length ≥ 1 + n + 2 := by rw [List.length_append]; omega
  have hl2 : g.length ≥ 1 + n + 2 := by omega
  have ht : (g ++ rest).take (1 + n) = g.take (1 + n) := by
    rw [List.take_append_of_le_length (by omega)]
  have hd : (g ++ rest).drop (1 + n) = g.drop (1 + n) ++ rest := by
    rw [List.drop_append_of_le_length (by omega)]
  have hr : read16 (g.drop (1 + n) ++ rest) 0 = read16 (g.drop (1 + n)) 0 :=
    read16_append _ _ (by rw [List.length_drop]; omega)
  unfold Rtu.extractFrame
  simp only [e1, e2, Bool.false_eq_true, if_false]
  rw [if_pos hl1, if_pos hl2, ht, hd, hr]

example : Rtu.extractFrame (C08Crc.goodFrame ++ [0x42, 0x43]) 5 = Rtu.extractFrame C08Crc.goodFrame 5 :=
  extract_append _ _ 5 (by decide)

/-! ### the extractor on the corrupted frame followed by anything -/

/-- a frame accepted at full length, hit by a detectable error pattern, followed by any bytes: the
extractor asked for the original length answers `Error::Crc` -/
theorem rtu_extract_corrupt (F E rest : Bytes) (fr : Rtu.Frame)
    (hF : Rtu.extractFrame F (F.length - 3) = .ok (some fr)) (hlen : E.length = F.length)
    (hE : Detectable F E) :
    ∃ e a, Rtu.extractFrame (xorBytes F E ++ rest) (F.length - 3) = .err (.crc e a) := by
  obtain ⟨h3, _, _⟩ := extract_full_ok F fr hF
  have hl : (xorBytes F E).length = F.length := by simp [hlen]
  rw [extract_append _ _ _ (by rw [hl]; omega)]
  exact C08Crc.crc_detects F E fr hF hlen hE

/-- … in particular it returns no frame -/
theorem rtu_extract_corrupt_no_frame (F E rest : Bytes) (fr f : Rtu.Frame)
    (hF : Rtu.extractFrame F (F.length - 3) = .ok (some fr)) (hlen : E.length = F.length)
    (hE : Detectable F E) :
    Rtu.extractFrame (xorBytes F E ++ rest) (F.length - 3) ≠ .ok (some f) := by
  obtain ⟨e, a, h⟩ := rtu_extract_corrupt F E rest fr hF hlen hE
  rw [h]; intro hc; cases hc

/-! ### the scanners -/

/-- generic step: a scanner whose attempt returns only what `extractFrame` returned never reports
`(f, ⟨0, F.length⟩)` on the corrupted frame followed by anything -/
theorem scan_corrupt_not_returned (att : Attempt Rtu.Frame)
    (hatt : ∀ raw f sz, att raw = .ok (some (f, sz)) →
      sz = f.pdu.length + 3 ∧ Rtu.extractFrame raw f.pdu.length = .ok (some f))
    (F E rest : Bytes) (fr f : Rtu.Frame)
    (hF : Rtu.extractFrame F (F.length - 3) = .ok (some fr)) (hlen : E.length = F.length)
    (hE : Detectable F E) :
    scan att (xorBytes F E ++ rest) ≠ .ok (some (f, ⟨0, F.length⟩)) := by
  intro h
  obtain ⟨_, _, h3, _⟩ := scan_no_later att _ f _ h
  obtain ⟨hsz, hex⟩ := hatt _ _ _ h3
  simp only [List.drop_zero] at hex hsz
  have hn : f.pdu.length = F.length - 3 := by omega
  rw [hn] at hex
  exact rtu_extract_corrupt_no_frame F E rest fr f hF hlen hE hex

/-- **C08, last sentence, request direction**: `rtu::decode(Request, ·)` on the corrupted frame
followed by any bytes never reports a frame at the original position with the original size -/
theorem rtu_req_corrupt_not_returned (F E rest : Bytes) (fr f : Rtu.Frame)
    (hF : Rtu.extractFrame F (F.length - 3) = .ok (some fr)) (hlen : E.length = F.length)
    (hE : SingleBit E ∨ Burst16 E ∨ (DoubleBit E ∧ F.length ≤ 256)) :
    Rtu.decodeReq (xorBytes F E ++ rest) ≠ .ok (some (f, ⟨0, F.length⟩)) :=
  scan_corrupt_not_returned Rtu.attemptReq C08.rtu_attemptReq_sound F E rest fr f hF hlen hE

/-- **C08, last sentence, response direction** -/
theorem rtu_rsp_corrupt_not_returned (F E rest : Bytes) (fr f : Rtu.Frame)
    (hF : Rtu.extractFrame F (F.length - 3) = .ok (some fr)) (hlen : E.length = F.length)
    (hE : SingleBit E ∨ Burst16 E ∨ (DoubleBit E ∧ F.length ≤ 256)) :
    Rtu.decodeRsp (xorBytes F E ++ rest) ≠ .ok (some (f, ⟨0, F.length⟩)) :=
  scan_corrupt_not_returned Rtu.attemptRsp C08.rtu_attemptRsp_sound F E rest fr f hF hlen hE

/-- the corrupted frame alone (`rest = []`) -/
theorem rtu_req_corrupt_not_returned_alone (F E : Bytes) (fr f : Rtu.Frame)
    (hF : Rtu.extractFrame F (F.length - 3) = .ok (some fr)) (hlen : E.length = F.length)
    (hE : SingleBit E ∨ Burst16 E ∨ (DoubleBit E ∧ F.length ≤ 256)) :
    Rtu.decodeReq (xorBytes F E) ≠ .ok (some (f, ⟨0, F.length⟩)) := by
  have h := rtu_req_corrupt_not_returned F E [] fr f hF hlen hE
  rwa [List.append_nil] at h

theorem rtu_rsp_corrupt_not_returned_alone (F E : Bytes) (fr f : Rtu.Frame)
    (hF : Rtu.extractFrame F (F.length - 3) = .ok (some fr)) (hlen : E.length = F.length)
    (hE : SingleBit E ∨ Burst16 E ∨ (DoubleBit E ∧ F.length ≤ 256)) :
    Rtu.decodeRsp (xorBytes F E) ≠ .ok (some (f, ⟨0, F.length⟩)) := by
  have h := rtu_rsp_corrupt_not_returned F E [] fr f hF hlen hE
  rwa [List.append_nil] at h

/-- the same as a statement about any reported location: if a frame is reported, it is not at start 0
with the original size -/
theorem rtu_req_corrupt_loc (F E rest : Bytes) (fr f : Rtu.Frame) (loc : Loc)
    (hF : Rtu.extractFrame F (F.length - 3) = .ok (some fr)) (hlen : E.length = F.length)
    (hE : SingleBit E ∨ Burst16 E ∨ (DoubleBit E ∧ F.length ≤ 256))
    (h : Rtu.decodeReq (xorBytes F E ++ rest) = .ok (some (f, loc))) :
    loc.start ≠ 0 ∨ loc.size ≠ F.length := by
  apply Decidable.byContradiction
  intro hn
  have h0 : loc.start = 0 := by omega
  have h1 : loc.size = F.length := by omega
  obtain ⟨s, z⟩ := loc
  simp only at h0 h1
  subst h0 h1
  exact rtu_req_corrupt_not_returned F E rest fr f hF hlen hE h

theorem rtu_rsp_corrupt_loc (F E rest : Bytes) (fr f : Rtu.Frame) (loc : Loc)
    (hF : Rtu.extractFrame F (F.length - 3) = .ok (some fr)) (hlen : E.length = F.length)
    (hE : SingleBit E ∨ Burst16 E ∨ (DoubleBit E ∧ F.length ≤ 256))
    (h : Rtu.decodeRsp (xorBytes F E ++ rest) = .ok (some (f, loc))) :
    loc.start ≠ 0 ∨ loc.size ≠ F.length := by
  apply Decidable.byContradiction
  intro hn
  have h0 : loc.start = 0 := by omega
  have h1 : loc.size = F.length := by omega
  obtain ⟨s, z⟩ := loc
  simp only at h0 h1
  subst h0 h1
  exact rtu_rsp_corrupt_not_returned F E rest fr f hF hlen hE h

/-! ### the attempt at offset 0

When the corruption does not change what the length predictor answers (the function code and the
count byte it reads are intact), the attempt at offset 0 is an `Error::Crc`, so the scanner drops a
byte and goes on. -/

theorem rtu_req_corrupt_rejected_at_zero (F E rest : Bytes) (fr : Rtu.Frame)
    (hF : Rtu.extractFrame F (F.length - 3) = .ok (some fr)) (hlen : E.length = F.length)
    (hE : SingleBit E ∨ Burst16 E ∨ (DoubleBit E ∧ F.length ≤ 256))
    (hp : Rtu.requestPduLen (xorBytes F E ++ rest) = .ok (some (F.length - 3))) :
    ∃ e a, Rtu.attemptReq (xorBytes F E ++ rest) = .err (.crc e a) := by
  obtain ⟨e, a, h⟩ := rtu_extract_corrupt F E rest fr hF hlen hE
  exact ⟨e, a, mkAttempt_extract_err _ _ _ _ _ _ hp h⟩

theorem rtu_rsp_corrupt_rejected_at_zero (F E rest : Bytes) (fr : Rtu.Frame)
    (hF : Rtu.extractFrame F (F.length - 3) = .ok (some fr)) (hlen : E.length = F.length)
    (hE : SingleBit E ∨ Burst16 E ∨ (DoubleBit E ∧ F.length ≤ 256))
    (hp : Rtu.responsePduLen (xorBytes F E ++ rest) = .ok (some (F.length - 3))) :
    ∃ e a, Rtu.attemptRsp (xorBytes F E ++ rest) = .err (.crc e a) := by
  obtain ⟨e, a, h⟩ := rtu_extract_corrupt F E rest fr hF hlen hE
  exact ⟨e, a, mkAttempt_extract_err _ _ _ _ _ _ hp h⟩

/-- whatever size the attempt at offset 0 reports, it is not the original one -/
theorem rtu_req_corrupt_attempt (F E rest : Bytes) (fr f : Rtu.Frame)
    (hF : Rtu.extractFrame F (F.length - 3) = .ok (some fr)) (hlen : E.length = F.length)
    (hE : SingleBit E ∨ Burst16 E ∨ (DoubleBit E ∧ F.length ≤ 256)) :
    Rtu.attemptReq (xorBytes F E ++ rest) ≠ .ok (some (f, F.length)) := by
  intro h
  obtain ⟨hsz, hex⟩ := C08.rtu_attemptReq_sound _ _ _ h
  have hn : f.pdu.length = F.length - 3 := by omega
  rw [hn] at hex
  exact rtu_extract_corrupt_no_frame F E rest fr f hF hlen hE hex

theorem rtu_rsp_corrupt_attempt (F E rest : Bytes) (fr f : Rtu.Frame)
    (hF : Rtu.extractFrame F (F.length - 3) = .ok (some fr)) (hlen : E.length = F.length)
    (hE : SingleBit E ∨ Burst16 E ∨ (DoubleBit E ∧ F.length ≤ 256)) :
    Rtu.attemptRsp (xorBytes F E ++ rest) ≠ .ok (some (f, F.length)) := by
  intro h
  obtain ⟨hsz, hex⟩ := C08.rtu_attemptRsp_sound _ _ _ h
  have hn : f.pdu.length = F.length - 3 := by omega
  rw [hn] at hex
  exact rtu_extract_corrupt_no_frame F E rest fr f hF hlen hE hex

/-! ### the ADU decoders

`rtu::server::decode_request` and `rtu::client::decode_response` return a value only from a frame
the scanner reported (`C08.rtu_server_decode_of_scan`, `C08.rtu_client_decode_of_scan`); on the
corrupted frame followed by anything that scan result is never at location `(0, F.length)`. -/

/-- **`rtu::server::decode_request`** on the corrupted frame followed by any bytes: a returned
`(slave, request)` is the slave id and decoded PDU of a scanned frame whose location is *not* the
original frame's `(0, F.length)` -/
theorem rtu_server_corrupt_not_decoded (F E rest : Bytes) (fr : Rtu.Frame) (s : UInt8) (r : Request)
    (hF : Rtu.extractFrame F (F.length - 3) = .ok (some fr)) (hlen : E.length = F.length)
    (hE : SingleBit E ∨ Burst16 E ∨ (DoubleBit E ∧ F.length ≤ 256))
    (h : Rtu.serverDecodeRequest (xorBytes F E ++ rest) = .ok (some (s, r))) :
    ∃ f loc, Rtu.decodeReq (xorBytes F E ++ rest) = .ok (some (f, loc)) ∧ f.slave = s ∧
      Request.decode f.pdu = .ok r ∧ loc ≠ ⟨0, F.length⟩ ∧ (loc.start ≠ 0 ∨ loc.size ≠ F.length) := by
  obtain ⟨f, loc, hd, hs, hr⟩ := C08.rtu_server_decode_of_scan _ s r h
  refine ⟨f, loc, hd, hs, hr, ?_, rtu_req_corrupt_loc F E rest fr f loc hF hlen hE hd⟩
  intro hl
  rw [hl] at hd
  exact rtu_req_corrupt_not_returned F E rest fr f hF hlen hE hd

/-- **`rtu::client::decode_response`** on the corrupted frame followed by any bytes -/
theorem rtu_client_corrupt_not_decoded (F E rest : Bytes) (fr : Rtu.Frame) (s : UInt8) (p : ResponsePdu)
    (hF : Rtu.extractFrame F (F.length - 3) = .ok (some fr)) (hlen : E.length = F.length)
    (hE : SingleBit E ∨ Burst16 E ∨ (DoubleBit E ∧ F.length ≤ 256))
    (h : Rtu.clientDecodeResponse (xorBytes F E ++ rest) = .ok (some (s, p))) :
    ∃ f loc, Rtu.decodeRsp (xorBytes F E ++ rest) = .ok (some (f, loc)) ∧ f.slave = s ∧
      ((∃ e, p = .error e ∧ ExceptionResponse.decode f.pdu = .ok e) ∨
       (∃ r, p = .ok r ∧ (ExceptionResponse.decode f.pdu).isErr = true ∧ Response.decode f.pdu = .ok r)) ∧
      loc ≠ ⟨0, F.length⟩ ∧ (loc.start ≠ 0 ∨ loc.size ≠ F.length) := by
  obtain ⟨f, loc, hd, hs, hr⟩ := C08.rtu_client_decode_of_scan _ s p h
  refine ⟨f, loc, hd, hs, hr, ?_, rtu_rsp_corrupt_loc F E rest fr f loc hF hlen hE hd⟩
  intro hl
  rw [hl] at hd
  exact rtu_rsp_corrupt_not_returned F E rest fr f hF hlen hE hd

/-- complement: when the scanner reports no frame at all (as on the flipped sample below, where every
offset is rejected), the ADU decoder returns no value -/
theorem rtu_server_none_of_scan (buf : Bytes) (s : UInt8) (r : Request)
    (hscan : ∀ f loc, Rtu.decodeReq buf ≠ .ok (some (f, loc))) :
    Rtu.serverDecodeRequest buf ≠ .ok (some (s, r)) := by
  intro h
  obtain ⟨f, loc, hd, _, _⟩ := C08.rtu_server_decode_of_scan buf s r h
  exact hscan f loc hd

theorem rtu_client_none_of_scan (buf : Bytes) (s : UInt8) (p : ResponsePdu)
    (hscan : ∀ f loc, Rtu.decodeRsp buf ≠ .ok (some (f, loc))) :
    Rtu.clientDecodeResponse buf ≠ .ok (some (s, p)) := by
  intro h
  obtain ⟨f, loc, hd, _, _⟩ := C08.rtu_client_decode_of_scan buf s p h
  exact hscan f loc hd

/-! ### the corrupted frame embedded at an arbitrary offset

The scan loop evaluates its attempt at offset `d` on `buf.drop d` (`scanFrom` in Model/Scan.lean:
`att (buf.drop d)`), and `mkAttempt` hands that same slice to the length predictor and to
`rtu::extract_frame`.  For `buf = pre ++ (F ⊕ E) ++ rest` and `d = pre.length` that slice is
`(F ⊕ E) ++ rest`, so every offset-0 statement above transfers to offset `pre.length` — for ANY
bytes `pre` in front (any length, any contents) and any bytes `rest` behind. -/

/-- the slice the scanner examines at offset `pre.length` -/
theorem drop_embedded (pre g rest : Bytes) : (pre ++ g ++ rest).drop pre.length = g ++ rest := by
  rw [List.append_assoc, List.drop_left]

/-- the extractor, on the slice the scanner examines at offset `pre.length`, asked for the original
length: `Error::Crc` -/
theorem rtu_extract_corrupt_embedded (pre F E rest : Bytes) (fr : Rtu.Frame)
    (hF : Rtu.extractFrame F (F.length - 3) = .ok (some fr)) (hlen : E.length = F.length)
    (hE : SingleBit E ∨ Burst16 E ∨ (DoubleBit E ∧ F.length ≤ 256)) :
    ∃ e a, Rtu.extractFrame ((pre ++ xorBytes F E ++ rest).drop pre.length) (F.length - 3) = .err (.crc e a) := by
  rw [drop_embedded]; exact rtu_extract_corrupt F E rest fr hF hlen hE

/-- the scanner's attempt at offset `pre.length` never yields a frame of the original size -/
theorem rtu_req_corrupt_attempt_embedded (pre F E rest : Bytes) (fr f : Rtu.Frame)
    (hF : Rtu.extractFrame F (F.length - 3) = .ok (some fr)) (hlen : E.length = F.length)
    (hE : SingleBit E ∨ Burst16 E ∨ (DoubleBit E ∧ F.length ≤ 256)) :
    Rtu.attemptReq ((pre ++ xorBytes F E ++ rest).drop pre.length) ≠ .ok (some (f, F.length)) := by
  rw [drop_embedded]; exact rtu_req_corrupt_attempt F E rest fr f hF hlen hE

theorem rtu_rsp_corrupt_attempt_embedded (pre F E rest : Bytes) (fr f : Rtu.Frame)
    (hF : Rtu.extractFrame F (F.length - 3) = .ok (some fr)) (hlen : E.length = F.length)
    (hE : SingleBit E ∨ Burst16 E ∨ (DoubleBit E ∧ F.length ≤ 256)) :
    Rtu.attemptRsp ((pre ++ xorBytes F E ++ rest).drop pre.length) ≠ .ok (some (f, F.length)) := by
  rw [drop_embedded]; exact rtu_rsp_corrupt_attempt F E rest fr f hF hlen hE

/-- when the corruption leaves the length prediction at that offset unchanged, the attempt at offset
`pre.length` is rejected with `Error::Crc` (the C14 sense of "rejected": `isErr`) -/
theorem rtu_req_corrupt_rejected_embedded (pre F E rest : Bytes) (fr : Rtu.Frame)
    (hF : Rtu.extractFrame F (F.length - 3) = .ok (some fr)) (hlen : E.length = F.length)
    (hE : SingleBit E ∨ Burst16 E ∨ (DoubleBit E ∧ F.length ≤ 256))
    (hp : Rtu.requestPduLen ((pre ++ xorBytes F E ++ rest).drop pre.length) = .ok (some (F.length - 3))) :
    (∃ e a, Rtu.attemptReq ((pre ++ xorBytes F E ++ rest).drop pre.length) = .err (.crc e a)) ∧
    (Rtu.attemptReq ((pre ++ xorBytes F E ++ rest).drop pre.length)).isErr = true := by
  rw [drop_embedded] at hp ⊢
  obtain ⟨e, a, h⟩ := rtu_req_corrupt_rejected_at_zero F E rest fr hF hlen hE hp
  exact ⟨⟨e, a, h⟩, by rw [h]; rfl⟩

theorem rtu_rsp_corrupt_rejected_embedded (pre F E rest : Bytes) (fr : Rtu.Frame)
    (hF : Rtu.extractFrame F (F.length - 3) = .ok (some fr)) (hlen : E.length = F.length)
    (hE : SingleBit E ∨ Burst16 E ∨ (DoubleBit E ∧ F.length ≤ 256))
    (hp : Rtu.responsePduLen ((pre ++ xorBytes F E ++ rest).drop pre.length) = .ok (some (F.length - 3))) :
    (∃ e a, Rtu.attemptRsp ((pre ++ xorBytes F E ++ rest).drop pre.length) = .err (.crc e a)) ∧
    (Rtu.attemptRsp ((pre ++ xorBytes F E ++ rest).drop pre.length)).isErr = true := by
  rw [drop_embedded] at hp ⊢
  obtain ⟨e, a, h⟩ := rtu_rsp_corrupt_rejected_at_zero F E rest fr hF hlen hE hp
  exact ⟨⟨e, a, h⟩, by rw [h]; rfl⟩

/-- generic step: no frame is reported at location `(pre.length, F.length)` — whatever `pre` is
(no bound on its length, no hypothesis on its contents) -/
theorem scan_corrupt_not_returned_embedded (att : Attempt Rtu.Frame)
    (hatt : ∀ raw f sz, att raw = .ok (some (f, sz)) →
      sz = f.pdu.length + 3 ∧ Rtu.extractFrame raw f.pdu.length = .ok (some f))
    (pre F E rest : Bytes) (fr f : Rtu.Frame)
    (hF : Rtu.extractFrame F (F.length - 3) = .ok (some fr)) (hlen : E.length = F.length)
    (hE : Detectable F E) :
    scan att (pre ++ xorBytes F E ++ rest) ≠ .ok (some (f, ⟨pre.length, F.length⟩)) := by
  intro h
  obtain ⟨_, _, h3, _⟩ := scan_no_later att _ f _ h
  obtain ⟨hsz, hex⟩ := hatt _ _ _ h3
  simp only [drop_embedded] at hex hsz
  have hn : f.pdu.length = F.length - 3 := by omega
  rw [hn] at hex
  exact rtu_extract_corrupt_no_frame F E rest fr f hF hlen hE hex

/-- **C08, last sentence, request direction, any position**: `rtu::decode(Request, ·)` never reports
the corrupted frame at its position `pre.length` with its original size -/
theorem rtu_req_corrupt_not_returned_embedded (pre F E rest : Bytes) (fr f : Rtu.Frame)
    (hF : Rtu.extractFrame F (F.length - 3) = .ok (some fr)) (hlen : E.length = F.length)
    (hE : SingleBit E ∨ Burst16 E ∨ (DoubleBit E ∧ F.length ≤ 256)) :
    Rtu.decodeReq (pre ++ xorBytes F E ++ rest) ≠ .ok (some (f, ⟨pre.length, F.length⟩)) :=
  scan_corrupt_not_returned_embedded Rtu.attemptReq C08.rtu_attemptReq_sound pre F E rest fr f hF hlen hE

/-- **… response direction, any position** -/
theorem rtu_rsp_corrupt_not_returned_embedded (pre F E rest : Bytes) (fr f : Rtu.Frame)
    (hF : Rtu.extractFrame F (F.length - 3) = .ok (some fr)) (hlen : E.length = F.length)
    (hE : SingleBit E ∨ Burst16 E ∨ (DoubleBit E ∧ F.length ≤ 256)) :
    Rtu.decodeRsp (pre ++ xorBytes F E ++ rest) ≠ .ok (some (f, ⟨pre.length, F.length⟩)) :=
  scan_corrupt_not_returned_embedded Rtu.attemptRsp C08.rtu_attemptRsp_sound pre F E rest fr f hF hlen hE

/-- generic: every offset of `pre` rejected (C14's predicate, in context) ⇒ whatever frame the scan
reports starts at or after `pre.length` and is not `(pre.length, F.length)`; if moreover the attempt
at `pre.length` is rejected (`rtu_*_corrupt_rejected_embedded`), it starts strictly LATER -/
theorem scan_corrupt_later_embedded (att : Attempt Rtu.Frame)
    (hatt : ∀ raw f sz, att raw = .ok (some (f, sz)) →
      sz = f.pdu.length + 3 ∧ Rtu.extractFrame raw f.pdu.length = .ok (some f))
    (pre F E rest : Bytes) (fr f : Rtu.Frame) (loc : Loc)
    (hF : Rtu.extractFrame F (F.length - 3) = .ok (some fr)) (hlen : E.length = F.length)
    (hE : Detectable F E)
    (hpre : ∀ i, i < pre.length → (att ((pre ++ xorBytes F E ++ rest).drop i)).isErr = true)
    (h : scan att (pre ++ xorBytes F E ++ rest) = .ok (some (f, loc))) :
    pre.length ≤ loc.start ∧ (loc.start = pre.length → loc.size ≠ F.length) ∧
    ((att ((pre ++ xorBytes F E ++ rest).drop pre.length)).isErr = true → pre.length < loc.start) := by
  obtain ⟨_, _, h3, _⟩ := scan_no_later att _ f _ h
  have hok : ¬ (att ((pre ++ xorBytes F E ++ rest).drop loc.start)).isErr = true := by
    rw [h3]; exact Res.not_isErr_ok _
  have hge : pre.length ≤ loc.start := by
    rcases Nat.lt_or_ge loc.start pre.length with hlt | hge
    · exact absurd (hpre _ hlt) hok
    · exact hge
  refine ⟨hge, ?_, ?_⟩
  · intro hs hz
    obtain ⟨s, z⟩ := loc
    simp only at hs hz
    subst hs hz
    exact scan_corrupt_not_returned_embedded att hatt pre F E rest fr f hF hlen hE h
  · intro herr
    rcases Nat.lt_or_ge pre.length loc.start with hlt | hle
    · exact hlt
    · have : loc.start = pre.length := by omega
      rw [this] at hok
      exact absurd herr hok

/-- **`rtu::server::decode_request`, corrupted frame behind up to any number of rejected bytes**:
if every offset of `pre` is rejected in context, a value the ADU decoder returns comes from a scanned
frame that starts at or after `pre.length` and is not the corrupted frame `(pre.length, F.length)`;
when the corruption leaves the length prediction at `pre.length` unchanged, from a frame that starts
strictly LATER.  (The other outcomes — `Err`, `Ok(None)` — return no frame at all.  `pre.length ≤ 255`
is not needed: beyond 255 rejected offsets the scan gives up before reaching the frame.) -/
theorem rtu_server_corrupt_not_decoded_embedded (pre F E rest : Bytes) (fr : Rtu.Frame) (s : UInt8) (r : Request)
    (hF : Rtu.extractFrame F (F.length - 3) = .ok (some fr)) (hlen : E.length = F.length)
    (hE : SingleBit E ∨ Burst16 E ∨ (DoubleBit E ∧ F.length ≤ 256))
    (hpre : ∀ i, i < pre.length → (Rtu.attemptReq ((pre ++ xorBytes F E ++ rest).drop i)).isErr = true)
    (h : Rtu.serverDecodeRequest (pre ++ xorBytes F E ++ rest) = .ok (some (s, r))) :
    ∃ f loc, Rtu.decodeReq (pre ++ xorBytes F E ++ rest) = .ok (some (f, loc)) ∧ f.slave = s ∧
      Request.decode f.pdu = .ok r ∧ loc ≠ ⟨pre.length, F.length⟩ ∧ pre.length ≤ loc.start ∧
      (Rtu.requestPduLen ((pre ++ xorBytes F E ++ rest).drop pre.length) = .ok (some (F.length - 3)) →
        pre.length < loc.start) := by
  obtain ⟨f, loc, hd, hs, hr⟩ := C08.rtu_server_decode_of_scan _ s r h
  obtain ⟨h1, h2, h3⟩ := scan_corrupt_later_embedded Rtu.attemptReq C08.rtu_attemptReq_sound pre F E rest fr f loc
    hF hlen hE hpre hd
  refine ⟨f, loc, hd, hs, hr, ?_, h1, fun hp => h3 (rtu_req_corrupt_rejected_embedded pre F E rest fr hF hlen hE hp).2⟩
  intro hl
  rw [hl] at hd
  exact rtu_req_corrupt_not_returned_embedded pre F E rest fr f hF hlen hE hd

/-- **`rtu::client::decode_response`**, likewise -/
theorem rtu_client_corrupt_not_decoded_embedded (pre F E rest : Bytes) (fr : Rtu.Frame) (s : UInt8) (p : ResponsePdu)
    (hF : Rtu.extractFrame F (F.length - 3) = .ok (some fr)) (hlen : E.length = F.length)
    (hE : SingleBit E ∨ Burst16 E ∨ (DoubleBit E ∧ F.length ≤ 256))
    (hpre : ∀ i, i < pre.length → (Rtu.attemptRsp ((pre ++ xorBytes F E ++ rest).drop i)).isErr = true)
    (h : Rtu.clientDecodeResponse (pre ++ xorBytes F E ++ rest) = .ok (some (s, p))) :
    ∃ f loc, Rtu.decodeRsp (pre ++ xorBytes F E ++ rest) = .ok (some (f, loc)) ∧ f.slave = s ∧
      ((∃ e, p = .error e ∧ ExceptionResponse.decode f.pdu = .ok e) ∨
       (∃ r, p = .ok r ∧ (ExceptionResponse.decode f.pdu).isErr = true ∧ Response.decode f.pdu = .ok r)) ∧
      loc ≠ ⟨pre.length, F.length⟩ ∧ pre.length ≤ loc.start ∧
      (Rtu.responsePduLen ((pre ++ xorBytes F E ++ rest).drop pre.length) = .ok (some (F.length - 3)) →
        pre.length < loc.start) := by
  obtain ⟨f, loc, hd, hs, hr⟩ := C08.rtu_client_decode_of_scan _ s p h
  obtain ⟨h1, h2, h3⟩ := scan_corrupt_later_embedded Rtu.attemptRsp C08.rtu_attemptRsp_sound pre F E rest fr f loc
    hF hlen hE hpre hd
  refine ⟨f, loc, hd, hs, hr, ?_, h1, fun hp => h3 (rtu_rsp_corrupt_rejected_embedded pre F E rest fr hF hlen hE hp).2⟩
  intro hl
  rw [hl] at hd
  exact rtu_rsp_corrupt_not_returned_embedded pre F E rest fr f hF hlen hE hd

/-- without any hypothesis on `pre`: a value the ADU decoder returns never comes from the corrupted
frame at `(pre.length, F.length)` -/
theorem rtu_server_corrupt_loc_embedded (pre F E rest : Bytes) (fr : Rtu.Frame) (s : UInt8) (r : Request)
    (hF : Rtu.extractFrame F (F.length - 3) = .ok (some fr)) (hlen : E.length = F.length)
    (hE : SingleBit E ∨ Burst16 E ∨ (DoubleBit E ∧ F.length ≤ 256))
    (h : Rtu.serverDecodeRequest (pre ++ xorBytes F E ++ rest) = .ok (some (s, r))) :
    ∃ f loc, Rtu.decodeReq (pre ++ xorBytes F E ++ rest) = .ok (some (f, loc)) ∧ f.slave = s ∧
      Request.decode f.pdu = .ok r ∧ loc ≠ ⟨pre.length, F.length⟩ := by
  obtain ⟨f, loc, hd, hs, hr⟩ := C08.rtu_server_decode_of_scan _ s r h
  refine ⟨f, loc, hd, hs, hr, ?_⟩
  intro hl
  rw [hl] at hd
  exact rtu_req_corrupt_not_returned_embedded pre F E rest fr f hF hlen hE hd

theorem rtu_client_corrupt_loc_embedded (pre F E rest : Bytes) (fr : Rtu.Frame) (s : UInt8) (p : ResponsePdu)
    (hF : Rtu.extractFrame F (F.length - 3) = .ok (some fr)) (hlen : E.length = F.length)
    (hE : SingleBit E ∨ Burst16 E ∨ (DoubleBit E ∧ F.length ≤ 256))
    (h : Rtu.clientDecodeResponse (pre ++ xorBytes F E ++ rest) = .ok (some (s, p))) :
    ∃ f loc, Rtu.decodeRsp (pre ++ xorBytes F E ++ rest) = .ok (some (f, loc)) ∧ f.slave = s ∧
      loc ≠ ⟨pre.length, F.length⟩ := by
  obtain ⟨f, loc, hd, hs, _⟩ := C08.rtu_client_decode_of_scan _ s p h
  refine ⟨f, loc, hd, hs, ?_⟩
  intro hl
  rw [hl] at hd
  exact rtu_rsp_corrupt_not_returned_embedded pre F E rest fr f hF hlen hE hd

/-! ### Concrete instances (kernel-evaluated)

The frame `[0x11,0x01,0x00,0x01,0x00,0x02,0xEE,0x9B]` (slave 0x11, ReadCoils(1, 2)) with transmitted
bit 22 (byte 2, bit 6) flipped: `[0x11,0x01,0x40,0x01,0x00,0x02,0xEE,0x9B]`. -/

def good : Bytes := [0x11, 0x01, 0x00, 0x01, 0x00, 0x02, 0xEE, 0x9B]
def goodParsed : Rtu.Frame := { slave := 0x11, pdu := [0x01, 0x00, 0x01, 0x00, 0x02] }
def flipped : Bytes := [0x11, 0x01, 0x40, 0x01, 0x00, 0x02, 0xEE, 0x9B]

example : xorBytes good (bitError 8 22) = flipped := by decide +kernel
example : Rtu.extractFrame good (good.length - 3) = .ok (some goodParsed) := by decide +kernel
example : Rtu.decodeReq good = .ok (some (goodParsed, ⟨0, 8⟩)) := by decide +kernel
example : Rtu.serverDecodeRequest good = .ok (some (0x11, .readCoils 1 2)) := by decide +kernel

/-- the scanner on the flipped frame alone: offset 0 fails the CRC, the remaining offsets are not
frames, 8 bytes ≤ 256 ⇒ "incomplete"; with trailing bytes likewise no frame at `(0, 8)` -/
example : Rtu.decodeReq flipped = .ok none := by decide +kernel
example : Rtu.attemptReq flipped = .err (.crc 0xEE9B 0xFB5B) := by decide +kernel
example : Rtu.decodeReq (flipped ++ [0x42, 0x43]) = .ok none := by decide +kernel
example : Rtu.serverDecodeRequest flipped = .ok none := by decide +kernel
example : Rtu.serverDecodeRequest (flipped ++ good)
    = .ok (some (0x11, .readCoils 1 2)) := by decide +kernel
/-- … that value comes from the intact copy at start 8, not from `(0, 8)` -/
example : Rtu.decodeReq (flipped ++ good) = .ok (some (goodParsed, ⟨8, 8⟩)) := by decide +kernel

/-- every one of the 64 single-bit flips of the sample frame, followed by two bytes: never `(0, 8)` -/
example : ∀ p, p < 64 → ∀ f, Rtu.decodeReq (xorBytes good (bitError 8 p) ++ [0x42, 0x43])
    ≠ .ok (some (f, ⟨0, 8⟩)) := by
  intro p hp f
  exact rtu_req_corrupt_not_returned good (bitError 8 p) [0x42, 0x43] goodParsed f (by decide +kernel)
    (by simp [good]) (Or.inl (singleBit_bitError 8 p hp))

/-- the theorems' hypotheses on the sample: single-bit, double-bit, and a 16-bit burst -/
example (f : Rtu.Frame) (rest : Bytes) : Rtu.decodeReq (flipped ++ rest) ≠ .ok (some (f, ⟨0, 8⟩)) := by
  have h := rtu_req_corrupt_not_returned good (bitError 8 22) rest goodParsed f (by decide +kernel)
    (by decide) (Or.inl (singleBit_bitError 8 22 (by decide)))
  have e : xorBytes good (bitError 8 22) = flipped := by decide +kernel
  rw [e] at h
  exact h

example (f : Rtu.Frame) (rest : Bytes) :
    Rtu.decodeRsp (xorBytes good (xorBytes (bitError 8 0) (bitError 8 63)) ++ rest)
      ≠ .ok (some (f, ⟨0, good.length⟩)) :=
  rtu_rsp_corrupt_not_returned good _ rest goodParsed f (by decide +kernel) (by decide)
    (Or.inr (Or.inr ⟨doubleBit_bitError 8 0 63 (by decide) (by decide), by decide⟩))

example (f : Rtu.Frame) (rest : Bytes) :
    Rtu.decodeReq (xorBytes good [0, 0, 0x90, 0xA5, 0x0F, 0, 0, 0] ++ rest)
      ≠ .ok (some (f, ⟨0, good.length⟩)) :=
  rtu_req_corrupt_not_returned good _ rest goodParsed f (by decide +kernel) (by decide)
    (Or.inr (Or.inl ⟨by decide +kernel, 20, by decide +kernel⟩))

/-- `rtu_req_corrupt_rejected_at_zero`: bit 22 is in the address field, the prediction is unchanged -/
example (rest : Bytes) : ∃ e a, Rtu.attemptReq (flipped ++ rest) = .err (.crc e a) := by
  have h := rtu_req_corrupt_rejected_at_zero good (bitError 8 22) rest goodParsed (by decide +kernel)
    (by decide) (Or.inl (singleBit_bitError 8 22 (by decide)))
  have e : xorBytes good (bitError 8 22) = flipped := by decide +kernel
  rw [e] at h
  apply h
  have hl : ¬ ((flipped ++ rest).length < 2) := by simp [flipped]
  have hi : idx (flipped ++ rest) 1 = .ok 0x01 := rfl
  unfold Rtu.requestPduLen
  rw [if_neg hl, hi]
  rfl

/-- `rtu_server_corrupt_not_decoded`: hypothesis satisfied by the flipped frame followed by the intact one -/
example : ∃ f loc, Rtu.decodeReq (flipped ++ good) = .ok (some (f, loc)) ∧ f.slave = 0x11 ∧
    Request.decode f.pdu = .ok (.readCoils 1 2) ∧ loc ≠ ⟨0, 8⟩ ∧ (loc.start ≠ 0 ∨ loc.size ≠ 8) := by
  have h := rtu_server_corrupt_not_decoded good (bitError 8 22) good goodParsed 0x11 (.readCoils 1 2)
    (by decide +kernel) (by decide) (Or.inl (singleBit_bitError 8 22 (by decide)))
  have e : xorBytes good (bitError 8 22) = flipped := by decide +kernel
  rw [e] at h
  exact h (by decide +kernel)


/-! embedded: three noise bytes (each offset rejected: 0x99 / 0xF0 are not function codes), the flipped
frame, then the intact frame -/

def noise3 : Bytes := [0x55, 0x99, 0xF0]

example : ∀ i, i < noise3.length →
    (Rtu.attemptReq ((noise3 ++ xorBytes good (bitError 8 22) ++ good).drop i)).isErr = true := by
  decide +kernel

example : Rtu.decodeReq (noise3 ++ flipped ++ good) = .ok (some (goodParsed, ⟨11, 8⟩)) := by decide +kernel
example : Rtu.attemptReq ((noise3 ++ flipped ++ good).drop 3) = .err (.crc 0xEE9B 0xFB5B) := by decide +kernel

/-- `rtu_server_corrupt_not_decoded_embedded` on that buffer: all hypotheses hold, and the value the
decoder returns is the intact copy's, found at start 11 > 3 -/
example : ∃ f loc, Rtu.decodeReq (noise3 ++ xorBytes good (bitError 8 22) ++ good) = .ok (some (f, loc)) ∧
    f.slave = 0x11 ∧ Request.decode f.pdu = .ok (.readCoils 1 2) ∧ loc ≠ ⟨3, 8⟩ ∧ 3 < loc.start := by
  obtain ⟨f, loc, h1, h2, h3, h4, _, h6⟩ := rtu_server_corrupt_not_decoded_embedded noise3 good (bitError 8 22) good
    goodParsed 0x11 (.readCoils 1 2) (by decide +kernel) (by decide)
    (Or.inl (singleBit_bitError 8 22 (by decide))) (by decide +kernel) (by decide +kernel)
  exact ⟨f, loc, h1, h2, h3, h4, h6 (by decide +kernel)⟩

/-- every single-bit flip, any prefix, any suffix -/
example (pre rest : Bytes) : ∀ p, p < 64 → ∀ f,
    Rtu.decodeReq (pre ++ xorBytes good (bitError 8 p) ++ rest) ≠ .ok (some (f, ⟨pre.length, 8⟩)) := by
  intro p hp f
  exact rtu_req_corrupt_not_returned_embedded pre good (bitError 8 p) rest goodParsed f (by decide +kernel)
    (by simp [good]) (Or.inl (singleBit_bitError 8 p hp))

/-- response direction: `[0x11,0x01,0x01,0x05,0x95,0x4B]` with bit 24 (byte 3, bit 0) flipped -/
def goodRsp : Bytes := [0x11, 0x01, 0x01, 0x05, 0x95, 0x4B]

example : Rtu.extractFrame goodRsp (goodRsp.length - 3) = .ok (some ⟨0x11, [0x01, 0x01, 0x05]⟩) := by
  decide +kernel
example : xorBytes goodRsp (bitError 6 24) = [0x11, 0x01, 0x01, 0x04, 0x95, 0x4B] := by decide +kernel
example : Rtu.clientDecodeResponse [0x11, 0x01, 0x01, 0x04, 0x95, 0x4B] = .ok none := by decide +kernel
example (s : UInt8) (p : ResponsePdu) (rest : Bytes)
    (h : Rtu.clientDecodeResponse (xorBytes goodRsp (bitError 6 24) ++ rest) = .ok (some (s, p))) :
    ∃ f loc, Rtu.decodeRsp (xorBytes goodRsp (bitError 6 24) ++ rest) = .ok (some (f, loc)) ∧
      loc ≠ ⟨0, 6⟩ := by
  obtain ⟨f, loc, hd, _, _, hl, _⟩ := rtu_client_corrupt_not_decoded goodRsp (bitError 6 24) rest
    ⟨0x11, [0x01, 0x01, 0x05]⟩ s p (by decide +kernel) (by decide)
    (Or.inl (singleBit_bitError 6 24 (by decide))) h
  exact ⟨f, loc, hd, hl⟩

end Modbus.C08Full

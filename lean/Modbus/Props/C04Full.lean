import Modbus.Lemmas.AduCompose
import Modbus.Props.C04
import Modbus.Props.C06
/-
C04 — RTU ADU round-trip, end to end, with NO PDU-level hypothesis left.

Props/C04.lean proves the framing half and takes the PDU-level round trip (C01 / C02) as a hypothesis
for the variable-payload kinds.  Here the two halves are composed, for every value a user can build
through the public constructors (`Request.Built r m`, `BuiltRsp r m`), in the property's own words:

* the encoder succeeds on every buffer of at least PDU length + 3 bytes and reports PDU length + 3;
* those bytes are: slave id, the SPECIFICATION's PDU of the meaning (`Spec.reqBytes m` /
  `Spec.rspBytes m`), then CRC-16/MODBUS of slave id and PDU — the independent bit-serial definition
  `Spec.crc16Modbus` of Spec/Crc.lean — with its LOW-order byte first (`Spec.crcWire`, by C06);
* handing exactly those bytes to the opposite side's decoder returns the same slave id and a value
  with the same meaning (coil-read responses rounded up to whole bytes, `RspMeaning.padded`);
* an exception response comes back as that exception, never as a successful response.

Hypotheses that remain are about the VALUE (see Props/C05Full.lean): `m.fits`, `m.InScope` /
`InScopeRsp m` (a custom response code is none of the TEN the response decoder models: the nine standard
codes and 0x07), `m.Framed` (`True` for the standard kinds and Read Exception Status).

Open findings (not repaired, pinned by the unedited test-suite), hence `…_partial`:
* D4 — `rtu::request_pdu_len` reads the byte count of 0x0F / 0x10 at the wrong offset, so
  write-multiple-coils / write-multiple-registers requests are excluded (`hC`, `hR`);
  `rtu_request_end_to_end_fails`.
* D12 — the three-byte write-single-coil response is excluded (`hD12`); `rtu_response_end_to_end_fails`.
-/
namespace Modbus.C04Full
open Modbus.AduRT Modbus.Reception

/-! ### the frame -/

/-- the serial-line frame of any PDU: slave id, PDU, CRC-16/MODBUS of both with the low-order byte
    first; three bytes longer than the PDU; running the CRC over the whole frame leaves zero -/
theorem rtu_frame_crc (slave : UInt8) (pdu : Bytes) :
    Spec.rtuFrame slave pdu = slave :: pdu ++ Spec.crcWire (slave :: pdu) ∧
    Spec.crcWire (slave :: pdu) =
      [UInt8.ofNat ((Spec.crc16Modbus (slave :: pdu)).toNat % 256),
       UInt8.ofNat ((Spec.crc16Modbus (slave :: pdu)).toNat / 256)] ∧
    (Spec.rtuFrame slave pdu).length = pdu.length + 3 ∧
    Spec.crc16Modbus (Spec.rtuFrame slave pdu) = 0#16 := by
  refine ⟨rtuFrame_crcWire slave pdu, rfl, rtuFrame_length slave pdu, ?_⟩
  rw [rtuFrame_crcWire]
  exact C06.crc_residue_spec (slave :: pdu)

example : Spec.rtuFrame 0x11 [0x03, 0x00, 0x6B, 0x00, 0x03] = [0x11, 0x03, 0x00, 0x6B, 0x00, 0x03, 0x76, 0x87] ∧
    Spec.crc16Modbus [0x11, 0x03, 0x00, 0x6B, 0x00, 0x03] = 0x8776#16 := by decide +kernel

/-! ### requests: client encodes, server decodes -/

/-
Full statement — FALSE for the model of the unedited crate (open finding D4):

  theorem rtu_request_end_to_end {r : Request} {m : Spec.ReqMeaning}
      (hb : r.Built m) (hf : m.fits) (hs : m.InScope) (hfr : m.Framed)
      (slave : UInt8) (buf : Bytes) (hl : (Spec.reqBytes m).length + 3 ≤ buf.length) :
      ∃ n out r', Rtu.clientEncodeRequest slave r buf = .ok (n, out) ∧
        n = (Spec.reqBytes m).length + 3 ∧
        out.take n = slave :: Spec.reqBytes m ++ Spec.crcWire (slave :: Spec.reqBytes m) ∧
        Rtu.serverDecodeRequest (out.take n) = .ok (some (slave, r')) ∧
        r'.sem = some m

Missing from the proved statement: exactly the meanings `.writeMultipleCoils a bs` and
`.writeMultipleRegisters a ws` (hypotheses `hC`, `hR`).  For those the encoder half still holds
(`rtu_request_encode`: the frame is written, with the correct CRC), but the server's length predictor
answers 'incomplete' on it: `rtu_request_end_to_end_fails`, `rtu_request_end_to_end_fails_coils`.
-/
/-- **Requests, end to end** — every built request kind except write-multiple-coils / -registers:
    every slave id (256), every buffer with room for PDU + 3 bytes. -/
theorem rtu_request_end_to_end_partial {r : Request} {m : Spec.ReqMeaning}
    (hb : r.Built m) (hf : m.fits) (hs : m.InScope) (hfr : m.Framed)
    (hC : ∀ a bs, m ≠ .writeMultipleCoils a bs) (hR : ∀ a ws, m ≠ .writeMultipleRegisters a ws)
    (slave : UInt8) (buf : Bytes) (hl : (Spec.reqBytes m).length + 3 ≤ buf.length) :
    ∃ n out r', Rtu.clientEncodeRequest slave r buf = .ok (n, out) ∧
      n = (Spec.reqBytes m).length + 3 ∧
      out.take n = slave :: Spec.reqBytes m ++ Spec.crcWire (slave :: Spec.reqBytes m) ∧
      Rtu.serverDecodeRequest (out.take n) = .ok (some (slave, r')) ∧
      r'.sem = some m := by
  obtain ⟨r', hd, hsem⟩ := hb.decode_image hf hs
  have hi := hb.image_eq
  obtain ⟨hF, h10⟩ := hb.first_ne hs hC hR
  obtain ⟨out, h1, h2, h3, _⟩ := C04.rtu_req_encode_decode_partial slave r r' buf (hb.encodable_iff.mpr hf)
    (by rw [hi]; exact hl) (hb.complete hf hfr) hF h10 hd
  rw [hi] at h1 h2 h3
  rw [rtuFrame_crcWire] at h2
  exact ⟨_, out, r', h1, rfl, h2, h3, hsem⟩

/-- the same when the decoder is handed the whole output buffer — the frame followed by whatever the
    buffer held beyond it -/
theorem rtu_request_end_to_end_buffer_partial {r : Request} {m : Spec.ReqMeaning}
    (hb : r.Built m) (hf : m.fits) (hs : m.InScope) (hfr : m.Framed)
    (hC : ∀ a bs, m ≠ .writeMultipleCoils a bs) (hR : ∀ a ws, m ≠ .writeMultipleRegisters a ws)
    (slave : UInt8) (buf : Bytes) (hl : (Spec.reqBytes m).length + 3 ≤ buf.length) :
    ∃ n out r', Rtu.clientEncodeRequest slave r buf = .ok (n, out) ∧
      out = slave :: Spec.reqBytes m ++ Spec.crcWire (slave :: Spec.reqBytes m) ++ buf.drop n ∧
      Rtu.serverDecodeRequest out = .ok (some (slave, r')) ∧
      r'.sem = some m := by
  obtain ⟨r', hd, hsem⟩ := hb.decode_image hf hs
  have hi := hb.image_eq
  have he := hb.encodable_iff.mpr hf
  have hl' : r.image.length + 3 ≤ buf.length := by rw [hi]; exact hl
  obtain ⟨hF, h10⟩ := hb.first_ne hs hC hR
  obtain ⟨out, h1, _, _, h4⟩ := C04.rtu_req_encode_decode_partial slave r r' buf he hl'
    (hb.complete hf hfr) hF h10 hd
  have h1' := C04.rtu_req_layout slave r buf he hl'
  rw [h1'] at h1
  have ho : out = Spec.rtuFrame slave r.image ++ buf.drop (r.image.length + 3) := by
    cases h1; rfl
  rw [hi, rtuFrame_crcWire] at ho
  refine ⟨_, out, r', ?_, ho, h4, hsem⟩
  rw [h1', hi, ho, rtuFrame_crcWire]

/-- the encoder half holds for EVERY built request that fits, write-multiple kinds included (D4 is a
    defect of the decoder's length predictor): PDU + 3 bytes, slave id, the specification's PDU,
    CRC-16/MODBUS low-order byte first, the buffer's own bytes beyond -/
theorem rtu_request_encode {r : Request} {m : Spec.ReqMeaning} (hb : r.Built m) (hf : m.fits)
    (slave : UInt8) (buf : Bytes) (hl : (Spec.reqBytes m).length + 3 ≤ buf.length) :
    Rtu.clientEncodeRequest slave r buf =
      .ok ((Spec.reqBytes m).length + 3,
        slave :: Spec.reqBytes m ++ Spec.crcWire (slave :: Spec.reqBytes m) ++
          buf.drop ((Spec.reqBytes m).length + 3)) := by
  have hi := hb.image_eq
  have h := C04.rtu_req_layout slave r buf (hb.encodable_iff.mpr hf) (by rw [hi]; exact hl)
  rw [hi, rtuFrame_crcWire] at h
  exact h

/-- a buffer shorter than PDU + 3 is refused with `BufferSize` — no partial frame, no panic -/
theorem rtu_request_short_buffer {r : Request} {m : Spec.ReqMeaning} (hb : r.Built m) (hf : m.fits)
    (slave : UInt8) (buf : Bytes) (hl : buf.length < (Spec.reqBytes m).length + 3) :
    Rtu.clientEncodeRequest slave r buf = .err .bufferSize :=
  C04.rtu_req_layout_short slave r buf (hb.encodable_iff.mpr hf) (by rw [hb.image_eq]; exact hl)

/-- the frame is a well-formed serial-line frame of Spec/Frames.lean (complete PDU of the request
    table) — for every built request that fits, write-multiple kinds included -/
theorem rtu_request_well_formed {r : Request} {m : Spec.ReqMeaning} (hb : r.Built m) (hf : m.fits)
    (hfr : m.Framed) (slave : UInt8) :
    Spec.WellFormedRtu .req (slave :: Spec.reqBytes m ++ Spec.crcWire (slave :: Spec.reqBytes m)) :=
  ⟨slave, _, hb.reqBytes_complete hf hfr, (rtuFrame_crcWire slave _).symm⟩

/-- D4: the full request statement is refuted for the model of the unedited crate — a
    write-multiple-registers request built by `Data::from_words` (address 1, registers 0x000A 0x0102)
    is encoded, and the server does not return it from those bytes -/
theorem rtu_request_end_to_end_fails :
    ¬ ∀ (r : Request) (m : Spec.ReqMeaning), r.Built m → m.fits → m.InScope → m.Framed →
        ∀ (slave : UInt8) (buf : Bytes), (Spec.reqBytes m).length + 3 ≤ buf.length →
        ∃ n out r', Rtu.clientEncodeRequest slave r buf = .ok (n, out) ∧
          Rtu.serverDecodeRequest (out.take n) = .ok (some (slave, r')) := by
  intro h
  have hw : Data.fromWords [0x000A, 0x0102] [0, 0, 0, 0] = .ok ⟨[0x00, 0x0A, 0x01, 0x02], 2⟩ := by
    decide +kernel
  obtain ⟨n, out, r', he, hd⟩ := h _ _ (.writeMultipleRegisters 1 _ _ _ hw) ⟨by decide, by decide⟩
    trivial trivial 0x11 (List.replicate 13 0) (by decide +kernel)
  have he' : Rtu.clientEncodeRequest 0x11 (.writeMultipleRegisters 1 ⟨[0x00, 0x0A, 0x01, 0x02], 2⟩)
      (List.replicate 13 0) =
      .ok (13, [0x11, 0x10, 0x00, 0x01, 0x00, 0x02, 0x04, 0x00, 0x0A, 0x01, 0x02, 0xC6, 0xF0]) := by
    decide +kernel
  rw [he'] at he
  cases he
  have hd' : Rtu.serverDecodeRequest
      (List.take 13 [0x11, 0x10, 0x00, 0x01, 0x00, 0x02, 0x04, 0x00, 0x0A, 0x01, 0x02, 0xC6, 0xF0]) = .ok none := by
    decide +kernel
  rw [hd'] at hd
  cases hd

/-- … and likewise a ten-coil write-multiple-coils request built by `Coils::from_bools`: the frame is
    the specification's (well-formed, correct CRC), the server answers 'incomplete' -/
theorem rtu_request_end_to_end_fails_coils :
    ∃ (r : Request) (m : Spec.ReqMeaning), r.Built m ∧ m.fits ∧ m.InScope ∧ m.Framed ∧
      m = .writeMultipleCoils 0x13 [true, false, true, true, false, false, true, true, true, false] ∧
      Rtu.clientEncodeRequest 0x11 r (List.replicate 11 0) =
        .ok (11, 0x11 :: Spec.reqBytes m ++ Spec.crcWire (0x11 :: Spec.reqBytes m)) ∧
      0x11 :: Spec.reqBytes m ++ Spec.crcWire (0x11 :: Spec.reqBytes m) =
        [0x11, 0x0F, 0x00, 0x13, 0x00, 0x0A, 0x02, 0xCD, 0x01, 0xBF, 0x0B] ∧
      Rtu.serverDecodeRequest (0x11 :: Spec.reqBytes m ++ Spec.crcWire (0x11 :: Spec.reqBytes m)) = .ok none := by
  have hc : Coils.fromBools [true, false, true, true, false, false, true, true, true, false] [0, 0] =
      .ok ⟨[0xCD, 0x01], 10⟩ := by decide +kernel
  refine ⟨_, _, .writeMultipleCoils 0x13 _ _ _ hc, ⟨by decide, by decide⟩, trivial, trivial, rfl, ?_, ?_, ?_⟩
  · decide +kernel
  · decide +kernel
  · decide +kernel

/-! non-vacuity.  A read/write-multiple-registers request built by `Data::from_words` over a dirty
    target (the one variable-payload request kind D4 leaves intact); a custom PDU (0x16). -/
example : Data.fromWords [0x00FF, 0x00FF, 0x00FF] [9, 9, 9, 9, 9, 9, 9] =
    .ok ⟨[0x00, 0xFF, 0x00, 0xFF, 0x00, 0xFF], 3⟩ := by decide +kernel

example : ∃ n out r',
    Rtu.clientEncodeRequest 0x11 (.readWriteMultipleRegisters 3 6 14 ⟨[0x00, 0xFF, 0x00, 0xFF, 0x00, 0xFF], 3⟩)
      (List.replicate 24 0xEE) = .ok (n, out) ∧
    n = (Spec.reqBytes (.readWriteMultipleRegisters 3 6 14 [0x00FF, 0x00FF, 0x00FF])).length + 3 ∧
    out.take n = 0x11 :: Spec.reqBytes (.readWriteMultipleRegisters 3 6 14 [0x00FF, 0x00FF, 0x00FF]) ++
      Spec.crcWire (0x11 :: Spec.reqBytes (.readWriteMultipleRegisters 3 6 14 [0x00FF, 0x00FF, 0x00FF])) ∧
    Rtu.serverDecodeRequest (out.take n) = .ok (some (0x11, r')) ∧
    r'.sem = some (.readWriteMultipleRegisters 3 6 14 [0x00FF, 0x00FF, 0x00FF]) :=
  rtu_request_end_to_end_partial
    (.readWriteMultipleRegisters 3 6 14 [0x00FF, 0x00FF, 0x00FF] [9, 9, 9, 9, 9, 9, 9] _ (by decide +kernel))
    ⟨by decide, by decide⟩ trivial trivial (fun _ _ h => by cases h) (fun _ _ h => by cases h)
    0x11 (List.replicate 24 0xEE) (by decide +kernel)

example :
    Rtu.clientEncodeRequest 0x11 (.readWriteMultipleRegisters 3 6 14 ⟨[0x00, 0xFF, 0x00, 0xFF, 0x00, 0xFF], 3⟩)
      (List.replicate 20 0xEE) =
      .ok (19, [0x11, 0x17, 0, 3, 0, 6, 0, 14, 0, 3, 6, 0, 0xFF, 0, 0xFF, 0, 0xFF, 0x4B, 0x54, 0xEE]) ∧
    Rtu.serverDecodeRequest [0x11, 0x17, 0, 3, 0, 6, 0, 14, 0, 3, 6, 0, 0xFF, 0, 0xFF, 0, 0xFF, 0x4B, 0x54] =
      .ok (some (0x11, .readWriteMultipleRegisters 3 6 14 ⟨[0x00, 0xFF, 0x00, 0xFF, 0x00, 0xFF], 3⟩)) := by
  decide +kernel

example : (Spec.ReqMeaning.custom 0x16 [0, 4, 0, 0xF2, 0, 0x25]).InScope ∧
    (Spec.ReqMeaning.custom 0x16 [0, 4, 0, 0xF2, 0, 0x25]).Framed := by
  refine ⟨by decide, ?_⟩
  show Spec.PduComplete .req _
  unfold Spec.PduComplete; decide +kernel

/-! ### responses: server encodes, client decodes -/

/-
Full statement — FALSE for the model of the unedited crate (open finding D12):

  theorem rtu_response_end_to_end {r : Response} {m : Spec.RspMeaning}
      (hb : BuiltRsp r m) (hf : m.fits) (hs : InScopeRsp m) (hfr : m.Framed)
      (slave : UInt8) (buf : Bytes) (hl : (Spec.rspBytes m).length + 3 ≤ buf.length) :
      ∃ n out r', Rtu.serverEncodeResponse slave (.ok r) buf = .ok (n, out) ∧
        n = (Spec.rspBytes m).length + 3 ∧
        out.take n = slave :: Spec.rspBytes m ++ Spec.crcWire (slave :: Spec.rspBytes m) ∧
        Rtu.clientDecodeResponse (out.take n) = .ok (some (slave, .ok r')) ∧
        r'.sem = some m.padded

Missing from the proved statement: exactly the meanings `.writeSingleCoil a` (hypothesis `hD12`);
`rtu_response_end_to_end_fails`.
-/
/-- **Responses, end to end** — every built response kind except write-single-coil. -/
theorem rtu_response_end_to_end_partial {r : Response} {m : Spec.RspMeaning}
    (hb : BuiltRsp r m) (hf : m.fits) (hs : InScopeRsp m) (hfr : m.Framed)
    (hD12 : ∀ a, m ≠ .writeSingleCoil a)
    (slave : UInt8) (buf : Bytes) (hl : (Spec.rspBytes m).length + 3 ≤ buf.length) :
    ∃ n out r', Rtu.serverEncodeResponse slave (.ok r) buf = .ok (n, out) ∧
      n = (Spec.rspBytes m).length + 3 ∧
      out.take n = slave :: Spec.rspBytes m ++ Spec.crcWire (slave :: Spec.rspBytes m) ∧
      Rtu.clientDecodeResponse (out.take n) = .ok (some (slave, .ok r')) ∧
      r'.sem = some m.padded := by
  obtain ⟨r', hd, hsem⟩ := hb.decode_image hf hs
  have hi := hb.image_eq hD12
  obtain ⟨out, h1, h2, h3, _⟩ := C04.rtu_rsp_encode_decode slave r r' buf (hb.pdu_encodable hf)
    (by rw [hi]; exact hl) (hb.complete hf hD12 hfr) (hb.not_exception hfr) hd
  rw [hi] at h1 h2 h3
  rw [rtuFrame_crcWire] at h2
  exact ⟨_, out, r', h1, rfl, h2, h3, hsem⟩

/-- the same when the decoder is handed the whole output buffer -/
theorem rtu_response_end_to_end_buffer_partial {r : Response} {m : Spec.RspMeaning}
    (hb : BuiltRsp r m) (hf : m.fits) (hs : InScopeRsp m) (hfr : m.Framed)
    (hD12 : ∀ a, m ≠ .writeSingleCoil a)
    (slave : UInt8) (buf : Bytes) (hl : (Spec.rspBytes m).length + 3 ≤ buf.length) :
    ∃ n out r', Rtu.serverEncodeResponse slave (.ok r) buf = .ok (n, out) ∧
      out = slave :: Spec.rspBytes m ++ Spec.crcWire (slave :: Spec.rspBytes m) ++ buf.drop n ∧
      Rtu.clientDecodeResponse out = .ok (some (slave, .ok r')) ∧
      r'.sem = some m.padded := by
  obtain ⟨r', hd, hsem⟩ := hb.decode_image hf hs
  have hi := hb.image_eq hD12
  have he := hb.pdu_encodable hf
  have hl' : r.image.length + 3 ≤ buf.length := by rw [hi]; exact hl
  obtain ⟨out, h1, _, _, h4⟩ := C04.rtu_rsp_encode_decode slave r r' buf he hl'
    (hb.complete hf hD12 hfr) (hb.not_exception hfr) hd
  have h1' : Rtu.serverEncodeResponse slave (.ok r) buf =
      .ok (r.image.length + 3, Spec.rtuFrame slave r.image ++ buf.drop (r.image.length + 3)) :=
    C04.rtu_rsp_layout slave (.ok r) buf he hl'
  rw [h1'] at h1
  have ho : out = Spec.rtuFrame slave r.image ++ buf.drop (r.image.length + 3) := by
    cases h1; rfl
  rw [hi, rtuFrame_crcWire] at ho
  refine ⟨_, out, r', ?_, ho, h4, hsem⟩
  rw [h1', hi, ho, rtuFrame_crcWire]

/-- a buffer shorter than PDU + 3 is refused with `BufferSize` -/
theorem rtu_response_short_buffer_partial {r : Response} {m : Spec.RspMeaning}
    (hb : BuiltRsp r m) (hf : m.fits) (hD12 : ∀ a, m ≠ .writeSingleCoil a)
    (slave : UInt8) (buf : Bytes) (hl : buf.length < (Spec.rspBytes m).length + 3) :
    Rtu.serverEncodeResponse slave (.ok r) buf = .err .bufferSize :=
  C04.rtu_rsp_layout_short slave (.ok r) buf (hb.pdu_encodable hf)
    (by show buf.length < r.image.length + 3; rw [hb.image_eq hD12]; exact hl)

/-- the frame is a well-formed serial-line frame of Spec/Frames.lean (complete PDU of the response table) -/
theorem rtu_response_well_formed {r : Response} {m : Spec.RspMeaning} (hb : BuiltRsp r m) (hf : m.fits)
    (hfr : m.Framed) (hD12 : ∀ a, m ≠ .writeSingleCoil a) (slave : UInt8) :
    Spec.WellFormedRtu .rsp (slave :: Spec.rspBytes m ++ Spec.crcWire (slave :: Spec.rspBytes m)) := by
  have hc := hb.complete hf hD12 hfr
  rw [hb.image_eq hD12] at hc
  exact ⟨slave, _, hc, (rtuFrame_crcWire slave _).symm⟩

/-- D12: the full response statement is refuted for the model of the unedited crate -/
theorem rtu_response_end_to_end_fails :
    ¬ ∀ (r : Response) (m : Spec.RspMeaning), BuiltRsp r m → m.fits → InScopeRsp m → m.Framed →
        ∀ (slave : UInt8) (buf : Bytes), (Spec.rspBytes m).length + 3 ≤ buf.length →
        ∃ n out r', Rtu.serverEncodeResponse slave (.ok r) buf = .ok (n, out) ∧
          Rtu.clientDecodeResponse (out.take n) = .ok (some (slave, .ok r')) := by
  intro h
  obtain ⟨n, out, r', he, hd⟩ := h _ _ (.writeSingleCoil 0x33) trivial trivial trivial 0x11
    (List.replicate 8 0) (by decide)
  have he' : Rtu.serverEncodeResponse 0x11 (.ok (.writeSingleCoil 0x33)) (List.replicate 8 0) =
      .ok (6, [0x11, 0x05, 0x00, 0x33, 0x55, 0x0C, 0, 0]) := by decide +kernel
  rw [he'] at he
  cases he
  have hd' : Rtu.clientDecodeResponse (List.take 6 [0x11, 0x05, 0x00, 0x33, 0x55, 0x0C, 0, 0]) = .ok none := by
    decide +kernel
  rw [hd'] at hd
  cases hd

/-! non-vacuity: a three-register read-holding-registers response built by `Data::from_words`; a
    ten-coil read-coils response (the meaning comes back padded to sixteen coils); a custom PDU (0x18) -/
example : Data.fromWords [0x022B, 0x0000, 0x0064] [9, 9, 9, 9, 9, 9, 9, 9] =
    .ok ⟨[0x02, 0x2B, 0x00, 0x00, 0x00, 0x64], 3⟩ := by decide +kernel

example : ∃ n out r',
    Rtu.serverEncodeResponse 0x11 (.ok (.readHoldingRegisters ⟨[0x02, 0x2B, 0x00, 0x00, 0x00, 0x64], 3⟩))
      (List.replicate 16 0) = .ok (n, out) ∧
    n = (Spec.rspBytes (.readHoldingRegisters [0x022B, 0x0000, 0x0064])).length + 3 ∧
    out.take n = 0x11 :: Spec.rspBytes (.readHoldingRegisters [0x022B, 0x0000, 0x0064]) ++
      Spec.crcWire (0x11 :: Spec.rspBytes (.readHoldingRegisters [0x022B, 0x0000, 0x0064])) ∧
    Rtu.clientDecodeResponse (out.take n) = .ok (some (0x11, .ok r')) ∧
    r'.sem = some (Spec.RspMeaning.readHoldingRegisters [0x022B, 0x0000, 0x0064]).padded :=
  rtu_response_end_to_end_partial
    (.readHoldingRegisters (ws := [0x022B, 0x0000, 0x0064]) (t := [9, 9, 9, 9, 9, 9, 9, 9]) (by decide +kernel))
    ⟨by decide, by decide⟩ trivial trivial (fun _ h => by cases h) 0x11 (List.replicate 16 0)
    (by decide +kernel)

/-- the same instance evaluated in the kernel: eleven bytes, CRC-16/MODBUS 0xBAC8 sent as C8 BA -/
example :
    Rtu.serverEncodeResponse 0x11 (.ok (.readHoldingRegisters ⟨[0x02, 0x2B, 0x00, 0x00, 0x00, 0x64], 3⟩))
      (List.replicate 12 0) =
      .ok (11, [0x11, 0x03, 0x06, 0x02, 0x2B, 0x00, 0x00, 0x00, 0x64, 0xC8, 0xBA, 0]) ∧
    Spec.crc16Modbus [0x11, 0x03, 0x06, 0x02, 0x2B, 0x00, 0x00, 0x00, 0x64] = 0xBAC8#16 ∧
    Rtu.clientDecodeResponse [0x11, 0x03, 0x06, 0x02, 0x2B, 0x00, 0x00, 0x00, 0x64, 0xC8, 0xBA] =
      .ok (some (0x11, .ok (.readHoldingRegisters ⟨[0x02, 0x2B, 0x00, 0x00, 0x00, 0x64], 3⟩))) ∧
    (Response.readHoldingRegisters ⟨[0x02, 0x2B, 0x00, 0x00, 0x00, 0x64], 3⟩).sem =
      some (.readHoldingRegisters [0x022B, 0x0000, 0x0064]) := by
  decide +kernel

example : ∃ c, Coils.fromBools [true, false, true, true, false, false, true, true, true, false] [0, 0] = .ok c ∧
    ∃ n out r', Rtu.serverEncodeResponse 0x11 (.ok (.readCoils c)) (List.replicate 7 0) = .ok (n, out) ∧
      n = 7 ∧ out.take n = [0x11, 0x01, 0x02, 0xCD, 0x01, 0xED, 0x6F] ∧
      Rtu.clientDecodeResponse (out.take n) = .ok (some (0x11, .ok r')) ∧
      r'.sem = some (.readCoils [true, false, true, true, false, false, true, true, true, false,
                                 false, false, false, false, false, false]) := by
  refine ⟨⟨[0xCD, 0x01], 10⟩, by decide +kernel, ?_⟩
  obtain ⟨n, out, r', h1, h2, h3, h4, h5⟩ := rtu_response_end_to_end_partial
    (.readCoils (bs := [true, false, true, true, false, false, true, true, true, false]) (t := [0, 0])
      (c := ⟨[0xCD, 0x01], 10⟩) (by decide +kernel))
    ⟨by decide, by decide⟩ trivial trivial (fun _ h => by cases h) 0x11 (List.replicate 7 0)
    (by decide +kernel)
  refine ⟨n, out, r', h1, h2, ?_, h4, ?_⟩
  · rw [h3]; decide +kernel
  · rw [h5]; decide +kernel

example : InScopeRsp (.custom 0x18 [0x00, 0x02, 0xAA, 0xBB]) ∧
    (Spec.RspMeaning.custom 0x18 [0x00, 0x02, 0xAA, 0xBB]).Framed := by
  refine ⟨?_, ⟨by decide, ?_⟩⟩
  · show (0x18 : UInt8) ∉ modelledRspCodes
    decide
  show Spec.PduComplete .rsp _
  unfold Spec.PduComplete; decide +kernel

/-- **Read Exception Status, end to end** — an instance of `rtu_response_end_to_end_partial` like any
    fixed-layout kind: every status byte, every slave id, every buffer of at least five bytes; the five bytes
    are `slave 07 s crc_lo crc_hi` and the value decoded from them means `ReadExceptionStatus(s)`
    (`C04.rtu_rsp_encode_decode_read_exception_status`: it IS that value) -/
theorem rtu_read_exception_status_end_to_end (s slave : UInt8) (buf : Bytes) (hl : 5 ≤ buf.length) :
    ∃ n out r', Rtu.serverEncodeResponse slave (.ok (.readExceptionStatus s)) buf = .ok (n, out) ∧ n = 5 ∧
      out.take n = slave :: [0x07, s] ++ Spec.crcWire (slave :: [0x07, s]) ∧
      Rtu.clientDecodeResponse (out.take n) = .ok (some (slave, .ok r')) ∧
      r'.sem = some (.readExceptionStatus s) :=
  rtu_response_end_to_end_partial (.readExceptionStatus s) trivial trivial trivial (fun _ h => by cases h)
    slave buf hl

example : Rtu.serverEncodeResponse 0x11 (.ok (.readExceptionStatus 0x6D)) (List.replicate 5 0) =
      .ok (5, [0x11, 0x07, 0x6D, 0xE2, 0x18]) ∧
    Rtu.clientDecodeResponse [0x11, 0x07, 0x6D, 0xE2, 0x18] = .ok (some (0x11, .ok (.readExceptionStatus 0x6D))) := by
  constructor <;> decide +kernel

/-! ### exception responses -/

/-- **Exception responses, end to end.**  Every `ExceptionResponse` value whose function value is
    1 … 0x2B and each of the nine exception codes, every slave id, every buffer of at least five
    bytes: the server writes slave id, function + 0x80, exception code, CRC-16/MODBUS low-order byte
    first; the client returns it as an exception — the same slave id, the same function value, the same
    exception code — and never as a successful response. -/
theorem rtu_exception_end_to_end (slave : UInt8) (fc : FunctionCode) (k : Exception)
    (buf : Bytes) (h1 : 1 ≤ fc.value) (h2 : fc.value ≤ 0x2B) (hb : 5 ≤ buf.length) :
    ∃ out e', Rtu.serverEncodeResponse slave (.error ⟨fc, k⟩) buf = .ok (5, out) ∧
      out.take 5 = slave :: Spec.excBytes fc.value k.val ++ Spec.crcWire (slave :: Spec.excBytes fc.value k.val) ∧
      k.val ∈ Spec.excCodes ∧
      Rtu.clientDecodeResponse (out.take 5) = .ok (some (slave, .error e')) ∧
      e'.function.value = fc.value ∧ e'.exception = k ∧
      (∀ s r, Rtu.clientDecodeResponse (out.take 5) ≠ .ok (some (s, .ok r))) := by
  obtain ⟨out, he, ht, hd, _, hv⟩ := C04.rtu_exception_encode_decode slave ⟨fc, k⟩ buf h1 h2 hb
  refine ⟨out, ⟨FunctionCode.new fc.value, k⟩, he, ?_, Rsp.exception_val_mem k, hd, hv, rfl, ?_⟩
  · rw [ht, rtuFrame_crcWire]; rfl
  · intro s r h
    rw [hd] at h
    cases h

/-- stated over the bytes: every function value `f` in 1 … 0x2B and every exception code of the
    specification's list — the value `ExceptionResponse { function: FunctionCode::new(f), exception }`
    with that code exists, is framed as `slave, f + 0x80, code, CRC`, and comes back equal -/
theorem rtu_exception_end_to_end_codes (slave : UInt8) (f code : UInt8) (buf : Bytes)
    (h1 : 1 ≤ f) (h2 : f ≤ 0x2B) (hc : code ∈ Spec.excCodes) (hb : 5 ≤ buf.length) :
    ∃ k : Exception, k.val = code ∧
    ∃ out, Rtu.serverEncodeResponse slave (.error ⟨FunctionCode.new f, k⟩) buf = .ok (5, out) ∧
      out.take 5 = slave :: [f + 0x80, code] ++ Spec.crcWire (slave :: [f + 0x80, code]) ∧
      Rtu.clientDecodeResponse (out.take 5) = .ok (some (slave, .error ⟨FunctionCode.new f, k⟩)) := by
  obtain ⟨k, hk⟩ := Rsp.exception_of_code code hc
  refine ⟨k, hk, ?_⟩
  have hv := value_new f
  obtain ⟨out, he, ht, hd, _, _⟩ := C04.rtu_exception_encode_decode slave ⟨FunctionCode.new f, k⟩ buf
    (by show 1 ≤ (FunctionCode.new f).value; rw [hv]; exact h1)
    (by show (FunctionCode.new f).value ≤ 0x2B; rw [hv]; exact h2) hb
  simp only [hv, hk] at ht hd
  rw [rtuFrame_crcWire] at ht
  exact ⟨out, he, ht, hd⟩

/-- exception 0x83 / 0x02 (read holding registers, illegal data address) -/
example : ∃ out e', Rtu.serverEncodeResponse 0x2A (.error ⟨.readHoldingRegisters, .illegalDataAddress⟩) (List.replicate 5 0) = .ok (5, out) ∧
    out.take 5 = 0x2A :: Spec.excBytes 0x03 0x02 ++ Spec.crcWire (0x2A :: Spec.excBytes 0x03 0x02) ∧
    (0x02 : UInt8) ∈ Spec.excCodes ∧
    Rtu.clientDecodeResponse (out.take 5) = .ok (some (0x2A, .error e')) ∧
    e'.function.value = 0x03 ∧ e'.exception = .illegalDataAddress ∧
    (∀ s r, Rtu.clientDecodeResponse (out.take 5) ≠ .ok (some (s, .ok r))) :=
  rtu_exception_end_to_end 0x2A .readHoldingRegisters .illegalDataAddress _ (by decide) (by decide) (by decide)

example :
    Rtu.serverEncodeResponse 0x2A (.error ⟨.readHoldingRegisters, .illegalDataAddress⟩) (List.replicate 5 0) =
      .ok (5, [0x2A, 0x83, 0x02, 0xB0, 0xF9]) ∧
    0x2A :: Spec.excBytes 0x03 0x02 ++ Spec.crcWire (0x2A :: Spec.excBytes 0x03 0x02) = [0x2A, 0x83, 0x02, 0xB0, 0xF9] ∧
    Spec.crc16Modbus [0x2A, 0x83, 0x02] = 0xF9B0#16 ∧
    Rtu.clientDecodeResponse [0x2A, 0x83, 0x02, 0xB0, 0xF9] =
      .ok (some (0x2A, .error ⟨.readHoldingRegisters, .illegalDataAddress⟩)) := by decide +kernel

end Modbus.C04Full

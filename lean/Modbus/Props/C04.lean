import Modbus.Lemmas.AduRoundTrip
import Modbus.Lemmas.Scan
/-
C04 — RTU ADU round-trip in both directions.

For every slave id (all 256) and every request or response that serial-line framing supports, the
encoded frame is slave id, PDU, then the CRC-16 of those bytes serialised by `be16`, of total length
PDU length + 3 (`rtu_req_layout`, `rtu_rsp_layout`, `rtu_frame_fields`; that the first checksum
byte on the wire is the *low-order* byte of CRC-16/MODBUS is property C06).  Handing exactly that
frame — or that frame followed by anything — to the opposite side's decoder returns the same slave
id and what the PDU decoder makes of the PDU (`rtu_req_roundtrip_partial`, `rtu_rsp_roundtrip`),
exception responses coming back as exceptions (`rtu_exception_roundtrip`; the client tries the
exception decoder first).

`Spec.rtuFrame` (Spec/Frames.lean) is the byte-level statement of the frame, independent of the
encoder.  The PDU-level round trip is property C01 / C02; it is a *hypothesis* of the generic theorems
here and is discharged in this file for the fixed-layout kinds (`…_fixed`).

Open findings (not repaired, pinned by the unedited test-suite):
* D4 — `rtu::request_pdu_len` reads ADU offset 4 instead of 6 for function codes 0x0F / 0x10, so
  write-multiple requests are not framed (`rtu_req_write_multiple_defect_witness`); the request
  theorems are `…_partial`: every function code of the table except those two.
* D12 — the three-byte write-single-coil response (`rtu_rsp_write_single_coil_defect_witness`).
-/
namespace Modbus.C04
open Modbus.AduRT Modbus.Reception

/-! ### layout of the encoded ADU -/

/-- the RTU frame, field by field: slave id, PDU, the CRC-16 register of those bytes, high-order
    register byte first (`be16`); total PDU length + 3 -/
theorem rtu_frame_fields (slave : UInt8) (pdu : Bytes) :
    Spec.rtuFrame slave pdu =
      slave :: pdu ++ [UInt8.ofNat ((crc16 (slave :: pdu)).toNat / 256),
                       UInt8.ofNat ((crc16 (slave :: pdu)).toNat % 256)] ∧
    Spec.rtuFrame slave pdu = slave :: pdu ++ be16 (crc16 (slave :: pdu)) ∧
    (Spec.rtuFrame slave pdu).length = pdu.length + 3 :=
  ⟨rfl, rfl, rtuFrame_length slave pdu⟩

example : Spec.rtuFrame 0x11 [0x03, 0x00, 0x6B, 0x00, 0x03] =
    [0x11, 0x03, 0x00, 0x6B, 0x00, 0x03, 0x76, 0x87] := by decide +kernel

/-- `rtu::client::encode_request`, every slave id, encodable request and every buffer that is long
    enough: exactly `PDU length + 3` bytes, the frame, the old bytes beyond it -/
theorem rtu_req_layout (slave : UInt8) (r : Request) (buf : Bytes)
    (he : r.Encodable) (hb : r.image.length + 3 ≤ buf.length) :
    Rtu.clientEncodeRequest slave r buf =
      .ok (r.image.length + 3, Spec.rtuFrame slave r.image ++ buf.drop (r.image.length + 3)) := by
  have h := Rtu.encodeAdu_eq slave (RequestPdu.encode r) r.image (fun b => Request.encode_eq r b he)
    (req_image_pos r he) buf
  have hlt : ¬ buf.length < r.image.length + 3 := by omega
  rw [if_neg hlt] at h
  rw [rtuFrame_eq]; exact h

/-- … and an error (never a panic, nothing else) when the buffer is shorter -/
theorem rtu_req_layout_short (slave : UInt8) (r : Request) (buf : Bytes)
    (he : r.Encodable) (hb : buf.length < r.image.length + 3) :
    Rtu.clientEncodeRequest slave r buf = .err .bufferSize := by
  have h := Rtu.encodeAdu_eq slave (RequestPdu.encode r) r.image (fun b => Request.encode_eq r b he)
    (req_image_pos r he) buf
  rw [if_pos hb] at h; exact h

/-- `rtu::server::encode_response`, successful and exception responses alike -/
theorem rtu_rsp_layout (slave : UInt8) (p : ResponsePdu) (buf : Bytes)
    (he : p.Encodable) (hb : p.image.length + 3 ≤ buf.length) :
    Rtu.serverEncodeResponse slave p buf =
      .ok (p.image.length + 3, Spec.rtuFrame slave p.image ++ buf.drop (p.image.length + 3)) := by
  have h := Rtu.encodeAdu_eq slave p.encode p.image (fun b => ResponsePdu.encode_eq p b he)
    (rspPdu_image_pos p he) buf
  have hlt : ¬ buf.length < p.image.length + 3 := by omega
  rw [if_neg hlt] at h
  rw [rtuFrame_eq]; exact h

theorem rtu_rsp_layout_short (slave : UInt8) (p : ResponsePdu) (buf : Bytes)
    (he : p.Encodable) (hb : buf.length < p.image.length + 3) :
    Rtu.serverEncodeResponse slave p buf = .err .bufferSize := by
  have h := Rtu.encodeAdu_eq slave p.encode p.image (fun b => ResponsePdu.encode_eq p b he)
    (rspPdu_image_pos p he) buf
  rw [if_pos hb] at h; exact h

/-! non-vacuity of the layout theorems -/
example : (Request.writeMultipleCoils 0x13 ⟨[0xCD, 0x01], 10⟩).Encodable ∧
    (Request.writeMultipleCoils 0x13 ⟨[0xCD, 0x01], 10⟩).image.length + 3 ≤ (List.replicate 12 (0xEE : UInt8)).length := by
  refine ⟨?_, by decide⟩
  simp [Request.Encodable, Coils.packedLen, packedCoilsLen]
example : Rtu.clientEncodeRequest 0x11 (.writeMultipleCoils 0x13 ⟨[0xCD, 0x01], 10⟩) (List.replicate 12 0xEE) =
    .ok (11, [0x11, 0x0F, 0x00, 0x13, 0x00, 0x0A, 0x02, 0xCD, 0x01, 0xBF, 0x0B, 0xEE]) := by decide +kernel
example : (ResponsePdu.error ⟨FunctionCode.new 3, .illegalDataAddress⟩).Encodable := by
  show (FunctionCode.new 3).value < 0x80
  decide
example : Rtu.serverEncodeResponse 0x2A (.error ⟨FunctionCode.new 3, .illegalDataAddress⟩) (List.replicate 5 0) =
    .ok (5, [0x2A, 0x83, 0x02, 0xB0, 0xF9]) := by decide +kernel

/-! ### frameable PDUs: the images of the standard kinds are complete PDUs of the length table -/

/-- every encodable standard request (nine kinds; register containers holding exactly `2·len` bytes,
    as `Data::from_words` builds them) is a complete PDU of the request table — the table frames
    0x0F / 0x10 too; it is the crate's RTU predictor that does not (D4) -/
theorem rtu_req_frameable (r : Request) (hs : r.Standard) (he : r.Encodable) (hx : r.DataExact) :
    Spec.PduComplete .req r.image := req_image_complete r hs he hx

/-- every encodable response kind the codec implements, except write-single-coil (D12) -/
theorem rtu_rsp_frameable (r : Response) (hs : r.Frameable) (he : r.Encodable) :
    Spec.PduComplete .rsp r.image := rsp_image_complete r hs he

/-- the exception PDUs the response table knows: function values 1 … 0x2B (bytes 0x81 … 0xAB) -/
theorem rtu_exception_frameable (f : UInt8) (k : Exception) (h1 : 1 ≤ f) (h2 : f ≤ 0x2B) :
    Spec.PduComplete .rsp [f + 0x80, k.val] := exc_complete f k.val h1 h2

example : (Request.readWriteMultipleRegisters 1 1 2 ⟨[0xAB, 0xCD], 1⟩).Standard ∧
    (Request.readWriteMultipleRegisters 1 1 2 ⟨[0xAB, 0xCD], 1⟩).Encodable ∧
    (Request.readWriteMultipleRegisters 1 1 2 ⟨[0xAB, 0xCD], 1⟩).DataExact :=
  ⟨trivial, by show 1 * 2 ≤ 255; decide, by show 2 = 1 * 2; rfl⟩
example : (Response.readCoils ⟨[0x05], 3⟩).Frameable ∧ (Response.readCoils ⟨[0x05], 3⟩).Encodable :=
  ⟨trivial, by simp [Response.Encodable, Coils.packedLen, packedCoilsLen]⟩

/-! ### requests: client encodes, server decodes -/

/-
Full statement — FALSE for the model of the unedited crate (open finding D4):

  theorem rtu_req_roundtrip (slave : UInt8) (r r' : Request)
      (hc : Spec.PduComplete .req r.image) (hd : Request.decode r.image = .ok r') (rest : Bytes) :
      Rtu.serverDecodeRequest (Spec.rtuFrame slave r.image ++ rest) = .ok (some (slave, r'))

Missing from the proved statement: exactly the requests whose function code is 0x0F or 0x10
(`hF`, `h10`); `rtu_req_write_multiple_defect_witness` shows the full statement fails for one.
-/
/-- Decoding the frame of a complete request PDU (followed by anything) returns the same slave id and
    the value the PDU decoder returns for the PDU — every function code of the table except 0x0F / 0x10. -/
theorem rtu_req_roundtrip_partial (slave : UInt8) (r r' : Request)
    (hc : Spec.PduComplete .req r.image)
    (hF : r.image[0]? ≠ some 0x0F) (h10 : r.image[0]? ≠ some 0x10)
    (hd : Request.decode r.image = .ok r') (rest : Bytes) :
    Rtu.serverDecodeRequest (Spec.rtuFrame slave r.image ++ rest) = .ok (some (slave, r')) := by
  rw [rtu_serverDecodeRequest_whole (rtu_req_good_partial slave r.image hc hF h10) rest, hd]
  rfl

/-- exactly that frame -/
theorem rtu_req_roundtrip_exact_partial (slave : UInt8) (r r' : Request)
    (hc : Spec.PduComplete .req r.image)
    (hF : r.image[0]? ≠ some 0x0F) (h10 : r.image[0]? ≠ some 0x10)
    (hd : Request.decode r.image = .ok r') :
    Rtu.serverDecodeRequest (Spec.rtuFrame slave r.image) = .ok (some (slave, r')) := by
  have := rtu_req_roundtrip_partial slave r r' hc hF h10 hd []
  rwa [List.append_nil] at this

/-- with the PDU-level round trip (C01) as hypothesis: an equivalent request comes back -/
theorem rtu_req_roundtrip_sem_partial (slave : UInt8) (r : Request)
    (hc : Spec.PduComplete .req r.image)
    (hF : r.image[0]? ≠ some 0x0F) (h10 : r.image[0]? ≠ some 0x10)
    (hpdu : ∃ r', Request.decode r.image = .ok r' ∧ r'.sem = r.sem) (rest : Bytes) :
    ∃ r', Rtu.serverDecodeRequest (Spec.rtuFrame slave r.image ++ rest) = .ok (some (slave, r')) ∧
      r'.sem = r.sem := by
  obtain ⟨r', hd, hs⟩ := hpdu
  exact ⟨r', rtu_req_roundtrip_partial slave r r' hc hF h10 hd rest, hs⟩

/-- the standard kinds other than write-multiple-coils / -registers: completeness is a theorem, only
    the PDU-level round trip remains -/
theorem rtu_req_roundtrip_standard_partial (slave : UInt8) (r r' : Request)
    (hs : r.RtuFrameable) (he : r.Encodable) (hx : r.DataExact)
    (hd : Request.decode r.image = .ok r') (rest : Bytes) :
    Rtu.serverDecodeRequest (Spec.rtuFrame slave r.image ++ rest) = .ok (some (slave, r')) :=
  rtu_req_roundtrip_partial slave r r' (rtu_req_frameable r (req_rtuFrameable_standard hs) he hx)
    (req_image_first_ne r hs).1 (req_image_first_ne r hs).2 hd rest

/-- encoder and decoder composed: the bytes `encode_request` reports as written — and equally the
    whole output buffer, whatever lay beyond — decode to the same slave id and the decoded PDU -/
theorem rtu_req_encode_decode_partial (slave : UInt8) (r r' : Request) (buf : Bytes)
    (he : r.Encodable) (hb : r.image.length + 3 ≤ buf.length)
    (hc : Spec.PduComplete .req r.image)
    (hF : r.image[0]? ≠ some 0x0F) (h10 : r.image[0]? ≠ some 0x10)
    (hd : Request.decode r.image = .ok r') :
    ∃ out, Rtu.clientEncodeRequest slave r buf = .ok (r.image.length + 3, out) ∧
      out.take (r.image.length + 3) = Spec.rtuFrame slave r.image ∧
      Rtu.serverDecodeRequest (out.take (r.image.length + 3)) = .ok (some (slave, r')) ∧
      Rtu.serverDecodeRequest out = .ok (some (slave, r')) := by
  refine ⟨_, rtu_req_layout slave r buf he hb, ?_, ?_, rtu_req_roundtrip_partial slave r r' hc hF h10 hd _⟩
  · exact List.take_left' (rtuFrame_length slave r.image)
  · rw [List.take_left' (rtuFrame_length slave r.image)]
    exact rtu_req_roundtrip_exact_partial slave r r' hc hF h10 hd

/-- **fixed-layout requests, no hypothesis left**: read coils / discrete inputs / holding / input
    registers, write single coil / register — every slave id, address, 16-bit value and coil state,
    any following bytes: the same slave id and the same request come back.  (None of these is
    affected by D4, so this is the full statement for these kinds.) -/
theorem rtu_req_roundtrip_fixed (slave : UInt8) (r : Request) (hf : r.FixedLayout) (rest : Bytes) :
    Rtu.serverDecodeRequest (Spec.rtuFrame slave r.image ++ rest) = .ok (some (slave, r)) := by
  have hr : r.RtuFrameable := by
    cases r <;> first | trivial | exact absurd hf (by simp [Request.FixedLayout])
  exact rtu_req_roundtrip_standard_partial slave r r hr (req_fixed_encodable hf) (req_fixed_dataExact hf)
    (req_decode_fixed r hf) rest

theorem rtu_req_encode_decode_fixed (slave : UInt8) (r : Request) (hf : r.FixedLayout)
    (buf : Bytes) (hb : 8 ≤ buf.length) :
    ∃ out, Rtu.clientEncodeRequest slave r buf = .ok (8, out) ∧
      Rtu.serverDecodeRequest (out.take 8) = .ok (some (slave, r)) ∧
      Rtu.serverDecodeRequest out = .ok (some (slave, r)) := by
  have h5 := req_image_length_fixed r hf
  have hr : r.RtuFrameable := by
    cases r <;> first | trivial | exact absurd hf (by simp [Request.FixedLayout])
  obtain ⟨out, h1, _, h3, h4⟩ := rtu_req_encode_decode_partial slave r r buf (req_fixed_encodable hf) (by omega)
    (rtu_req_frameable r (req_fixed_standard hf) (req_fixed_encodable hf) (req_fixed_dataExact hf))
    (req_image_first_ne r hr).1 (req_image_first_ne r hr).2 (req_decode_fixed r hf)
  rw [h5] at h1 h3
  exact ⟨out, h1, h3, h4⟩

/-- **custom requests, no PDU-level hypothesis left**: a custom function code that the request table
    knows and that is not one of the nine modelled kinds (0x07, 0x0B, 0x0C, 0x11, 0x16, 0x18; none of
    them is affected by D4) comes back as `Custom(FunctionCode::Custom(code), data)` -/
theorem rtu_req_roundtrip_custom (slave : UInt8) (fc : FunctionCode) (d : Bytes)
    (hc : Spec.PduComplete .req (Request.custom fc d).image)
    (hm : fc.value ∉ modelledReqCodes) (rest : Bytes) :
    Rtu.serverDecodeRequest (Spec.rtuFrame slave (Request.custom fc d).image ++ rest) =
      .ok (some (slave, .custom (.custom fc.value) d)) ∧
    (Request.custom (.custom fc.value) d).sem = (Request.custom fc d).sem := by
  obtain ⟨c, h0, hk⟩ := complete_known hc
  have h0' : (Request.custom fc d).image[0]? = some fc.value := rfl
  have hc0 : c = fc.value := by rw [h0'] at h0; exact (Option.some.inj h0).symm
  subst hc0
  have hm' := hm
  simp only [modelledReqCodes, List.mem_cons, List.not_mem_nil, or_false, not_or] at hm'
  refine ⟨rtu_req_roundtrip_partial slave _ _ hc ?_ ?_ (req_decode_custom fc d (req_known_lt _ hk) hm) rest, rfl⟩
  · rw [h0']; intro h; exact hm'.2.2.2.2.2.2.1 (Option.some.inj h)
  · rw [h0']; intro h; exact hm'.2.2.2.2.2.2.2.1 (Option.some.inj h)

/-! non-vacuity: a payload kind (read/write multiple registers), a custom PDU the table knows (0x16),
    the fixed kinds -/
example : Rtu.serverDecodeRequest (Spec.rtuFrame 0xF7
      (Request.readWriteMultipleRegisters 1 1 2 ⟨[0xAB, 0xCD], 1⟩).image ++ [0xDE, 0xAD]) =
    .ok (some (0xF7, .readWriteMultipleRegisters 1 1 2 ⟨[0xAB, 0xCD], 1⟩)) :=
  rtu_req_roundtrip_standard_partial _ _ _ (by trivial) (by show 1 * 2 ≤ 255; decide) (by show 2 = 1 * 2; rfl)
    (by decide +kernel) _
example : Spec.PduComplete .req (Request.custom .maskWriteRegister [0, 4, 0, 0xF2, 0, 0x25]).image ∧
    FunctionCode.maskWriteRegister.value ∉ modelledReqCodes := by
  unfold Spec.PduComplete; decide +kernel
example : Spec.PduComplete .req (Request.custom (.custom 0x16) [0, 4, 0, 0xF2, 0, 0x25]).image ∧
    (Request.custom (.custom 0x16) [0, 4, 0, 0xF2, 0, 0x25]).image[0]? ≠ some 0x0F ∧
    (Request.custom (.custom 0x16) [0, 4, 0, 0xF2, 0, 0x25]).image[0]? ≠ some 0x10 ∧
    Request.decode (Request.custom (.custom 0x16) [0, 4, 0, 0xF2, 0, 0x25]).image =
      .ok (.custom (.custom 0x16) [0, 4, 0, 0xF2, 0, 0x25]) := by
  unfold Spec.PduComplete; decide +kernel
example : ∃ r', Request.decode (Request.readCoils 1 2).image = .ok r' ∧ r'.sem = (Request.readCoils 1 2).sem :=
  ⟨_, req_decode_readCoils 1 2, rfl⟩
example : (Request.writeSingleCoil 0xFFFF true).FixedLayout := trivial
example : Rtu.serverDecodeRequest (Spec.rtuFrame 0xFF (Request.writeSingleCoil 0xFFFF true).image) =
    .ok (some (0xFF, .writeSingleCoil 0xFFFF true)) := by decide +kernel

/-- D4 (open finding): a write-multiple-registers request built by `Data::from_words` (address 1,
    registers 0x000A 0x0102) is encoded into a well-formed frame — a complete PDU of the request
    table with the correct CRC — which `rtu::server::decode_request` answers 'incomplete', although the
    PDU decoder accepts the PDU: the request does not come back. -/
theorem rtu_req_write_multiple_defect_witness :
    Data.fromWords [0x000A, 0x0102] [0, 0, 0, 0] = .ok ⟨[0x00, 0x0A, 0x01, 0x02], 2⟩ ∧
    (Request.writeMultipleRegisters 1 ⟨[0x00, 0x0A, 0x01, 0x02], 2⟩).Encodable ∧
    Spec.PduComplete .req (Request.writeMultipleRegisters 1 ⟨[0x00, 0x0A, 0x01, 0x02], 2⟩).image ∧
    Rtu.clientEncodeRequest 0x11 (.writeMultipleRegisters 1 ⟨[0x00, 0x0A, 0x01, 0x02], 2⟩) (List.replicate 13 0) =
      .ok (13, Spec.rtuFrame 0x11 (Request.writeMultipleRegisters 1 ⟨[0x00, 0x0A, 0x01, 0x02], 2⟩).image) ∧
    Spec.rtuFrame 0x11 (Request.writeMultipleRegisters 1 ⟨[0x00, 0x0A, 0x01, 0x02], 2⟩).image =
      [0x11, 0x10, 0x00, 0x01, 0x00, 0x02, 0x04, 0x00, 0x0A, 0x01, 0x02, 0xC6, 0xF0] ∧
    Rtu.serverDecodeRequest (Spec.rtuFrame 0x11 (Request.writeMultipleRegisters 1 ⟨[0x00, 0x0A, 0x01, 0x02], 2⟩).image) =
      .ok none ∧
    Request.decode (Request.writeMultipleRegisters 1 ⟨[0x00, 0x0A, 0x01, 0x02], 2⟩).image =
      .ok (.writeMultipleRegisters 1 ⟨[0x00, 0x0A, 0x01, 0x02], 2⟩) := by
  refine ⟨?_, ?_, ?_, ?_, ?_, ?_, ?_⟩
  · decide +kernel
  · show 2 * 2 ≤ 255; decide
  · exact rtu_req_frameable _ trivial (by show 2 * 2 ≤ 255; decide) (by show 4 = 2 * 2; rfl)
  · decide +kernel
  · decide +kernel
  · decide +kernel
  · decide +kernel

/-- the same for write-multiple-coils (0x0F) -/
theorem rtu_req_write_multiple_coils_defect_witness :
    Spec.PduComplete .req (Request.writeMultipleCoils 0x13 ⟨[0xCD, 0x01], 10⟩).image ∧
    Rtu.serverDecodeRequest (Spec.rtuFrame 0x11 (Request.writeMultipleCoils 0x13 ⟨[0xCD, 0x01], 10⟩).image) = .ok none ∧
    (Request.decode (Request.writeMultipleCoils 0x13 ⟨[0xCD, 0x01], 10⟩).image).isOk = true := by
  refine ⟨?_, ?_, ?_⟩
  · exact rtu_req_frameable _ trivial (by simp [Request.Encodable, Coils.packedLen, packedCoilsLen]) trivial
  · decide +kernel
  · decide +kernel

/-- so the full request statement is refuted for the model of the unedited crate -/
theorem rtu_req_roundtrip_fails :
    ¬ ∀ (slave : UInt8) (r r' : Request), Spec.PduComplete .req r.image →
        Request.decode r.image = .ok r' →
        Rtu.serverDecodeRequest (Spec.rtuFrame slave r.image) = .ok (some (slave, r')) := by
  intro h
  obtain ⟨_, _, hc, _, _, hd, hp⟩ := rtu_req_write_multiple_defect_witness
  have g := h 0x11 _ _ hc hp
  rw [hd] at g
  cases g

/-! ### responses: server encodes, client decodes -/

/-- Decoding the frame of a complete, non-exception response PDU returns the same slave id and the
    value `Response::try_from` returns for the PDU, as a successful response. -/
theorem rtu_rsp_roundtrip (slave : UInt8) (r r' : Response)
    (hc : Spec.PduComplete .rsp r.image)
    (hx : ∃ e, ExceptionResponse.decode r.image = .err e)
    (hd : Response.decode r.image = .ok r') (rest : Bytes) :
    Rtu.clientDecodeResponse (Spec.rtuFrame slave r.image ++ rest) = .ok (some (slave, .ok r')) := by
  obtain ⟨e, hx⟩ := hx
  rw [rtu_clientDecodeResponse_whole (rtu_rsp_good slave r.image hc) rest]
  unfold decodeRspPdu
  simp only [hx, hd]
  rfl

/-- the exception decoder rejects every PDU whose first byte is below 0x80 -/
theorem rtu_rsp_not_exception (pdu : Bytes) (b : UInt8) (h0 : pdu[0]? = some b) (hb : b < 0x80) :
    ∃ e, ExceptionResponse.decode pdu = .err e := exc_decode_err_of_lt pdu b h0 hb

theorem rtu_rsp_roundtrip_exact (slave : UInt8) (r r' : Response)
    (hc : Spec.PduComplete .rsp r.image)
    (hx : ∃ e, ExceptionResponse.decode r.image = .err e)
    (hd : Response.decode r.image = .ok r') :
    Rtu.clientDecodeResponse (Spec.rtuFrame slave r.image) = .ok (some (slave, .ok r')) := by
  have := rtu_rsp_roundtrip slave r r' hc hx hd []
  rwa [List.append_nil] at this

/-- with the PDU-level round trip (C02) as hypothesis: an equivalent response comes back
    (`m` is the expected meaning: `r.sem`, padded to whole bytes for coil reads) -/
theorem rtu_rsp_roundtrip_sem (slave : UInt8) (r : Response) (m : Option Spec.RspMeaning)
    (hc : Spec.PduComplete .rsp r.image)
    (hx : ∃ e, ExceptionResponse.decode r.image = .err e)
    (hpdu : ∃ r', Response.decode r.image = .ok r' ∧ r'.sem = m) (rest : Bytes) :
    ∃ r', Rtu.clientDecodeResponse (Spec.rtuFrame slave r.image ++ rest) = .ok (some (slave, .ok r')) ∧
      r'.sem = m := by
  obtain ⟨r', hd, hs⟩ := hpdu
  exact ⟨r', rtu_rsp_roundtrip slave r r' hc hx hd rest, hs⟩

/-
Full statement — FALSE for the model of the unedited crate (open finding D12):

  theorem rtu_rsp_roundtrip_standard (r r' : Response) (he : r.Encodable) (implemented kind)
      (hd : Response.decode r.image = .ok r') (rest) :
      Rtu.clientDecodeResponse (Spec.rtuFrame slave r.image ++ rest) = .ok (some (slave, .ok r'))

Missing from the proved statement: exactly `Response.writeSingleCoil _` (`Frameable` excludes it and
nothing else among the implemented kinds); `rtu_rsp_write_single_coil_defect_witness` shows the full
statement fails there.
-/
/-- the implemented response kinds except write-single-coil -/
theorem rtu_rsp_roundtrip_standard_partial (slave : UInt8) (r r' : Response)
    (hs : r.Frameable) (he : r.Encodable)
    (hd : Response.decode r.image = .ok r') (rest : Bytes) :
    Rtu.clientDecodeResponse (Spec.rtuFrame slave r.image ++ rest) = .ok (some (slave, .ok r')) := by
  obtain ⟨b, h0, hb⟩ := rsp_image_first_lt r hs
  exact rtu_rsp_roundtrip slave r r' (rtu_rsp_frameable r hs he) (exc_decode_err_of_lt _ b h0 hb) hd rest

theorem rtu_rsp_encode_decode (slave : UInt8) (r r' : Response) (buf : Bytes)
    (he : (ResponsePdu.ok r).Encodable) (hb : r.image.length + 3 ≤ buf.length)
    (hc : Spec.PduComplete .rsp r.image)
    (hx : ∃ e, ExceptionResponse.decode r.image = .err e)
    (hd : Response.decode r.image = .ok r') :
    ∃ out, Rtu.serverEncodeResponse slave (.ok r) buf = .ok (r.image.length + 3, out) ∧
      out.take (r.image.length + 3) = Spec.rtuFrame slave r.image ∧
      Rtu.clientDecodeResponse (out.take (r.image.length + 3)) = .ok (some (slave, .ok r')) ∧
      Rtu.clientDecodeResponse out = .ok (some (slave, .ok r')) := by
  refine ⟨_, rtu_rsp_layout slave (.ok r) buf he hb, ?_, ?_, rtu_rsp_roundtrip slave r r' hc hx hd _⟩
  · exact List.take_left' (rtuFrame_length slave r.image)
  · show Rtu.clientDecodeResponse (List.take (r.image.length + 3) (Spec.rtuFrame slave r.image ++ _)) = _
    rw [List.take_left' (rtuFrame_length slave r.image)]
    exact rtu_rsp_roundtrip_exact slave r r' hc hx hd

/-- **fixed-layout responses, no hypothesis left**: write single register / multiple coils / multiple
    registers — every slave id, address and 16-bit value -/
theorem rtu_rsp_roundtrip_fixed (slave : UInt8) (r : Response) (hf : r.FixedLayout) (rest : Bytes) :
    Rtu.clientDecodeResponse (Spec.rtuFrame slave r.image ++ rest) = .ok (some (slave, .ok r)) :=
  rtu_rsp_roundtrip_standard_partial slave r r (rsp_fixed_frameable hf) (rsp_fixed_encodable hf)
    (rsp_decode_fixed r hf) rest

theorem rtu_rsp_encode_decode_fixed (slave : UInt8) (r : Response) (hf : r.FixedLayout)
    (buf : Bytes) (hb : 8 ≤ buf.length) :
    ∃ out, Rtu.serverEncodeResponse slave (.ok r) buf = .ok (8, out) ∧
      Rtu.clientDecodeResponse (out.take 8) = .ok (some (slave, .ok r)) ∧
      Rtu.clientDecodeResponse out = .ok (some (slave, .ok r)) := by
  have h5 := rsp_image_length_fixed r hf
  obtain ⟨b, h0, hlt⟩ := rsp_image_first_lt r (rsp_fixed_frameable hf)
  obtain ⟨out, h1, _, h3, h4⟩ := rtu_rsp_encode_decode slave r r buf ⟨rsp_fixed_encodable hf, by omega⟩ (by omega)
    (rtu_rsp_frameable r (rsp_fixed_frameable hf) (rsp_fixed_encodable hf)) (exc_decode_err_of_lt _ b h0 hlt)
    (rsp_decode_fixed r hf)
  rw [h5] at h1 h3
  exact ⟨out, h1, h3, h4⟩

/-- **Read Exception Status** (`07 s`, two bytes — the one RTU-only response kind encoder and decoder
    implement) like any fixed-layout kind: every status byte, every slave id, every buffer of at least five
    bytes; the very same value comes back -/
theorem rtu_rsp_encode_decode_read_exception_status (slave s : UInt8) (buf : Bytes) (hb : 5 ≤ buf.length) :
    ∃ out, Rtu.serverEncodeResponse slave (.ok (.readExceptionStatus s)) buf = .ok (5, out) ∧
      out.take 5 = Spec.rtuFrame slave [0x07, s] ∧
      Rtu.clientDecodeResponse (out.take 5) = .ok (some (slave, .ok (.readExceptionStatus s))) ∧
      Rtu.clientDecodeResponse out = .ok (some (slave, .ok (.readExceptionStatus s))) := by
  have hi : (Response.readExceptionStatus s).image = [0x07, s] := rfl
  have hd : Response.decode (Response.readExceptionStatus s).image = .ok (.readExceptionStatus s) := by
    rw [hi]; simp [Response.decode, idx, minResponsePduLen, show FunctionCode.new 0x07 = .readExceptionStatus from by decide]
  obtain ⟨out, h1, h2, h3, h4⟩ := rtu_rsp_encode_decode slave (.readExceptionStatus s) (.readExceptionStatus s) buf
    ⟨trivial, by rw [hi]; simp⟩ (by rw [hi]; exact hb)
    (rtu_rsp_frameable _ trivial trivial) (exc_decode_err_of_lt _ 0x07 rfl (by decide)) hd
  exact ⟨out, h1, h2, h3, h4⟩

/-- **custom responses, no PDU-level hypothesis left**: a custom function code below 0x80 that the
    response table knows and that is not one of the ten kinds the response decoder models (0x0B, 0x0C, 0x16, 0x18; 0x07 is a modelled kind now)
    comes back as `Custom(FunctionCode::new(code), data)` — the same code and the same data -/
theorem rtu_rsp_roundtrip_custom (slave : UInt8) (fc : FunctionCode) (d : Bytes)
    (hc : Spec.PduComplete .rsp (Response.custom fc d).image)
    (hlt : fc.value < 0x80) (hm : fc.value ∉ modelledRspCodes) (rest : Bytes) :
    Rtu.clientDecodeResponse (Spec.rtuFrame slave (Response.custom fc d).image ++ rest) =
      .ok (some (slave, .ok (.custom (FunctionCode.new fc.value) d))) ∧
    (Response.custom (FunctionCode.new fc.value) d).sem = (Response.custom fc d).sem := by
  refine ⟨rtu_rsp_roundtrip slave _ _ hc (exc_decode_err_of_lt _ fc.value rfl hlt)
    (rsp_decode_custom fc d hm) rest, ?_⟩
  show some (Spec.RspMeaning.custom (FunctionCode.new fc.value).value d) = some (.custom fc.value d)
  rw [value_new]

/-! non-vacuity: a read-holding-registers response, a coil response (meaning padded), a fixed kind,
    a custom PDU with a 16-bit count (0x18, read FIFO queue) -/
example : Spec.PduComplete .rsp (Response.custom (.custom 0x18) [0x00, 0x02, 0xAA, 0xBB]).image ∧
    (FunctionCode.custom 0x18).value < 0x80 ∧ (FunctionCode.custom 0x18).value ∉ modelledRspCodes := by
  unfold Spec.PduComplete; decide +kernel
example : Rtu.clientDecodeResponse (Spec.rtuFrame 0x03 (Response.readHoldingRegisters ⟨[0x12, 0x34, 0x56, 0x78], 2⟩).image ++ [0x99]) =
    .ok (some (0x03, .ok (.readHoldingRegisters ⟨[0x12, 0x34, 0x56, 0x78], 2⟩))) :=
  rtu_rsp_roundtrip_standard_partial _ _ _ (by trivial) (by show 2 * 2 ≤ 255 ∧ 2 * 2 ≤ 4; decide) (by decide +kernel) _
example : ∃ r', Response.decode (Response.readCoils ⟨[0x05], 3⟩).image = .ok r' ∧
    r'.sem = (Response.readCoils ⟨[0x05], 3⟩).sem.map Spec.RspMeaning.padded := by
  refine ⟨.readCoils ⟨[0x05], 8⟩, by decide +kernel, by decide +kernel⟩
example : ∃ e, ExceptionResponse.decode (Response.readCoils ⟨[0x05], 3⟩).image = .err e :=
  rtu_rsp_not_exception _ 0x01 rfl (by decide)
example : (Response.writeMultipleRegisters 0xFFFF 0x7B).FixedLayout := trivial
example : Rtu.clientDecodeResponse (Spec.rtuFrame 0xFF (Response.writeMultipleRegisters 0xFFFF 0x7B).image) =
    .ok (some (0xFF, .ok (.writeMultipleRegisters 0xFFFF 0x7B))) := by decide +kernel

/-- D12 (open finding): the crate's write-single-coil response is three bytes, the length table says
    five; its frame is not a complete PDU, and the client answers 'incomplete' on exactly the bytes
    the server produced — the response does not come back. -/
theorem rtu_rsp_write_single_coil_defect_witness :
    (ResponsePdu.ok (.writeSingleCoil 0x33)).Encodable ∧
    ¬ Spec.PduComplete .rsp (Response.writeSingleCoil 0x33).image ∧
    Rtu.serverEncodeResponse 0x11 (.ok (.writeSingleCoil 0x33)) (List.replicate 6 0) =
      .ok (6, Spec.rtuFrame 0x11 (Response.writeSingleCoil 0x33).image) ∧
    Spec.rtuFrame 0x11 (Response.writeSingleCoil 0x33).image = [0x11, 0x05, 0x00, 0x33, 0x55, 0x0C] ∧
    Rtu.clientDecodeResponse (Spec.rtuFrame 0x11 (Response.writeSingleCoil 0x33).image) = .ok none ∧
    Response.decode (Response.writeSingleCoil 0x33).image = .ok (.writeSingleCoil 0x33) := by
  refine ⟨⟨trivial, by decide⟩, rsp_write_single_coil_incomplete 0x33, ?_, ?_, ?_, ?_⟩ <;> decide +kernel

/-- so the full response statement is refuted for the model of the unedited crate -/
theorem rtu_rsp_roundtrip_standard_fails :
    ¬ ∀ (slave : UInt8) (r r' : Response), r.Encodable → 1 ≤ r.image.length →
        Response.decode r.image = .ok r' →
        Rtu.clientDecodeResponse (Spec.rtuFrame slave r.image) = .ok (some (slave, .ok r')) := by
  intro h
  obtain ⟨_, _, _, _, hd, hp⟩ := rtu_rsp_write_single_coil_defect_witness
  have g := h 0x11 (.writeSingleCoil 0x33) _ trivial (by decide) hp
  rw [hd] at g
  cases g

/-! ### exception responses -/

/-- Every exception frame the length table knows (function values 1 … 0x2B, i.e. bytes 0x81 … 0xAB;
    all nine exception codes; every slave id; any following bytes) comes back as an exception —
    same slave id, function `FunctionCode::new f`, the same exception code. -/
theorem rtu_exception_roundtrip (slave : UInt8) (f : UInt8) (k : Exception)
    (h1 : 1 ≤ f) (h2 : f ≤ 0x2B) (rest : Bytes) :
    Rtu.clientDecodeResponse (Spec.rtuFrame slave [f + 0x80, k.val] ++ rest) =
      .ok (some (slave, .error ⟨FunctionCode.new f, k⟩)) := by
  have hf : f < 0x80 := by
    rw [UInt8.lt_iff_toNat_lt]; rw [UInt8.le_iff_toNat_le] at h2
    have : (0x2B : UInt8).toNat = 43 := rfl
    have : (0x80 : UInt8).toNat = 128 := rfl
    omega
  rw [rtu_clientDecodeResponse_whole (rtu_rsp_good slave _ (exc_complete f k.val h1 h2)) rest,
    decodeRspPdu_exc f k hf]
  rfl

/-- … never as a successful response -/
theorem rtu_exception_never_success (slave : UInt8) (f : UInt8) (k : Exception)
    (h1 : 1 ≤ f) (h2 : f ≤ 0x2B) (rest : Bytes) (s : UInt8) (r : Response) :
    Rtu.clientDecodeResponse (Spec.rtuFrame slave [f + 0x80, k.val] ++ rest) ≠ .ok (some (s, .ok r)) := by
  rw [rtu_exception_roundtrip slave f k h1 h2 rest]
  intro h; cases h

/-- encoder and decoder composed, for every `ExceptionResponse` value whose function value is 1 … 0x2B -/
theorem rtu_exception_encode_decode (slave : UInt8) (e : ExceptionResponse) (buf : Bytes)
    (h1 : 1 ≤ e.function.value) (h2 : e.function.value ≤ 0x2B) (hb : 5 ≤ buf.length) :
    ∃ out, Rtu.serverEncodeResponse slave (.error e) buf = .ok (5, out) ∧
      out.take 5 = Spec.rtuFrame slave [e.function.value + 0x80, e.exception.val] ∧
      Rtu.clientDecodeResponse (out.take 5) =
        .ok (some (slave, .error ⟨FunctionCode.new e.function.value, e.exception⟩)) ∧
      Rtu.clientDecodeResponse out =
        .ok (some (slave, .error ⟨FunctionCode.new e.function.value, e.exception⟩)) ∧
      (FunctionCode.new e.function.value).value = e.function.value := by
  have hf : e.function.value < 0x80 := by
    rw [UInt8.lt_iff_toNat_lt]; rw [UInt8.le_iff_toNat_le] at h2
    have : (0x2B : UInt8).toNat = 43 := rfl
    have : (0x80 : UInt8).toNat = 128 := rfl
    omega
  have hl := rtu_rsp_layout slave (.error e) buf hf hb
  have e2 : (ResponsePdu.error e).image = [e.function.value + 0x80, e.exception.val] := rfl
  rw [e2] at hl
  have h5 : (Spec.rtuFrame slave [e.function.value + 0x80, e.exception.val]).length = 5 :=
    rtuFrame_length slave _
  refine ⟨_, hl, ?_, ?_, rtu_exception_roundtrip slave _ _ h1 h2 _, value_new _⟩
  · exact List.take_left' h5
  · rw [List.take_left' h5]
    have := rtu_exception_roundtrip slave _ e.exception h1 h2 []
    rwa [List.append_nil] at this

/-- Exception bytes outside the table (0x80, and 0xAC … 0xFF): the lone frame is answered
    'incomplete' — it is not decoded at all, in particular not as a successful response.
    (After the error at offset 0 `rtu::decode` rescans from offsets 1, 2, …, where fewer than
    3 + 2 bytes remain.) -/
theorem rtu_exception_unframeable (slave : UInt8) (f x : UInt8)
    (h : f = 0 ∨ (0x2B < f ∧ f < 0x80)) :
    Rtu.clientDecodeResponse (Spec.rtuFrame slave [f + 0x80, x]) = .ok none := by
  have hs := rtu_decodeRsp_unknown slave [f + 0x80, x] (f + 0x80) (by simp) rfl (exc_rule_unknown f h)
  unfold Rtu.clientDecodeResponse
  have hne : (Spec.rtuFrame slave [f + 0x80, x]).isEmpty = false := rfl
  rw [hne, hs]
  rfl

example : (0x2B : UInt8) < 0x2C ∧ (0x2C : UInt8) < 0x80 := by decide
example : Rtu.clientDecodeResponse (Spec.rtuFrame 0x2A [0x83, Exception.illegalDataAddress.val] ++ [0xFF]) =
    .ok (some (0x2A, .error ⟨.readHoldingRegisters, .illegalDataAddress⟩)) :=
  rtu_exception_roundtrip 0x2A 3 .illegalDataAddress (by decide) (by decide) _
example : Rtu.clientDecodeResponse [0x2A, 0x83, 0x02, 0xB0, 0xF9] =
    .ok (some (0x2A, .error ⟨.readHoldingRegisters, .illegalDataAddress⟩)) := by decide +kernel
example : Rtu.clientDecodeResponse (Spec.rtuFrame 0x2A [0xAC, 0x08]) = .ok none := by decide +kernel

/-! ### the serial-line-only requests: framed by the table, not encodable (open finding D19) -/

/-
Full statement of C04 for these kinds — FALSE for the model of the unedited crate (open finding D19):

  theorem rtu_req_serial_only_roundtrip (slave : UInt8) (r : Request)
      (hr : r = .readExceptionStatus ∨ r = .getCommEventCounter ∨ r = .getCommEventLog ∨ r = .reportServerId)
      (buf : Bytes) (hb : 4 ≤ buf.length) :
      ∃ out, Rtu.clientEncodeRequest slave r buf = .ok (4, out) ∧
        out.take 4 = Spec.rtuFrame slave [r.fc.value] ∧
        ∃ r', Rtu.serverDecodeRequest (out.take 4) = .ok (some (slave, r')) ∧ r'.fc.value = r.fc.value

("every request that serial-line framing supports": the length table and the crate's own
`rtu::request_pdu_len` frame 0x07 / 0x0B / 0x0C / 0x11 as one-byte PDUs.)  It fails at the first conjunct:
`Request::pdu_len` is `todo!()` for these kinds, so `rtu::client::encode_request` PANICS on every buffer
that passes its own two-byte room check.
-/
/-- **open finding D19 at ADU level.**  `rtu::client::encode_request` on ANY slave id and each of the four
    serial-line-only requests the framing layer supports: `Err(BufferSize)` for a buffer of fewer than two
    bytes (the encoder's header-room check comes first), a PANIC for EVERY longer buffer — although the
    specification's length table frames each of them as a one-byte PDU, and the frames
    `slave, code, crc` are what the crate's own server-side decoder accepts (as `Custom` requests). -/
theorem rtu_unimplemented_request_panics_witness (slave : UInt8) (r : Request)
    (hr : r = .readExceptionStatus ∨ r = .getCommEventCounter ∨ r = .getCommEventLog ∨ r = .reportServerId)
    (buf : Bytes) :
    Rtu.clientEncodeRequest slave r buf = (if buf.length < 2 then .err .bufferSize else .panic) ∧
    (buf.length < 2 → Rtu.clientEncodeRequest slave r buf = .err .bufferSize) ∧
    (2 ≤ buf.length → Rtu.clientEncodeRequest slave r buf = .panic) ∧
    Spec.lenRule .req r.fc.value.toNat = .fixed 1 ∧
    Spec.PduComplete .req [r.fc.value] ∧
    Rtu.serverDecodeRequest (Spec.rtuFrame slave [r.fc.value]) =
      .ok (some (slave, .custom (.custom r.fc.value) [])) := by
  have key : Rtu.clientEncodeRequest slave r buf = (if buf.length < 2 then .err .bufferSize else .panic) := by
    unfold Rtu.clientEncodeRequest Rtu.encodeAdu
    by_cases h : buf.length < 2
    · rw [if_pos h, if_pos h]
    · rw [if_neg h, if_neg h]
      rcases hr with rfl | rfl | rfl | rfl <;> rfl
  refine ⟨key, fun h => by rw [key, if_pos h], fun h => by rw [key, if_neg (by omega)], ?_, ?_, ?_⟩
  · rcases hr with rfl | rfl | rfl | rfl <;> decide
  · rcases hr with rfl | rfl | rfl | rfl <;> exact complete_fixed (n := 1) rfl (by decide) rfl
  · have h := fun (c : UInt8) (hc : Spec.PduComplete .req [c]) (hm : c ∉ modelledReqCodes) =>
      (rtu_req_roundtrip_custom slave (.custom c) [] hc hm []).1
    simp only [List.append_nil] at h
    rcases hr with rfl | rfl | rfl | rfl
    · exact h 0x07 (complete_fixed (n := 1) rfl (by decide) rfl) (by decide)
    · exact h 0x0B (complete_fixed (n := 1) rfl (by decide) rfl) (by decide)
    · exact h 0x0C (complete_fixed (n := 1) rfl (by decide) rfl) (by decide)
    · exact h 0x11 (complete_fixed (n := 1) rfl (by decide) rfl) (by decide)

example : Rtu.clientEncodeRequest 0x11 .readExceptionStatus [] = .err .bufferSize ∧
    Rtu.clientEncodeRequest 0x11 .readExceptionStatus [0] = .err .bufferSize ∧
    Rtu.clientEncodeRequest 0x11 .readExceptionStatus [0, 0] = .panic ∧
    Rtu.clientEncodeRequest 0x11 .readExceptionStatus (List.replicate 256 0) = .panic ∧
    Rtu.clientEncodeRequest 0x11 .reportServerId (List.replicate 4 0) = .panic ∧
    Spec.lenRule .req 0x07 = .fixed 1 ∧ Spec.lenRule .req 0x0B = .fixed 1 ∧
    Spec.lenRule .req 0x0C = .fixed 1 ∧ Spec.lenRule .req 0x11 = .fixed 1 ∧
    Rtu.serverDecodeRequest [0x11, 0x07, 0x4C, 0x22] = .ok (some (0x11, .custom (.custom 0x07) [])) := by
  decide +kernel
/-! ### exception frames outside the table, with following bytes -/

/-- the attempt at the front of a serial-line frame whose PDU starts with a function code the response table
    does not list — followed by ANY bytes — is rejected with an error (the predictor looks at byte 1 only) -/
theorem rtu_attemptRsp_unknown (slave : UInt8) (pdu : Bytes) (c : UInt8)
    (h0 : pdu[0]? = some c) (hu : Spec.lenRule .rsp c.toNat = .unknown) (rest : Bytes) :
    ∃ e, Rtu.attemptRsp (Spec.rtuFrame slave pdu ++ rest) = .err e := by
  have hpos : 1 ≤ pdu.length := by
    cases pdu with
    | nil => simp at h0
    | cons _ _ => simp
  unfold Rtu.attemptRsp mkAttempt
  rw [rtu_responsePduLen_eq]
  have e := rtuFrame_split slave pdu rest
  have : Spec.predict 1 .rsp (Spec.rtuFrame slave pdu ++ rest) = .reject := by
    rw [e, predict_shift 1 .rsp _ _ rfl]
    refine predict_reject (c := c) ?_ hu
    rw [List.getElem?_append_left (by omega)]; exact h0
  rw [this]
  exact ⟨_, rfl⟩

/-- **Exception frames outside the table, followed by ANY bytes.**  `F` = the encoded serial-line ADU of an
    exception response for a function value the length table does not list (0, or 0x2C … 0x7F), `rest`
    arbitrary:

    * the scanner's attempt at offset 0 is an error (the length predictor rejects byte 1);
    * so `rtu::decode` never reports a frame with `start = 0`: whatever it reports starts at an offset
      1 … 255 and is what the attempt produced THERE;
    * so whatever `rtu::client::decode_response` returns for `F ++ rest` is the PDU of a frame found at a
      later offset, never the PDU `[f + 0x80, x]` located at offset 0;
    * with nothing following, the answer is 'incomplete' (`rtu_exception_unframeable`).

    NOT covered — and not provable, see `rtu_exception_unframeable_overlap_witness`: that the frame found at
    a later offset does not OVERLAP the bytes of `F` (offsets 1 … 4 are tried with the remaining bytes of
    `F` as slave id / function code / data; four chosen bytes complete them to a frame with a valid CRC). -/
theorem rtu_exception_unframeable_followed (slave : UInt8) (f x : UInt8)
    (h : f = 0 ∨ (0x2B < f ∧ f < 0x80)) (rest : Bytes) :
    (∃ e, Rtu.attemptRsp (Spec.rtuFrame slave [f + 0x80, x] ++ rest) = .err e) ∧
    (∀ fr loc, Rtu.decodeRsp (Spec.rtuFrame slave [f + 0x80, x] ++ rest) = .ok (some (fr, loc)) →
      1 ≤ loc.start ∧ loc.start < 256 ∧
      Rtu.attemptRsp ((Spec.rtuFrame slave [f + 0x80, x] ++ rest).drop loc.start) = .ok (some (fr, loc.size))) ∧
    (∀ s p, Rtu.clientDecodeResponse (Spec.rtuFrame slave [f + 0x80, x] ++ rest) = .ok (some (s, p)) →
      ∃ fr loc, Rtu.decodeRsp (Spec.rtuFrame slave [f + 0x80, x] ++ rest) = .ok (some (fr, loc)) ∧
        1 ≤ loc.start ∧ s = fr.slave ∧ decodeRspPdu fr.pdu = .ok p) ∧
    (rest = [] → Rtu.clientDecodeResponse (Spec.rtuFrame slave [f + 0x80, x] ++ rest) = .ok none) := by
  have hatt := rtu_attemptRsp_unknown slave [f + 0x80, x] (f + 0x80) rfl (exc_rule_unknown f h) rest
  have hscan : ∀ fr loc, Rtu.decodeRsp (Spec.rtuFrame slave [f + 0x80, x] ++ rest) = .ok (some (fr, loc)) →
      1 ≤ loc.start ∧ loc.start < 256 ∧
      Rtu.attemptRsp ((Spec.rtuFrame slave [f + 0x80, x] ++ rest).drop loc.start) = .ok (some (fr, loc.size)) := by
    intro fr loc hs
    obtain ⟨h1, _, h3, _⟩ := scan_no_later Rtu.attemptRsp _ fr loc hs
    refine ⟨?_, h1, h3⟩
    rcases Nat.eq_zero_or_pos loc.start with h0 | hp
    · rw [h0, List.drop_zero] at h3
      obtain ⟨e, he⟩ := hatt
      rw [he] at h3; cases h3
    · exact hp
  refine ⟨hatt, hscan, ?_, ?_⟩
  · intro s p hd
    unfold Rtu.clientDecodeResponse at hd
    have hne : (Spec.rtuFrame slave [f + 0x80, x] ++ rest).isEmpty = false :=
      append_ne_nil_of_pos (by rw [rtuFrame_length]; omega) rest
    rw [hne] at hd
    simp only [Bool.false_eq_true, if_false] at hd
    cases hs : Rtu.decodeRsp (Spec.rtuFrame slave [f + 0x80, x] ++ rest) with
    | err e => rw [hs] at hd; cases hd
    | panic => rw [hs] at hd; cases hd
    | ok o =>
      cases o with
      | none => rw [hs] at hd; simp at hd
      | some q =>
        obtain ⟨fr, loc⟩ := q
        rw [hs] at hd
        simp only [Res.bind'_ok] at hd
        refine ⟨fr, loc, rfl, (hscan fr loc hs).1, ?_⟩
        unfold decodeRspPdu
        cases hx : ExceptionResponse.decode fr.pdu with
        | ok e =>
          rw [hx] at hd
          simp only [Res.ok.injEq, Option.some.injEq, Prod.mk.injEq] at hd
          obtain ⟨rfl, rfl⟩ := hd
          exact ⟨rfl, rfl⟩
        | panic => rw [hx] at hd; cases hd
        | err e =>
          rw [hx] at hd
          simp only at hd
          cases hr : Response.decode fr.pdu with
          | ok r =>
            rw [hr] at hd
            simp only [Res.map_ok, Res.ok.injEq, Option.some.injEq, Prod.mk.injEq] at hd
            obtain ⟨rfl, rfl⟩ := hd
            exact ⟨rfl, rfl⟩
          | err e' => rw [hr] at hd; cases hd
          | panic => rw [hr] at hd; cases hd
  · rintro rfl
    rw [List.append_nil]
    exact rtu_exception_unframeable slave f x h

/-- what `rtu_exception_unframeable_followed` cannot say: `F = 11 AC 06 DC C7` (slave 0x11, exception PDU
    `AC 06`, CRC) followed by `00 01 DB DA`.  Offset 0 is rejected; at offset 1 the bytes
    `AC 06 DC C7 00 01 DB DA` ARE a well-formed frame (slave 0xAC, write-single-register echo, valid CRC), and
    `decode_response` returns it as a SUCCESSFUL response — four of its bytes are bytes of `F`. -/
theorem rtu_exception_unframeable_overlap_witness :
    Spec.rtuFrame 0x11 [0xAC, 0x06] = [0x11, 0xAC, 0x06, 0xDC, 0xC7] ∧
    Rtu.clientDecodeResponse (Spec.rtuFrame 0x11 [0xAC, 0x06] ++ [0x00, 0x01, 0xDB, 0xDA]) =
      .ok (some (0xAC, .ok (.writeSingleRegister 0xDCC7 1))) ∧
    Rtu.decodeRsp (Spec.rtuFrame 0x11 [0xAC, 0x06] ++ [0x00, 0x01, 0xDB, 0xDA]) =
      .ok (some (⟨0xAC, [0x06, 0xDC, 0xC7, 0x00, 0x01]⟩, ⟨1, 8⟩)) := by
  decide +kernel
end Modbus.C04

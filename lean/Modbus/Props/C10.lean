import Modbus.Lemmas.Reception4
/-
C10 — incremental reception: prefixes are 'incomplete', the full frame is found at (0, length),
and appended bytes do not change the result.

`Reception.Good scanf f x` (Lemmas/Reception.lean) *is* the property for one frame `f` with content `x`:

  pos   : 1 ≤ f.length
  whole : ∀ rest, scanf (f ++ rest) = ok (some (x, ⟨0, f.length⟩))      -- found; stable under any suffix
  pre   : ∀ p, p ≠ [] → p <+: f → p.length < f.length → scanf p = ok none  -- every strict non-empty prefix

It is proved for every well-formed frame — all function codes of the length table, every payload
size, no bound — of `tcp::decode` (both directions) and `rtu::decode` (responses; requests except
function codes 0x0F / 0x10, open finding D4, with a witness), and carried to the four ADU decoders.
-/
namespace Modbus.C10
open Reception

/-! ### the scan loop, for an arbitrary attempt -/

/-- the first attempt finds a frame ⇒ it is reported at offset 0 (whatever follows in `buf`) -/
theorem scan_at_zero {F : Type} (att : Attempt F) (buf : Bytes) (f : F) (sz : Nat)
    (h : att buf = .ok (some (f, sz))) (h2 : 2 ≤ buf.length) :
    scan att buf = .ok (some (f, ⟨0, sz⟩)) := Reception.scan_at_zero att buf f sz h h2

/-- the first attempt is incomplete ⇒ the scan is incomplete -/
theorem scan_prefix_none {F : Type} (att : Attempt F) (p : Bytes)
    (h : att p = .ok none) (h2 : 2 ≤ p.length) : scan att p = .ok none :=
  Reception.scan_prefix_none att p h h2

/-- one byte is never attempted -/
theorem scan_one_byte {F : Type} (att : Attempt F) (p : Bytes) (h1 : p.length = 1) :
    scan att p = .ok none := Reception.scan_one_byte att p h1

example : ([0x01] : Bytes).length = 1 := rfl
example : Rtu.attemptRsp [0x01, 0x03, 0x02] = .ok none ∧ 2 ≤ [0x01, 0x03, 0x02].length := by decide +kernel
example : Rtu.attemptRsp [0x01, 0x83, 0x02, 0xC0, 0xF1, 0x55] = .ok (some (⟨0x01, [0x83, 0x02]⟩, 5)) := by
  decide +kernel

/-- `Good` spelled out as the property reads -/
theorem good_reads {F : Type} {scanf : Bytes → Res (Option (F × Loc))} {f : Bytes} {x : F}
    (g : Good scanf f x) :
    (∀ p, p ≠ [] → p <+: f → p.length < f.length → scanf p = .ok none) ∧
    scanf f = .ok (some (x, ⟨0, f.length⟩)) ∧
    (∀ rest, scanf (f ++ rest) = scanf f) :=
  ⟨g.pre, g.exact, g.stable⟩

/-! ### the four scanners -/

/-- TCP requests -/
theorem tcp_req_good (tid : UInt16) (uid : UInt8) (pdu : Bytes)
    (hc : Spec.PduComplete .req pdu) (hn : pdu.length + 1 < 65536) :
    Good Tcp.decodeReq (Spec.tcpFrame tid uid pdu) ⟨tid, uid, pdu⟩ :=
  Reception.tcp_req_good tid uid pdu hc hn

/-- TCP responses -/
theorem tcp_rsp_good (tid : UInt16) (uid : UInt8) (pdu : Bytes)
    (hc : Spec.PduComplete .rsp pdu) (hn : pdu.length + 1 < 65536) :
    Good Tcp.decodeRsp (Spec.tcpFrame tid uid pdu) ⟨tid, uid, pdu⟩ :=
  Reception.tcp_rsp_good tid uid pdu hc hn

/-- RTU responses -/
theorem rtu_rsp_good (slave : UInt8) (pdu : Bytes) (hc : Spec.PduComplete .rsp pdu) :
    Good Rtu.decodeRsp (Spec.rtuFrame slave pdu) ⟨slave, pdu⟩ :=
  Reception.rtu_rsp_good slave pdu hc

/-
Full statement for RTU requests — FALSE for the model of the unedited crate (open finding D4):

  theorem rtu_req_good (slave : UInt8) (pdu : Bytes) (hc : Spec.PduComplete .req pdu) :
      Good Rtu.decodeReq (Spec.rtuFrame slave pdu) ⟨slave, pdu⟩

`rtu::request_pdu_len` reads ADU offset 4 instead of 6 for function codes 0x0F and 0x10.  Missing
from the proved statement: exactly the frames whose PDU starts with 0x0F or 0x10;
`rtu_req_write_multiple_defect_witness` shows the full statement fails for one of them.
-/

/-- RTU requests, every function code of the table except 0x0F / 0x10 -/
theorem rtu_req_good_partial (slave : UInt8) (pdu : Bytes) (hc : Spec.PduComplete .req pdu)
    (hF : pdu[0]? ≠ some 0x0F) (h10 : pdu[0]? ≠ some 0x10) :
    Good Rtu.decodeReq (Spec.rtuFrame slave pdu) ⟨slave, pdu⟩ :=
  Reception.rtu_req_good_partial slave pdu hc hF h10

/-- D4: a valid write-multiple-registers request (address 1, two registers 0x000A 0x0102, correct
CRC) presented whole is answered 'incomplete' by `rtu::decode`: the predictor takes the low
quantity byte `0x00` at ADU offset 4 for the byte count. -/
theorem rtu_req_write_multiple_defect_witness :
    Spec.PduComplete .req [0x10, 0x00, 0x01, 0x00, 0x02, 0x04, 0x00, 0x0A, 0x01, 0x02] ∧
    Spec.rtuFrame 0x11 [0x10, 0x00, 0x01, 0x00, 0x02, 0x04, 0x00, 0x0A, 0x01, 0x02] =
      [0x11, 0x10, 0x00, 0x01, 0x00, 0x02, 0x04, 0x00, 0x0A, 0x01, 0x02, 0xC6, 0xF0] ∧
    Rtu.decodeReq [0x11, 0x10, 0x00, 0x01, 0x00, 0x02, 0x04, 0x00, 0x0A, 0x01, 0x02, 0xC6, 0xF0] = .ok none ∧
    Rtu.decodeReq [0x11, 0x10, 0x00, 0x01, 0x00, 0x02, 0x04, 0x00, 0x0A, 0x01, 0x02, 0xC6, 0xF0] ≠
      .ok (some (⟨0x11, [0x10, 0x00, 0x01, 0x00, 0x02, 0x04, 0x00, 0x0A, 0x01, 0x02]⟩, ⟨0, 13⟩)) := by
  unfold Spec.PduComplete
  decide +kernel

/-- so the full RTU-request statement is refuted for the model of the unedited crate -/
theorem rtu_req_good_fails :
    ¬ ∀ (slave : UInt8) (pdu : Bytes), Spec.PduComplete .req pdu →
        Good Rtu.decodeReq (Spec.rtuFrame slave pdu) ⟨slave, pdu⟩ := by
  intro h
  obtain ⟨hc, hf, hd, _⟩ := rtu_req_write_multiple_defect_witness
  have g := (h 0x11 _ hc).exact
  rw [hf, hd] at g
  cases g

/-! the hypotheses are satisfiable: fixed-length, one-byte-count, two-byte-count and exception PDUs -/
example : Spec.PduComplete .req [0x01, 0x00, 0x01, 0x00, 0x02] := by unfold Spec.PduComplete; decide
example : Spec.PduComplete .req [0x10, 0x00, 0x01, 0x00, 0x02, 0x04, 0x00, 0x0A, 0x01, 0x02] := by
  unfold Spec.PduComplete; decide
example : Spec.PduComplete .req [0x17, 0, 1, 0, 1, 0, 2, 0, 1, 2, 0xAB, 0xCD] := by
  unfold Spec.PduComplete; decide
example : Spec.PduComplete .rsp [0x03, 0x04, 0x00, 0x01, 0x00, 0x02] := by unfold Spec.PduComplete; decide
example : Spec.PduComplete .rsp [0x18, 0x00, 0x02, 0xAA, 0xBB] := by unfold Spec.PduComplete; decide
example : Spec.PduComplete .rsp [0x83, 0x02] := by unfold Spec.PduComplete; decide
example : Good Tcp.decodeReq (Spec.tcpFrame 7 1 [0x10, 0x00, 0x01, 0x00, 0x02, 0x04, 0x00, 0x0A, 0x01, 0x02])
    ⟨7, 1, [0x10, 0x00, 0x01, 0x00, 0x02, 0x04, 0x00, 0x0A, 0x01, 0x02]⟩ :=
  tcp_req_good _ _ _ (by unfold Spec.PduComplete; decide) (by decide)
example : Good Tcp.decodeRsp (Spec.tcpFrame 7 1 [0x18, 0x00, 0x02, 0xAA, 0xBB]) ⟨7, 1, [0x18, 0x00, 0x02, 0xAA, 0xBB]⟩ :=
  tcp_rsp_good _ _ _ (by unfold Spec.PduComplete; decide) (by decide)
example : Good Rtu.decodeRsp (Spec.rtuFrame 9 [0x83, 0x02]) ⟨9, [0x83, 0x02]⟩ :=
  rtu_rsp_good _ _ (by unfold Spec.PduComplete; decide)
example : Good Rtu.decodeReq (Spec.rtuFrame 9 [0x17, 0, 1, 0, 1, 0, 2, 0, 1, 2, 0xAB, 0xCD])
    ⟨9, [0x17, 0, 1, 0, 1, 0, 2, 0, 1, 2, 0xAB, 0xCD]⟩ :=
  rtu_req_good_partial _ _ (by unfold Spec.PduComplete; decide) (by decide) (by decide)

/-! ### stated over `WellFormed` frames -/

theorem tcp_req_wellformed (f : Bytes) (h : Spec.WellFormedTcp .req f) : ∃ x, Good Tcp.decodeReq f x := by
  obtain ⟨tid, uid, pdu, hc, hn, rfl⟩ := h
  exact ⟨_, tcp_req_good tid uid pdu hc hn⟩

theorem tcp_rsp_wellformed (f : Bytes) (h : Spec.WellFormedTcp .rsp f) : ∃ x, Good Tcp.decodeRsp f x := by
  obtain ⟨tid, uid, pdu, hc, hn, rfl⟩ := h
  exact ⟨_, tcp_rsp_good tid uid pdu hc hn⟩

theorem rtu_rsp_wellformed (f : Bytes) (h : Spec.WellFormedRtu .rsp f) : ∃ x, Good Rtu.decodeRsp f x := by
  obtain ⟨slave, pdu, hc, rfl⟩ := h
  exact ⟨_, rtu_rsp_good slave pdu hc⟩

/-- RTU requests whose function code (the frame's second byte) is not 0x0F / 0x10 -/
theorem rtu_req_wellformed_partial (f : Bytes) (h : Spec.WellFormedRtu .req f)
    (hF : f[1]? ≠ some 0x0F) (h10 : f[1]? ≠ some 0x10) : ∃ x, Good Rtu.decodeReq f x := by
  obtain ⟨slave, pdu, hc, rfl⟩ := h
  have hb := pduComplete_bounds hc
  have e : (Spec.rtuFrame slave pdu)[1]? = pdu[0]? := by
    unfold Spec.rtuFrame
    rw [List.cons_append, List.getElem?_cons_succ]
    exact List.getElem?_append_left (by omega)
  rw [e] at hF h10
  exact ⟨_, rtu_req_good_partial slave pdu hc hF h10⟩

example : Spec.WellFormedTcp .req (Spec.tcpFrame 7 1 [0x01, 0x00, 0x01, 0x00, 0x02]) :=
  ⟨7, 1, _, by unfold Spec.PduComplete; decide, by decide, rfl⟩
example : Spec.WellFormedTcp .rsp (Spec.tcpFrame 7 1 [0x18, 0x00, 0x02, 0xAA, 0xBB]) :=
  ⟨7, 1, _, by unfold Spec.PduComplete; decide, by decide, rfl⟩
example : Spec.WellFormedRtu .rsp [0x01, 0x83, 0x02, 0xC0, 0xF1] :=
  ⟨0x01, [0x83, 0x02], by unfold Spec.PduComplete; decide, by decide +kernel⟩
example : Spec.WellFormedRtu .req [0x11, 0x03, 0x00, 0x6B, 0x00, 0x03, 0x76, 0x87] :=
  ⟨0x11, [0x03, 0x00, 0x6B, 0x00, 0x03], by unfold Spec.PduComplete; decide, by decide +kernel⟩

/-! ### the ADU decoders

On every strict non-empty prefix: `ok none`.  On the frame followed by anything: what the PDU
decoder says about the frame's PDU (a value, or its error — the same in both cases), hence the
same answer with and without a suffix. -/

/-- `tcp::server::decode_request` -/
theorem tcp_decode_request (tid : UInt16) (uid : UInt8) (pdu : Bytes)
    (hc : Spec.PduComplete .req pdu) (hn : pdu.length + 1 < 65536) :
    (∀ p, p ≠ [] → p <+: Spec.tcpFrame tid uid pdu → p.length < (Spec.tcpFrame tid uid pdu).length →
      Tcp.decodeRequest p = .ok none) ∧
    (∀ rest, Tcp.decodeRequest (Spec.tcpFrame tid uid pdu ++ rest) =
      (Request.decode pdu).map fun r => some (tid, uid, r)) ∧
    (∀ rest, Tcp.decodeRequest (Spec.tcpFrame tid uid pdu ++ rest) =
      Tcp.decodeRequest (Spec.tcpFrame tid uid pdu)) := by
  have g := tcp_req_good tid uid pdu hc hn
  refine ⟨tcp_decodeRequest_prefix g, tcp_decodeRequest_whole g, fun rest => ?_⟩
  have h0 := tcp_decodeRequest_whole g []
  rw [List.append_nil] at h0
  rw [tcp_decodeRequest_whole g rest, h0]

/-- `tcp::server::decode_response` -/
theorem tcp_decode_response (tid : UInt16) (uid : UInt8) (pdu : Bytes)
    (hc : Spec.PduComplete .rsp pdu) (hn : pdu.length + 1 < 65536) :
    (∀ p, p ≠ [] → p <+: Spec.tcpFrame tid uid pdu → p.length < (Spec.tcpFrame tid uid pdu).length →
      Tcp.decodeResponse p = .ok none) ∧
    (∀ rest, Tcp.decodeResponse (Spec.tcpFrame tid uid pdu ++ rest) =
      (decodeRspPdu pdu).map fun r => some (tid, uid, r)) ∧
    (∀ rest, Tcp.decodeResponse (Spec.tcpFrame tid uid pdu ++ rest) =
      Tcp.decodeResponse (Spec.tcpFrame tid uid pdu)) := by
  have g := tcp_rsp_good tid uid pdu hc hn
  refine ⟨tcp_decodeResponse_prefix g, tcp_decodeResponse_whole g, fun rest => ?_⟩
  have h0 := tcp_decodeResponse_whole g []
  rw [List.append_nil] at h0
  rw [tcp_decodeResponse_whole g rest, h0]

/-- `rtu::client::decode_response` -/
theorem rtu_client_decode_response (slave : UInt8) (pdu : Bytes) (hc : Spec.PduComplete .rsp pdu) :
    (∀ p, p ≠ [] → p <+: Spec.rtuFrame slave pdu → p.length < (Spec.rtuFrame slave pdu).length →
      Rtu.clientDecodeResponse p = .ok none) ∧
    (∀ rest, Rtu.clientDecodeResponse (Spec.rtuFrame slave pdu ++ rest) =
      (decodeRspPdu pdu).map fun r => some (slave, r)) ∧
    (∀ rest, Rtu.clientDecodeResponse (Spec.rtuFrame slave pdu ++ rest) =
      Rtu.clientDecodeResponse (Spec.rtuFrame slave pdu)) := by
  have g := rtu_rsp_good slave pdu hc
  refine ⟨rtu_clientDecodeResponse_prefix g, rtu_clientDecodeResponse_whole g, fun rest => ?_⟩
  have h0 := rtu_clientDecodeResponse_whole g []
  rw [List.append_nil] at h0
  rw [rtu_clientDecodeResponse_whole g rest, h0]

/-
Full statement: the same without `hF`, `h10` — false for the unedited crate (D4): on the witness
frame above `rtu::server::decode_request` answers `ok none`.
-/
/-- `rtu::server::decode_request`, every function code of the table except 0x0F / 0x10 -/
theorem rtu_server_decode_request_partial (slave : UInt8) (pdu : Bytes) (hc : Spec.PduComplete .req pdu)
    (hF : pdu[0]? ≠ some 0x0F) (h10 : pdu[0]? ≠ some 0x10) :
    (∀ p, p ≠ [] → p <+: Spec.rtuFrame slave pdu → p.length < (Spec.rtuFrame slave pdu).length →
      Rtu.serverDecodeRequest p = .ok none) ∧
    (∀ rest, Rtu.serverDecodeRequest (Spec.rtuFrame slave pdu ++ rest) =
      (Request.decode pdu).map fun r => some (slave, r)) ∧
    (∀ rest, Rtu.serverDecodeRequest (Spec.rtuFrame slave pdu ++ rest) =
      Rtu.serverDecodeRequest (Spec.rtuFrame slave pdu)) := by
  have g := rtu_req_good_partial slave pdu hc hF h10
  refine ⟨rtu_serverDecodeRequest_prefix g, rtu_serverDecodeRequest_whole g, fun rest => ?_⟩
  have h0 := rtu_serverDecodeRequest_whole g []
  rw [List.append_nil] at h0
  rw [rtu_serverDecodeRequest_whole g rest, h0]

/-- D4 at the ADU decoder: the valid frame of the witness is answered 'incomplete' -/
theorem rtu_server_decode_request_defect_witness :
    Rtu.serverDecodeRequest [0x11, 0x10, 0x00, 0x01, 0x00, 0x02, 0x04, 0x00, 0x0A, 0x01, 0x02, 0xC6, 0xF0] = .ok none ∧
    (Request.decode [0x10, 0x00, 0x01, 0x00, 0x02, 0x04, 0x00, 0x0A, 0x01, 0x02]).isOk = true := by
  decide +kernel

/-! the values: a PDU that decodes, an exception, and a PDU the decoder rejects -/
example : Request.decode [0x01, 0x00, 0x01, 0x00, 0x02] = .ok (.readCoils 1 2) := by decide +kernel
example : ∀ rest, Tcp.decodeRequest (Spec.tcpFrame 7 1 [0x01, 0x00, 0x01, 0x00, 0x02] ++ rest) =
    .ok (some (7, 1, .readCoils 1 2)) := fun rest => by
  rw [(tcp_decode_request 7 1 _ (by unfold Spec.PduComplete; decide) (by decide)).2.1 rest]
  decide +kernel
example : ∀ rest, Rtu.clientDecodeResponse (Spec.rtuFrame 9 [0x83, 0x02] ++ rest) =
    .ok (some (9, .error ⟨.readHoldingRegisters, .illegalDataAddress⟩)) := fun rest => by
  rw [(rtu_client_decode_response 9 _ (by unfold Spec.PduComplete; decide)).2.1 rest]
  decide +kernel
example : ∀ rest, Rtu.serverDecodeRequest (Spec.rtuFrame 9 [0x05, 0x00, 0x01, 0x12, 0x34] ++ rest) =
    .err (.coilValue 0x1234) := fun rest => by
  rw [(rtu_server_decode_request_partial 9 _ (by unfold Spec.PduComplete; decide) (by decide) (by decide)).2.1 rest]
  decide +kernel

end Modbus.C10

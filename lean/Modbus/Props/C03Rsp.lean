import Modbus.Lemmas.RspCodec
import Modbus.Lemmas.Wf
/-
C03 (response half) — the wire format of responses and exception responses conforms to the Modbus
Application Protocol v1.1b3, judged against the independent `Spec/Wire.lean` (not against the
crate's own decoder), and conversely every spec-conformant response PDU is decoded to the meaning
the specification assigns it.

Quantification: every response built through the public constructors (`BuiltRsp`: payloads from
`Coils::from_bools` / `Data::from_words` over ANY target slice, every field value, custom responses
with any `FunctionCode`), every payload length whose byte count fits the one-byte count field
(`m.fits`: 1..=2040 coils, 1..=127 words — the complement is C19), every output buffer.

KNOWN DEFECT (open finding D12, pinned by the crate's own unit tests): `Response::WriteSingleCoil`
is encoded as THREE bytes `05 aa aa`; the specification's response is the FIVE-byte echo
`05 aa aa FF 00` / `05 aa aa 00 00`.  Hence the encode-side theorem is `…_partial`, excluding exactly
that kind; `rsp_write_single_coil_defect` shows that NO address conforms.
-/
namespace Modbus.C03Rsp

/-! ### encode side -/

/- FULL STATEMENT (false for the crate as it stands, because of D12):
     theorem rsp_conforms (hb : BuiltRsp r m) (hf : m.fits) : r.Encodable ∧ r.image = Spec.rspBytes m
   What is proved is this statement for every kind except `writeSingleCoil`; for `writeSingleCoil` its
   negation is proved (`rsp_write_single_coil_defect`).  Nothing else is missing. -/

/-- every built response within the count-field range, except Write Single Coil, is accepted by the
    encoder and its wire image is exactly the specification's PDU of its meaning -/
theorem rsp_conforms_partial {r : Response} {m : Spec.RspMeaning} (hb : BuiltRsp r m) (hf : m.fits)
    (hn : ∀ a, m ≠ .writeSingleCoil a) : r.Encodable ∧ r.image = Spec.rspBytes m :=
  ⟨hb.encodable_iff.mpr hf, hb.image_eq hn⟩

/-- … and so the encoder's whole outcome, for every output buffer (any length, any contents), is
    the specification's PDU followed by the untouched rest of the buffer, or `BufferSize` exactly
    when the buffer is shorter than the PDU -/
theorem rsp_encode_conforms_partial {r : Response} {m : Spec.RspMeaning} (hb : BuiltRsp r m) (hf : m.fits)
    (hn : ∀ a, m ≠ .writeSingleCoil a) (buf : Bytes) :
    r.encode buf =
      if buf.length < (Spec.rspBytes m).length then .err .bufferSize
      else .ok ((Spec.rspBytes m).length, Spec.rspBytes m ++ buf.drop (Spec.rspBytes m).length) := by
  obtain ⟨he, hi⟩ := rsp_conforms_partial hb hf hn
  rw [Response.encode_eq r buf he, hi]

/-- the same through `ResponsePdu::encode` -/
theorem rsp_pdu_encode_conforms_partial {r : Response} {m : Spec.RspMeaning} (hb : BuiltRsp r m) (hf : m.fits)
    (hn : ∀ a, m ≠ .writeSingleCoil a) (buf : Bytes) :
    ResponsePdu.encode (.ok r) buf =
      if buf.length < (Spec.rspBytes m).length then .err .bufferSize
      else .ok ((Spec.rspBytes m).length, Spec.rspBytes m ++ buf.drop (Spec.rspBytes m).length) := by
  obtain ⟨he, hi⟩ := rsp_conforms_partial hb hf hn
  have := ResponsePdu.encode_eq (.ok r) buf ⟨he, hb.image_pos⟩
  simpa only [ResponsePdu.image, hi] using this

/-- **every well-formed response conforms** (Write Single Coil excepted, open finding D12) — no `BuiltRsp`,
    no hypothesis on the raw padding bits of a coil container: `r.Wf` (the payload container, wherever it
    came from, holds the bytes its count promises), `r.Implemented` (a kind `encode` implements,
    `ReadExceptionStatus` included), `r.CountFits`.  With `m` the meaning of `r`: encodable, the wire image is
    the specification's PDU of `m` (padding bits of the last coil byte zero), and the encoder writes exactly
    that into every large-enough buffer. -/
theorem rsp_conforms_any_partial (r : Response) (hw : r.Wf) (hi : r.Implemented) (hf : r.CountFits)
    (m : Spec.RspMeaning) (hm : r.sem = some m) (hn : ∀ a, m ≠ .writeSingleCoil a) :
    r.Encodable ∧ r.image = Spec.rspBytes m ∧
    ∀ buf : Bytes, (Spec.rspBytes m).length ≤ buf.length →
      r.encode buf = .ok ((Spec.rspBytes m).length, Spec.rspBytes m ++ buf.drop (Spec.rspBytes m).length) := by
  have hm' : r.meaning = some m := by rw [← hw.sem_eq]; exact hm
  have himg := hw.image_eq_spec hm' hn
  refine ⟨(hw.encodable_iff hi).mpr hf, himg, fun buf hl => ?_⟩
  rw [hw.encode_eq hi buf, if_pos hf, himg, if_neg (by omega)]

/-- non-vacuity: the coil container decoded from the REQUEST `0F 00 01 00 03 01 FF` (three coils, raw byte
    `FF`), placed in a Read Coils response: `01 01 07` on the wire -/
example : (Response.readCoils ⟨[0xFF], 3⟩).Wf ∧ (Response.readCoils ⟨[0xFF], 3⟩).Implemented ∧
    (Response.readCoils ⟨[0xFF], 3⟩).CountFits ∧
    (Response.readCoils ⟨[0xFF], 3⟩).sem = some (.readCoils [true, true, true]) ∧
    Spec.rspBytes (.readCoils [true, true, true]) = [0x01, 0x01, 0x07] ∧
    (Response.readCoils ⟨[0xFF], 3⟩).encode [0, 0, 0, 0x55] = .ok (3, [0x01, 0x01, 0x07, 0x55]) := by
  refine ⟨by decide +kernel, trivial, by decide +kernel, by decide +kernel, by decide +kernel, by decide +kernel⟩

/-- D12: the crate's Write Single Coil response is not the specification's (by evaluation) -/
theorem rsp_write_single_coil_defect_witness :
    (Response.writeSingleCoil 0x33).image ≠ Spec.rspBytes (.writeSingleCoil 0x33) := by decide

/-- D12 for every address: the crate's form is the specification's PDU cut after three bytes, so it
    never conforms -/
theorem rsp_write_single_coil_defect (a : UInt16) :
    (Response.writeSingleCoil a).image = (Spec.rspBytes (.writeSingleCoil a)).take 3 ∧
    (Response.writeSingleCoil a).image ≠ Spec.rspBytes (.writeSingleCoil a) := by
  refine ⟨rfl, ?_⟩
  intro h
  have := congrArg List.length h
  simp [Response.image, Spec.rspBytes, Spec.word] at this

/-- the crate's encoder really emits that three-byte form (every address, every buffer ≥ 3 bytes) -/
theorem rsp_write_single_coil_encode (a : UInt16) (buf : Bytes) (h : 3 ≤ buf.length) :
    (Response.writeSingleCoil a).encode buf = .ok (3, [0x05, Spec.hi a, Spec.lo a] ++ buf.drop 3) := by
  have he : (Response.writeSingleCoil a).Encodable := trivial
  have hl : (Response.writeSingleCoil a).image.length = 3 := rfl
  rw [Response.encode_eq _ buf he, hl, if_neg (by omega)]
  rfl

/-- exception responses: function code (below 0x80, built either way) with the top bit set, then the
    exception's code — exactly §7 of the specification -/
theorem exc_conforms (f : UInt8) (k : Exception) :
    (ExceptionResponse.mk (FunctionCode.new f) k).image = Spec.excBytes f k.val ∧
    (ExceptionResponse.mk (.custom f) k).image = Spec.excBytes f k.val := by
  constructor
  · simp only [ExceptionResponse.image, Spec.excBytes, C18.value_new]
  · rfl

/-- the encoder's whole outcome for an exception response whose function code is below 0x80 -/
theorem exc_encode_conforms (f : UInt8) (hf : f < 0x80) (k : Exception) (buf : Bytes) :
    (ExceptionResponse.mk (FunctionCode.new f) k).encode buf =
      (if buf.length < 2 then .err .bufferSize else .ok (2, Spec.excBytes f k.val ++ buf.drop 2)) ∧
    (ExceptionResponse.mk (.custom f) k).encode buf =
      (if buf.length < 2 then .err .bufferSize else .ok (2, Spec.excBytes f k.val ++ buf.drop 2)) := by
  constructor
  · rw [ExceptionResponse.encode_eq _ buf (by simpa [C18.value_new] using hf), (exc_conforms f k).1]
  · rw [ExceptionResponse.encode_eq _ buf (by simpa [FunctionCode.value] using hf), (exc_conforms f k).2]

/-- every exception the crate can send carries one of the nine codes the specification defines -/
theorem exc_code_defined (k : Exception) : k.val ∈ Spec.excCodes := Rsp.exception_val_mem k

/-- … and all nine are reachable -/
theorem exc_code_complete (code : UInt8) (h : code ∈ Spec.excCodes) : ∃ k : Exception, k.val = code :=
  Rsp.exception_of_code code h

/-! ### decode side (converse) -/

/-- every spec-conformant response PDU within the count-field range is decoded to the meaning the
    specification assigns it: registers and fixed fields exactly; coil reads with the count rounded up
    to a whole byte and the padding coils off (the PDU carries a byte count, not a coil count);
    Read Exception Status `07 s` to `ReadExceptionStatus(s)`;
    custom responses with any code byte that is not one of the ten modelled kinds (including
    bytes ≥ 0x80), same code byte and data.  Includes the specification's five-byte Write Single Coil
    response. -/
theorem rsp_decodes_spec (m : Spec.RspMeaning) (hf : m.fits) (hs : InScopeRsp m) :
    ∃ r', Response.decode (Spec.rspBytes m) = .ok r' ∧ r'.sem = some m.padded :=
  Response.decode_spec m hf hs

/-- the decoder accepts the specification's five-byte Write Single Coil response and returns the address -/
theorem rsp_decodes_spec_write_single_coil (a : UInt16) :
    Response.decode (Spec.rspBytes (.writeSingleCoil a)) = .ok (.writeSingleCoil a) :=
  Response.decode_spec_writeSingleCoil a

/-- the specification's echo of a Write Single Coil **OFF** request, `05 hi lo 00 00` (which
    `Spec.rspBytes`, carrying no coil value, does not produce): accepted for every address, decoded to
    `WriteSingleCoil(a)` -/
theorem rsp_decodes_wsc_off_echo (a : UInt16) :
    Response.decode [0x05, Spec.hi a, Spec.lo a, 0x00, 0x00] = .ok (.writeSingleCoil a) := by
  rw [Response.decode_writeSingleCoil, Rsp.rd16_hi_lo]

/-- … and the **ON** echo `05 hi lo FF 00`, spelled out byte by byte -/
theorem rsp_decodes_wsc_on_echo (a : UInt16) :
    Response.decode [0x05, Spec.hi a, Spec.lo a, 0xFF, 0x00] = .ok (.writeSingleCoil a) := by
  rw [Response.decode_writeSingleCoil, Rsp.rd16_hi_lo]

/-- both echoes are the echo of the corresponding REQUEST bytes (`Spec.reqBytes`), for every address
    and both coil states: the response decoder accepts the request's own PDU -/
theorem rsp_decodes_wsc_request_echo (a : UInt16) (on : Bool) :
    Response.decode (Spec.reqBytes (.writeSingleCoil a on)) = .ok (.writeSingleCoil a) := by
  cases on
  · exact rsp_decodes_wsc_off_echo a
  · exact rsp_decodes_wsc_on_echo a

/-- the decoder does not look at the echoed value at all: any two value bytes (and any further bytes) -/
theorem rsp_decodes_wsc_any_value (a : UInt16) (rest : Bytes) :
    Response.decode (0x05 :: Spec.hi a :: Spec.lo a :: rest) = .ok (.writeSingleCoil a) := by
  rw [Response.decode_writeSingleCoil, Rsp.rd16_hi_lo]

example : Response.decode [0x05, 0x12, 0x34, 0x00, 0x00] = .ok (.writeSingleCoil 0x1234) := by decide +kernel
example : Response.decode [0x05, 0x12, 0x34, 0xFF, 0x00] = .ok (.writeSingleCoil 0x1234) := by decide +kernel

/-- … and the crate's own three-byte form -/
theorem rsp_decodes_own_write_single_coil (a : UInt16) :
    Response.decode (Response.writeSingleCoil a).image = .ok (.writeSingleCoil a) :=
  Response.decode_image_writeSingleCoil a

/-- the coil clause of `rsp_decodes_spec` in explicit form: the decoded container iterates to
    `8 * ⌈n/8⌉` coils, the first `n` are the coils sent, the rest are off -/
theorem rsp_decodes_spec_coils (bs : List Bool) (h : (bs.length + 7) / 8 ≤ 255) :
    ∃ c l, Response.decode (Spec.rspBytes (.readCoils bs)) = .ok (.readCoils c) ∧
      Response.decode (Spec.rspBytes (.readDiscreteInputs bs)) = .ok (.readDiscreteInputs c) ∧
      c.len = 8 * ((bs.length + 7) / 8) ∧ c.iter = .ok l ∧ l.length = 8 * ((bs.length + 7) / 8) ∧
      l.take bs.length = bs ∧ l.drop bs.length = List.replicate (8 * ((bs.length + 7) / 8) - bs.length) false :=
  ⟨_, padTo8 bs, Response.decode_spec_readCoils bs h, Response.decode_spec_readDiscreteInputs bs h,
    by simp [Coils.len, Nat.mul_comm], Coils.iter_packBits_padded bs, padTo8_length bs, padTo8_take bs, padTo8_drop bs⟩

/-- every spec-conformant exception PDU (function below 0x80, one of the nine codes) is decoded to
    that function and that exception -/
theorem exc_decodes_spec (f code : UInt8) (hf : f < 0x80) (hc : code ∈ Spec.excCodes) :
    ∃ k, ExceptionResponse.decode (Spec.excBytes f code) = .ok ⟨FunctionCode.new f, k⟩ ∧ k.val = code := by
  obtain ⟨k, rfl⟩ := Rsp.exception_of_code code hc
  exact ⟨k, ExceptionResponse.decode_spec f hf k [], rfl⟩

/-- conversely the exception decoder accepts nothing else: whatever it accepts begins with a
    spec-conformant exception PDU of the function and exception it returns -/
theorem exc_decodes_only_spec (b : Bytes) (e : ExceptionResponse) (h : ExceptionResponse.decode b = .ok e) :
    e.function.value < 0x80 ∧ e.exception.val ∈ Spec.excCodes ∧
    b.take 2 = Spec.excBytes e.function.value e.exception.val := by
  match b, h with
  | [], h => simp [ExceptionResponse.decode] at h
  | [_], h => simp [ExceptionResponse.decode] at h
  | c :: code :: rest, h =>
    rw [ExceptionResponse.decode_cons] at h
    split at h
    · simp at h
    · rename_i hc
      cases ht : Exception.tryFrom code with
      | ok k =>
        rw [ht] at h
        simp only [Res.bind'_ok, Res.ok.injEq] at h
        subst h
        obtain ⟨h1, h2⟩ := Rsp.exc_unmarker c hc
        have hk := ((C18.exception_table code).1 k ht).1
        simp only [C18.value_new, Spec.excBytes, h1, h2, hk, true_and]
        exact ⟨hk ▸ Rsp.exception_val_mem k, by simp⟩
      | err e' => rw [ht] at h; simp at h
      | panic => rw [ht] at h; simp at h

/-! ### non-vacuity: concrete instances of the hypotheses -/

/-- nine coils built over a dirty target with excess capacity: the PDU is the specification's -/
example : ∃ c, Coils.fromBools [true, false, true, true, false, false, true, true, true] [0xFF, 0xFF, 0xAA] = .ok c ∧
    BuiltRsp (.readCoils c) (.readCoils [true, false, true, true, false, false, true, true, true]) ∧
    (Response.readCoils c).encode (List.replicate 5 0x55) = .ok (4, [0x01, 0x02, 0xCD, 0x01, 0x55]) ∧
    Spec.rspBytes (.readCoils [true, false, true, true, false, false, true, true, true]) = [0x01, 0x02, 0xCD, 0x01] :=
  ⟨⟨[0xCD, 0x01], 9⟩, by decide +kernel, .readCoils (t := [0xFF, 0xFF, 0xAA]) (by decide +kernel),
    by decide +kernel, by decide +kernel⟩

example : (Spec.RspMeaning.readCoils [true, false, true, true, false, false, true, true, true]).fits := by
  simp [Spec.RspMeaning.fits]

example : ∃ d, Data.fromWords [0x1234, 0xABCD] [9, 9, 9, 9, 0xEE, 0xEE] = .ok d ∧
    (Response.readHoldingRegisters d).encode (List.replicate 7 0x55) =
      .ok (6, [0x03, 0x04, 0x12, 0x34, 0xAB, 0xCD, 0x55]) :=
  ⟨⟨[0x12, 0x34, 0xAB, 0xCD], 2⟩, by decide +kernel, by decide +kernel⟩

example : InScopeRsp (.custom 0x2B [1, 2, 3]) := by show (0x2B : UInt8) ∉ modelledRspCodes; decide
example : InScopeRsp (.custom 0x91 []) := by show (0x91 : UInt8) ∉ modelledRspCodes; decide
example : Response.decode (Spec.rspBytes (.custom 0x91 [7])) = .ok (.custom (.custom 0x91) [7]) := by decide +kernel

/-- a custom response carrying a modelled code is out of scope: its bytes ARE a dedicated kind -/
example : Response.decode (Spec.rspBytes (.custom 0x06 [0, 1, 0, 2])) = .ok (.writeSingleRegister 1 2) := by
  decide +kernel

example : Response.decode (Spec.rspBytes (.readCoils [true, false, true, true, false])) =
    .ok (.readCoils ⟨[0x0D], 8⟩) := by decide +kernel

/-- Read Exception Status conforms on both sides: `07 s` out, `ReadExceptionStatus(s)` back -/
example : BuiltRsp (.readExceptionStatus 0x5A) (.readExceptionStatus 0x5A) ∧
    (Spec.RspMeaning.readExceptionStatus 0x5A).fits ∧ InScopeRsp (.readExceptionStatus 0x5A) ∧
    (Response.readExceptionStatus 0x5A).image = Spec.rspBytes (.readExceptionStatus 0x5A) ∧
    Response.decode (Spec.rspBytes (.readExceptionStatus 0x5A)) = .ok (.readExceptionStatus 0x5A) :=
  ⟨.readExceptionStatus _, trivial, trivial, rfl, by decide +kernel⟩

/-- … and a custom response carrying 0x07 is out of scope (decoded as the dedicated kind) -/
example : Response.decode (Spec.rspBytes (.custom 0x07 [0x5A])) = .ok (.readExceptionStatus 0x5A) := by
  decide +kernel

example : Spec.excBytes 0x03 (Exception.illegalDataAddress).val = [0x83, 0x02] := by decide
example : ExceptionResponse.decode [0x83, 0x02] = .ok ⟨.readHoldingRegisters, .illegalDataAddress⟩ := by decide +kernel
example : ExceptionResponse.decode [0x83, 0x07] = .err (.exceptionCode 0x07) := by decide +kernel
example : ExceptionResponse.decode [0x03, 0x02] = .err (.exceptionFnCode 0x03) := by decide +kernel

end Modbus.C03Rsp

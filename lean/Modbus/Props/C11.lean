import Modbus.Props.C10
/-
C11 — stream reassembly is independent of how the bytes are chunked.

`Receiver.recv scanf` (Model/Receiver.lean) is the caller of the property: append the arriving
piece to the buffer, then repeatedly scan and remove `start + size` bytes for every frame reported.
For a stream of frames each of which is `Good` for the scanner (C10), *every* list of chunks whose
concatenation is the stream — empty chunks allowed, any number of frames, all `2^(n-1)` cuts of an
`n`-byte stream — leaves the receiver with exactly the original frames, in order, an empty buffer
and no fault.  Generic in the scanner; instantiated for the four real scanners.
-/
namespace Modbus.C11

open Receiver Reception

variable {F : Type}

/-- peel complete frames off a received prefix of the stream: (frames wholly received, remainder) -/
def peel : List (Bytes × F) → Bytes → List F × Bytes
  | [], b => ([], b)
  | (f, x) :: fs, b =>
      if f.length ≤ b.length then
        let (xs, r) := peel fs (b.drop f.length)
        (x :: xs, r)
      else ([], b)

/-- the byte stream of back-to-back frames -/
def stream (fs : List (Bytes × F)) : Bytes := (fs.map (·.1)).flatten

theorem prefix_cases (f s b : Bytes) (h : b <+: f ++ s) :
    (f.length ≤ b.length ∧ ∃ b', b = f ++ b' ∧ b' <+: s) ∨ (b.length < f.length ∧ b <+: f) := by
  have hf : f <+: f ++ s := List.prefix_append f s
  by_cases hl : f.length ≤ b.length
  · left
    refine ⟨hl, ?_⟩
    obtain ⟨b', rfl⟩ := List.prefix_of_prefix_length_le hf h hl
    exact ⟨b', rfl, (List.prefix_append_right_inj f).mp h⟩
  · right
    exact ⟨by omega, List.prefix_of_prefix_length_le h hf (by omega)⟩

section Generic
variable (scanf : Bytes → Res (Option (F × Loc)))

/-- on any received prefix of the stream, `drain` delivers exactly the frames wholly inside it and
keeps the remainder (a strict prefix of the next frame); no fault -/
theorem drain_spec (fs : List (Bytes × F)) (hg : ∀ p ∈ fs, Good scanf p.1 p.2) :
    ∀ (b : Bytes) (out : List F), b <+: stream fs →
      drain scanf b out = ((peel fs b).2, out ++ (peel fs b).1, false) := by
  induction fs with
  | nil =>
    intro b out hb
    have : b = [] := by simpa [stream] using hb
    subst this
    rw [drain]; simp [peel]
  | cons fx fs ih =>
    obtain ⟨f, x⟩ := fx
    intro b out hb
    have hgood : Good scanf f x := hg (f, x) (by simp)
    have hfne : f ≠ [] := by
      intro h; have := hgood.pos; simp [h] at this
    have hb' : b <+: f ++ stream fs := by simpa [stream] using hb
    rcases prefix_cases f (stream fs) b hb' with ⟨hl, b', rfl, hb''⟩ | ⟨hl, hpre⟩
    · -- a whole frame is at the front
      rw [drain]
      have hne : f ++ b' ≠ [] := by
        intro h; have h2 := congrArg List.length h; simp at h2; exact hfne h2.1
      simp only [hne, dite_false, hgood.whole b']
      have h0 : ¬ (0 + f.length = 0) := by have := hgood.pos; omega
      simp only [h0, dite_false]
      have hd : (f ++ b').drop (0 + f.length) = b' := by simp
      rw [hd, ih (fun p hp => hg p (by simp [hp])) b' (out ++ [x]) hb'']
      simp [peel]
    · -- only a strict prefix of the next frame
      have hnle : ¬ f.length ≤ b.length := by omega
      by_cases hbe : b = []
      · subst hbe; rw [drain]; simp [peel, hfne]
      · rw [drain]
        simp only [hbe, dite_false, hgood.pre b hbe hpre hl]
        simp [peel, hnle]

theorem peel_stream (fs : List (Bytes × F)) : peel fs (stream fs) = (fs.map (·.2), []) := by
  induction fs with
  | nil => simp [peel, stream]
  | cons fx fs ih =>
    obtain ⟨f, x⟩ := fx
    have : stream ((f, x) :: fs) = f ++ stream fs := by simp [stream]
    rw [this]
    simp [peel, ih]

/-- peeling composes: what is peeled from `P ++ c` is what is peeled from `P`, then from the rest -/
theorem peel_append (fs : List (Bytes × F)) (hpos : ∀ p ∈ fs, 1 ≤ p.1.length) :
    ∀ (P c : Bytes), P ++ c <+: stream fs →
      (peel fs P).2 ++ c <+: stream (fs.drop (peel fs P).1.length) ∧
      peel fs (P ++ c) =
        ((peel fs P).1 ++ (peel (fs.drop (peel fs P).1.length) ((peel fs P).2 ++ c)).1,
         (peel (fs.drop (peel fs P).1.length) ((peel fs P).2 ++ c)).2) := by
  induction fs with
  | nil =>
    intro P c h
    have : P ++ c = [] := by simpa [stream] using h
    have hP : P = [] := (List.append_eq_nil_iff.mp this).1
    have hc : c = [] := (List.append_eq_nil_iff.mp this).2
    subst hP; subst hc
    simp [peel, stream]
  | cons fx fs ih =>
    obtain ⟨f, x⟩ := fx
    intro P c h
    have hs : stream ((f, x) :: fs) = f ++ stream fs := by simp [stream]
    rw [hs] at h
    have hPpre : P <+: f ++ stream fs := (List.prefix_append P c).trans h
    by_cases hl : f.length ≤ P.length
    · rcases prefix_cases f (stream fs) P hPpre with ⟨_, P', rfl, _⟩ | ⟨hlt, _⟩
      · have h' : P' ++ c <+: stream fs := by
          rw [List.append_assoc] at h
          exact (List.prefix_append_right_inj f).mp h
        obtain ⟨ih1, ih2⟩ := ih (fun p hp => hpos p (by simp [hp])) P' c h'
        have hle : f.length ≤ (f ++ P').length := by simp
        have hle2 : f.length ≤ (f ++ P' ++ c).length := by simp [List.append_assoc]
        constructor
        · simpa [peel, hle] using ih1
        · have e1 : (f ++ P' ++ c).drop f.length = P' ++ c := by simp [List.append_assoc]
          simp only [peel, hle, hle2, if_true, List.drop_left', e1, ih2]
          simp
      · omega
    · have hnl : ¬ f.length ≤ P.length := hl
      simp [peel, hnl, hs, h]

/-- the invariant along the chunk list: after a received prefix `P` of the stream the receiver
holds the frames wholly inside `P` and the rest of `P` -/
theorem reassembly (fs : List (Bytes × F)) (hg : ∀ p ∈ fs, Good scanf p.1 p.2) :
    ∀ (cs : List Bytes) (P : Bytes), P ++ cs.flatten = stream fs →
      cs.foldl (recv scanf) ⟨(peel fs P).2, (peel fs P).1, false⟩ = ⟨[], fs.map (·.2), false⟩ := by
  intro cs
  induction cs with
  | nil =>
    intro P h
    have : P = stream fs := by simpa using h
    subst this
    simp [peel_stream]
  | cons c cs ih =>
    intro P h
    have h' : (P ++ c) ++ cs.flatten = stream fs := by simpa [List.append_assoc] using h
    have hpre : P ++ c <+: stream fs := ⟨cs.flatten, h'⟩
    obtain ⟨p1, p2⟩ := peel_append fs (fun p hp => (hg p hp).pos) P c hpre
    have hgd : ∀ p ∈ fs.drop (peel fs P).1.length, Good scanf p.1 p.2 :=
      fun p hp => hg p (List.mem_of_mem_drop hp)
    have hd := drain_spec scanf (fs.drop (peel fs P).1.length) hgd _ (peel fs P).1 p1
    have step : recv scanf ⟨(peel fs P).2, (peel fs P).1, false⟩ c
        = ⟨(peel fs (P ++ c)).2, (peel fs (P ++ c)).1, false⟩ := by
      simp only [recv, hd, p2, Bool.false_or]
    simp only [List.foldl_cons, step]
    exact ih (P ++ c) h'

/-- **C11**, generic in the scanner: every way of cutting the stream into pieces -/
theorem reassembly_all_chunkings (fs : List (Bytes × F)) (hg : ∀ p ∈ fs, Good scanf p.1 p.2)
    (cs : List Bytes) (h : cs.flatten = stream fs) :
    cs.foldl (recv scanf) ⟨[], [], false⟩ = ⟨[], fs.map (·.2), false⟩ := by
  have := reassembly scanf fs hg cs [] (by simpa using h)
  cases fs with
  | nil => simpa [peel] using this
  | cons fx fs =>
    have hp : 1 ≤ fx.1.length := (hg fx (by simp)).pos
    have hn : ¬ fx.1.length ≤ 0 := by omega
    simpa [peel, hn] using this

end Generic

/-! ### the four real scanners -/

/-- the wire image of a TCP frame value -/
def tcpWire (x : Tcp.Frame) : Bytes := Spec.tcpFrame x.transactionId x.unitId x.pdu
/-- the wire image of an RTU frame value -/
def rtuWire (x : Rtu.Frame) : Bytes := Spec.rtuFrame x.slave x.pdu

theorem map_pair_snd {α : Type} (g : α → Bytes) (xs : List α) :
    (xs.map fun x => (g x, x)).map (·.2) = xs := by
  simp [List.map_map, Function.comp_def]

theorem stream_pair {α : Type} (g : α → Bytes) (xs : List α) :
    stream (xs.map fun x => (g x, x)) = (xs.map g).flatten := by
  simp [stream, List.map_map, Function.comp_def]

/-- TCP request streams: any frames with complete request PDUs, cut anywhere -/
theorem tcp_req_reassembly (xs : List Tcp.Frame)
    (hx : ∀ x ∈ xs, Spec.PduComplete .req x.pdu ∧ x.pdu.length + 1 < 65536)
    (cs : List Bytes) (h : cs.flatten = (xs.map tcpWire).flatten) :
    cs.foldl (recv Tcp.decodeReq) ⟨[], [], false⟩ = ⟨[], xs, false⟩ := by
  have := reassembly_all_chunkings Tcp.decodeReq (xs.map fun x => (tcpWire x, x))
    (by
      intro p hp
      obtain ⟨x, hxm, rfl⟩ := List.mem_map.mp hp
      exact C10.tcp_req_good x.transactionId x.unitId x.pdu (hx x hxm).1 (hx x hxm).2)
    cs (by rw [stream_pair]; exact h)
  rw [map_pair_snd] at this
  exact this

/-- TCP response streams -/
theorem tcp_rsp_reassembly (xs : List Tcp.Frame)
    (hx : ∀ x ∈ xs, Spec.PduComplete .rsp x.pdu ∧ x.pdu.length + 1 < 65536)
    (cs : List Bytes) (h : cs.flatten = (xs.map tcpWire).flatten) :
    cs.foldl (recv Tcp.decodeRsp) ⟨[], [], false⟩ = ⟨[], xs, false⟩ := by
  have := reassembly_all_chunkings Tcp.decodeRsp (xs.map fun x => (tcpWire x, x))
    (by
      intro p hp
      obtain ⟨x, hxm, rfl⟩ := List.mem_map.mp hp
      exact C10.tcp_rsp_good x.transactionId x.unitId x.pdu (hx x hxm).1 (hx x hxm).2)
    cs (by rw [stream_pair]; exact h)
  rw [map_pair_snd] at this
  exact this

/-- RTU response streams -/
theorem rtu_rsp_reassembly (xs : List Rtu.Frame) (hx : ∀ x ∈ xs, Spec.PduComplete .rsp x.pdu)
    (cs : List Bytes) (h : cs.flatten = (xs.map rtuWire).flatten) :
    cs.foldl (recv Rtu.decodeRsp) ⟨[], [], false⟩ = ⟨[], xs, false⟩ := by
  have := reassembly_all_chunkings Rtu.decodeRsp (xs.map fun x => (rtuWire x, x))
    (by
      intro p hp
      obtain ⟨x, hxm, rfl⟩ := List.mem_map.mp hp
      exact C10.rtu_rsp_good x.slave x.pdu (hx x hxm))
    cs (by rw [stream_pair]; exact h)
  rw [map_pair_snd] at this
  exact this

/-
Full statement for RTU request streams: the same with only `Spec.PduComplete .req x.pdu` — false for
the model of the unedited crate (open finding D4, see `C10.rtu_req_write_multiple_defect_witness`
and `rtu_req_stream_defect_witness` below).  Missing: streams containing a frame with function
code 0x0F or 0x10.
-/
/-- RTU request streams without write-multiple (0x0F / 0x10) frames -/
theorem rtu_req_reassembly_partial (xs : List Rtu.Frame)
    (hx : ∀ x ∈ xs, Spec.PduComplete .req x.pdu ∧ x.pdu[0]? ≠ some 0x0F ∧ x.pdu[0]? ≠ some 0x10)
    (cs : List Bytes) (h : cs.flatten = (xs.map rtuWire).flatten) :
    cs.foldl (recv Rtu.decodeReq) ⟨[], [], false⟩ = ⟨[], xs, false⟩ := by
  have := reassembly_all_chunkings Rtu.decodeReq (xs.map fun x => (rtuWire x, x))
    (by
      intro p hp
      obtain ⟨x, hxm, rfl⟩ := List.mem_map.mp hp
      exact C10.rtu_req_good_partial x.slave x.pdu (hx x hxm).1 (hx x hxm).2.1 (hx x hxm).2.2)
    cs (by rw [stream_pair]; exact h)
  rw [map_pair_snd] at this
  exact this

/-- observable content of a receiver state (`St` has no decidable equality of its own) -/
def view (s : St F) : Bytes × List F × Bool := (s.buf, s.out, s.fault)

/-- D4 in a stream: a valid write-multiple-registers request delivered in one piece stays in the
buffer; the receiver reports no frame. -/
theorem rtu_req_stream_defect_witness :
    view ([[0x11, 0x10, 0x00, 0x01, 0x00, 0x02, 0x04, 0x00, 0x0A, 0x01, 0x02, 0xC6, 0xF0]].foldl
      (recv Rtu.decodeReq) ⟨[], [], false⟩) =
    ([0x11, 0x10, 0x00, 0x01, 0x00, 0x02, 0x04, 0x00, 0x0A, 0x01, 0x02, 0xC6, 0xF0], [], false) := by
  decide +kernel

/-! ### non-vacuity and a concrete run -/

/-- three RTU responses: read-holding-registers (2 words), an exception, write-single-register -/
def demoFrames : List Rtu.Frame :=
  [⟨0x01, [0x03, 0x04, 0x00, 0x0A, 0x01, 0x02]⟩, ⟨0x01, [0x83, 0x02]⟩, ⟨0x02, [0x06, 0x00, 0x01, 0x00, 0x03]⟩]

example : ∀ x ∈ demoFrames, Spec.PduComplete .rsp x.pdu := by
  unfold Spec.PduComplete; decide

example : ∀ x ∈ ([⟨1, 1, [0x01, 0x00, 0x01, 0x00, 0x02]⟩, ⟨2, 1, [0x10, 0, 1, 0, 1, 2, 0xAB, 0xCD]⟩] : List Tcp.Frame),
    Spec.PduComplete .req x.pdu ∧ x.pdu.length + 1 < 65536 := by
  unfold Spec.PduComplete; decide

example : ∀ x ∈ ([⟨1, [0x03, 0x00, 0x6B, 0x00, 0x03]⟩, ⟨2, [0x17, 0, 1, 0, 1, 0, 2, 0, 1, 2, 0xAB, 0xCD]⟩] : List Rtu.Frame),
    Spec.PduComplete .req x.pdu ∧ x.pdu[0]? ≠ some 0x0F ∧ x.pdu[0]? ≠ some 0x10 := by
  unfold Spec.PduComplete; decide

example : ∀ x ∈ ([⟨1, 1, [0x03, 0x02, 0x00, 0x07]⟩, ⟨2, 1, [0x18, 0x00, 0x02, 0xAA, 0xBB]⟩, ⟨3, 1, [0x90, 0x04]⟩] : List Tcp.Frame),
    Spec.PduComplete .rsp x.pdu ∧ x.pdu.length + 1 < 65536 := by
  unfold Spec.PduComplete; decide

/-- cutting a stream into single bytes is one of the chunkings -/
theorem flatten_singletons (b : Bytes) : (b.map fun x => [x]).flatten = b := by
  induction b with
  | nil => rfl
  | cons a t ih => simp only [List.map_cons, List.flatten_cons, ih, List.singleton_append]

/-- a TCP response stream of three frames delivered one byte at a time plus an empty piece, from the theorem -/
example (xs : List Tcp.Frame)
    (hxs : xs = [⟨1, 1, [0x03, 0x02, 0x00, 0x07]⟩, ⟨2, 1, [0x18, 0x00, 0x02, 0xAA, 0xBB]⟩, ⟨3, 1, [0x90, 0x04]⟩]) :
    ([] :: ((xs.map tcpWire).flatten.map fun b => [b])).foldl (recv Tcp.decodeRsp) ⟨[], [], false⟩ =
      ⟨[], xs, false⟩ := by
  apply tcp_rsp_reassembly
  · subst hxs; unfold Spec.PduComplete; decide
  · rw [List.flatten_cons, List.nil_append, flatten_singletons]

/-- the 22-byte stream of `demoFrames` -/
example : (demoFrames.map rtuWire).flatten =
    [0x01, 0x03, 0x04, 0x00, 0x0A, 0x01, 0x02, 0x5A, 0x60,
     0x01, 0x83, 0x02, 0xC0, 0xF1,
     0x02, 0x06, 0x00, 0x01, 0x00, 0x03, 0x98, 0x38] := by decide +kernel

/-- three frames cut into seven chunks (one empty, one cut inside a CRC, one chunk spanning the end
of a frame and the start of the next), evaluated: all three frames, in order, empty buffer, no fault -/
example :
    view ([[0x01], [0x03, 0x04, 0x00], [], [0x0A, 0x01, 0x02, 0x5A], [0x60, 0x01, 0x83, 0x02, 0xC0],
           [0xF1, 0x02, 0x06, 0x00, 0x01, 0x00, 0x03, 0x98], [0x38]].foldl
      (recv Rtu.decodeRsp) ⟨[], [], false⟩) = ([], demoFrames, false) := by
  decide +kernel

/-- the same run obtained from the theorem -/
example :
    [[0x01], [0x03, 0x04, 0x00], [], [0x0A, 0x01, 0x02, 0x5A], [0x60, 0x01, 0x83, 0x02, 0xC0],
     [0xF1, 0x02, 0x06, 0x00, 0x01, 0x00, 0x03, 0x98], [0x38]].foldl
      (recv Rtu.decodeRsp) ⟨[], [], false⟩ = ⟨[], demoFrames, false⟩ :=
  rtu_rsp_reassembly demoFrames (by unfold Spec.PduComplete; decide) _ (by decide +kernel)

end Modbus.C11

import Modbus.Lemmas.WfAdu
import Modbus.Props.C05
import Modbus.Props.C19Wf
/-
C05 (well-formedness) — the TCP (MBAP) ADU round trip for ANY well-formed value.

`Props/C05Full.lean` quantifies over values `Built` through the public constructors, `Props/C05Dec.lean`
over values decoded and re-framed in place.  But `Coils` / `Data` are `Copy` and the enum variants are
public: a container obtained from ANY public source may be placed in ANY variant that takes one — e.g. the
`Coils` decoded from the response `01 01 FF`, placed in `Request::WriteMultipleCoils` and framed by
`tcp::server::encode_request`.  Such a value is neither `Built` nor decoded in place.  This file states the
ADU theorems for EVERY value satisfying the invariant of `Props/C19Wf.lean` (`Request.Wf` / `Response.Wf`:
every register container holds exactly `2·quantity` bytes, every coil container at least `⌈quantity/8⌉`),
which every publicly obtainable container satisfies (`C19Wf.wf_of_sourced`; exception: open finding D5b).

For every such request / response of an implemented kind (`Implemented`: not one of the serial-line-only
kinds whose `encode` is `todo!()`, open finding D19) whose byte count fits its one-byte field (`CountFits`;
when it does not the encoders refuse: `C12.adu_encoders_refuse_oversize`), with `m` its meaning
(`r.meaning = some m`, which is what iteration yields: `r.sem = some m`), every transaction id, unit id
and EVERY buffer:

* the encoder's complete outcome: `Err(BufferSize)` exactly when the buffer is shorter than PDU + 7;
  otherwise `Ok(PDU + 7)`, the bytes written are `Spec.tcpFrame tid uid pdu` with `pdu` the
  SPECIFICATION's PDU of the meaning, the rest of the buffer is untouched;
* `decode_request` / `decode_response` on those bytes followed by ANY further bytes returns the same
  transaction id, the same unit id and a value with the same meaning (coil-read responses rounded up to
  whole bytes with the added coils off: `m.padded`, `RoundsTo`).

Remaining hypotheses on the value (as in C05Full): `m.InScope` / `InScopeRsp m`, `m.Framed`, `m.MbapLen`
(all `True` for the standard kinds; they restrict custom function codes).  Quantity 0 is included.
Responses: write-single-coil is excluded (open finding D12, `C05Full.tcp_response_end_to_end_fails`).
-/
namespace Modbus.C05Wf
open Modbus.AduRT Modbus.Reception

/-! ### requests -/

/-- **Requests: any well-formed value, every buffer, any following bytes.** -/
theorem tcp_request_wf (r : Request) (hw : r.Wf) (hi : r.Implemented) (hf : r.CountFits)
    (m : Spec.ReqMeaning) (hm : r.meaning = some m) (hs : m.InScope) (hfr : m.Framed)
    (tid : UInt16) (uid : UInt8) (buf : Bytes) :
    r.sem = some m ∧
    Tcp.encodeRequest tid uid r buf =
      (if buf.length < (Spec.reqBytes m).length + 7 then .err .bufferSize
       else .ok ((Spec.reqBytes m).length + 7,
         Spec.tcpFrame tid uid (Spec.reqBytes m) ++ buf.drop ((Spec.reqBytes m).length + 7))) ∧
    ((∃ e, Tcp.encodeRequest tid uid r buf = .err e) ↔ buf.length < (Spec.reqBytes m).length + 7) ∧
    ∀ n out, Tcp.encodeRequest tid uid r buf = .ok (n, out) →
      n = (Spec.reqBytes m).length + 7 ∧ n ≤ buf.length ∧
      out.take n = Spec.tcpFrame tid uid (Spec.reqBytes m) ∧
      out.drop n = buf.drop n ∧
      ∀ rest : Bytes, ∃ r', Tcp.decodeRequest (out.take n ++ rest) = .ok (some (tid, uid, r')) ∧
        r'.sem = some m := by
  have hsem : r.sem = some m := by rw [hw.sem_eq, hm]
  have he := (hw.encodable_iff hi).mpr hf
  have himg := hw.image_eq_spec hm
  have hc := hw.complete hi hf hm hfr
  have hn : r.image.length + 1 < 65536 := (C05.tcp_req_complete_length_field _ hc).2
  have hL : (Spec.tcpFrame tid uid (Spec.reqBytes m)).length = (Spec.reqBytes m).length + 7 :=
    tcpFrame_length tid uid _
  have key : Tcp.encodeRequest tid uid r buf =
      (if buf.length < (Spec.reqBytes m).length + 7 then .err .bufferSize
       else .ok ((Spec.reqBytes m).length + 7,
         Spec.tcpFrame tid uid (Spec.reqBytes m) ++ buf.drop ((Spec.reqBytes m).length + 7))) := by
    by_cases hb : buf.length < (Spec.reqBytes m).length + 7
    · rw [if_pos hb]; exact C05.tcp_req_layout_short tid uid r buf he (by rw [himg]; exact hb)
    · rw [if_neg hb]
      have := C05.tcp_req_layout tid uid r buf he hn (by rw [himg]; omega)
      rw [himg] at this; exact this
  refine ⟨hsem, key, ?_, ?_⟩
  · rw [key]
    by_cases hb : buf.length < (Spec.reqBytes m).length + 7
    · rw [if_pos hb]; exact ⟨fun _ => hb, fun _ => ⟨_, rfl⟩⟩
    · rw [if_neg hb]; exact ⟨fun h => (by obtain ⟨e, he⟩ := h; cases he), fun h => absurd h hb⟩
  · intro n out h
    rw [key] at h
    by_cases hb : buf.length < (Spec.reqBytes m).length + 7
    · rw [if_pos hb] at h; cases h
    · rw [if_neg hb] at h
      simp only [Res.ok.injEq, Prod.mk.injEq] at h
      obtain ⟨rfl, rfl⟩ := h
      refine ⟨rfl, by omega, List.take_left' hL, List.drop_left' hL, fun rest => ?_⟩
      rw [List.take_left' hL]
      obtain ⟨r', hd, hs'⟩ := hw.redecode hf hm hs
      refine ⟨r', ?_, by rw [hs', hsem]⟩
      have := C05.tcp_req_roundtrip tid uid r r' hc hd rest
      rw [himg] at this; exact this

/-! ### responses -/

/-
Full statement — FALSE for the model of the unedited crate (open finding D12): `tcp_response_wf` without
the hypothesis `hD12`.  Missing from the proved statement: exactly the responses `Response.writeSingleCoil a`
(three bytes on the wire, the table says five); refuted by `C05Full.tcp_response_end_to_end_fails`.
-/
/-- **Responses: any well-formed value except write-single-coil, every buffer, any following bytes.**
    The decoded response means `m.padded` (coil reads: the coils, then off-coils up to a whole byte — the
    response carries a byte count, not a coil count), which is a `RoundsTo`-image of `m`. -/
theorem tcp_response_wf_partial (r : Response) (hw : r.Wf) (hi : r.Implemented) (hf : r.CountFits)
    (m : Spec.RspMeaning) (hm : r.meaning = some m) (hs : InScopeRsp m) (hfr : m.Framed) (hml : m.MbapLen)
    (hD12 : ∀ a, m ≠ .writeSingleCoil a)
    (tid : UInt16) (uid : UInt8) (buf : Bytes) :
    r.sem = some m ∧
    Tcp.encodeResponse tid uid (.ok r) buf =
      (if buf.length < (Spec.rspBytes m).length + 7 then .err .bufferSize
       else .ok ((Spec.rspBytes m).length + 7,
         Spec.tcpFrame tid uid (Spec.rspBytes m) ++ buf.drop ((Spec.rspBytes m).length + 7))) ∧
    ((∃ e, Tcp.encodeResponse tid uid (.ok r) buf = .err e) ↔ buf.length < (Spec.rspBytes m).length + 7) ∧
    ∀ n out, Tcp.encodeResponse tid uid (.ok r) buf = .ok (n, out) →
      n = (Spec.rspBytes m).length + 7 ∧ n ≤ buf.length ∧
      out.take n = Spec.tcpFrame tid uid (Spec.rspBytes m) ∧
      out.drop n = buf.drop n ∧
      ∀ rest : Bytes, ∃ r', Tcp.decodeResponse (out.take n ++ rest) = .ok (some (tid, uid, .ok r')) ∧
        r'.sem = some m.padded ∧ m.RoundsTo m.padded := by
  have hsem : r.sem = some m := by rw [hw.sem_eq, hm]
  have he := hw.pdu_encodable hi hf
  have himg := hw.image_eq_spec hm hD12
  have hc := hw.complete hi hf hm hD12 hfr
  have hn := hw.mbap_len hi hf hm hml
  have hx := Response.Wf.not_exception hm hfr
  have hL : (Spec.tcpFrame tid uid (Spec.rspBytes m)).length = (Spec.rspBytes m).length + 7 :=
    tcpFrame_length tid uid _
  have key : Tcp.encodeResponse tid uid (.ok r) buf =
      (if buf.length < (Spec.rspBytes m).length + 7 then .err .bufferSize
       else .ok ((Spec.rspBytes m).length + 7,
         Spec.tcpFrame tid uid (Spec.rspBytes m) ++ buf.drop ((Spec.rspBytes m).length + 7))) := by
    by_cases hb : buf.length < (Spec.rspBytes m).length + 7
    · rw [if_pos hb]
      exact C05.tcp_rsp_layout_short tid uid (.ok r) buf he
        (by show buf.length < r.image.length + 7; rw [himg]; exact hb)
    · rw [if_neg hb]
      have : Tcp.encodeResponse tid uid (.ok r) buf =
          .ok (r.image.length + 7, Spec.tcpFrame tid uid r.image ++ buf.drop (r.image.length + 7)) :=
        C05.tcp_rsp_layout tid uid (.ok r) buf he hn (by show r.image.length + 7 ≤ buf.length; rw [himg]; omega)
      rw [himg] at this; exact this
  refine ⟨hsem, key, ?_, ?_⟩
  · rw [key]
    by_cases hb : buf.length < (Spec.rspBytes m).length + 7
    · rw [if_pos hb]; exact ⟨fun _ => hb, fun _ => ⟨_, rfl⟩⟩
    · rw [if_neg hb]; exact ⟨fun h => (by obtain ⟨e, he⟩ := h; cases he), fun h => absurd h hb⟩
  · intro n out h
    rw [key] at h
    by_cases hb : buf.length < (Spec.rspBytes m).length + 7
    · rw [if_pos hb] at h; cases h
    · rw [if_neg hb] at h
      simp only [Res.ok.injEq, Prod.mk.injEq] at h
      obtain ⟨rfl, rfl⟩ := h
      refine ⟨rfl, by omega, List.take_left' hL, List.drop_left' hL, fun rest => ?_⟩
      rw [List.take_left' hL]
      obtain ⟨r', hd, hs'⟩ := hw.redecode_clean hf hm hs
      refine ⟨r', ?_, hs', m.roundsTo_padded⟩
      have := C05.tcp_rsp_roundtrip tid uid r r' hc hn hx hd rest
      rw [himg] at this; exact this

/-! ### the audit's value: `Coils` decoded from the response `01 01 FF`, in a write-multiple-coils request -/

/-- the container is obtained by decoding a response (eight coils, all on), so it is publicly obtainable;
    placed in `Request::WriteMultipleCoils` the value is well-formed, of an implemented kind, its count
    fits, and its meaning is "write eight on-coils at address 0x0013" — neither `Built` from booleans nor
    decoded in place -/
theorem transplant_value :
    Response.decode [0x01, 0x01, 0xFF] = .ok (.readCoils ⟨[0xFF], 8⟩) ∧
    C19Wf.CoilsSourced ⟨[0xFF], 8⟩ ∧
    (Request.writeMultipleCoils 0x13 ⟨[0xFF], 8⟩).Wf ∧
    (Request.writeMultipleCoils 0x13 ⟨[0xFF], 8⟩).Implemented ∧
    (Request.writeMultipleCoils 0x13 ⟨[0xFF], 8⟩).CountFits ∧
    (Request.writeMultipleCoils 0x13 ⟨[0xFF], 8⟩).meaning =
      some (.writeMultipleCoils 0x13 [true, true, true, true, true, true, true, true]) :=
  ⟨by decide +kernel, .rspReadCoils [0x01, 0x01, 0xFF] _ (by decide +kernel), by decide +kernel,
    trivial, by decide +kernel, by decide +kernel⟩

/-- the general theorem applied to it: every transaction id, unit id, buffer and following bytes -/
example (tid : UInt16) (uid : UInt8) (buf : Bytes) (n : Nat) (out rest : Bytes)
    (h : Tcp.encodeRequest tid uid (.writeMultipleCoils 0x13 ⟨[0xFF], 8⟩) buf = .ok (n, out)) :
    n = 14 ∧
    out.take n = Spec.tcpFrame tid uid [0x0F, 0x00, 0x13, 0x00, 0x08, 0x01, 0xFF] ∧
    ∃ r', Tcp.decodeRequest (out.take n ++ rest) = .ok (some (tid, uid, r')) ∧
      r'.sem = some (.writeMultipleCoils 0x13 [true, true, true, true, true, true, true, true]) := by
  obtain ⟨_, _, hw, hi, hf, hm⟩ := transplant_value
  obtain ⟨_, _, _, hall⟩ := tcp_request_wf _ hw hi hf _ hm trivial trivial tid uid buf
  obtain ⟨h1, _, h2, _, h3⟩ := hall n out h
  have hb : Spec.reqBytes (.writeMultipleCoils 0x13 [true, true, true, true, true, true, true, true]) =
      [0x0F, 0x00, 0x13, 0x00, 0x08, 0x01, 0xFF] := by decide +kernel
  rw [hb] at h1 h2
  exact ⟨h1, h2, h3 rest⟩

/-- the same instance evaluated in the kernel: the fourteen bytes `tcp::server::encode_request` writes into a
    dirty sixteen-byte buffer, and what `tcp::server::decode_request` returns for them followed by two stale
    bytes -/
example :
    Tcp.encodeRequest 0xABCD 0x2A (.writeMultipleCoils 0x13 ⟨[0xFF], 8⟩) (List.replicate 16 0xEE) =
      .ok (14, [0xAB, 0xCD, 0, 0, 0, 8, 0x2A, 0x0F, 0x00, 0x13, 0x00, 0x08, 0x01, 0xFF, 0xEE, 0xEE]) ∧
    Spec.tcpFrame 0xABCD 0x2A
        (Spec.reqBytes (.writeMultipleCoils 0x13 [true, true, true, true, true, true, true, true])) =
      [0xAB, 0xCD, 0, 0, 0, 8, 0x2A, 0x0F, 0x00, 0x13, 0x00, 0x08, 0x01, 0xFF] ∧
    Tcp.decodeRequest [0xAB, 0xCD, 0, 0, 0, 8, 0x2A, 0x0F, 0x00, 0x13, 0x00, 0x08, 0x01, 0xFF, 0xEE, 0xEE] =
      .ok (some (0xABCD, 0x2A, .writeMultipleCoils 0x13 ⟨[0xFF], 8⟩)) ∧
    (Request.writeMultipleCoils 0x13 ⟨[0xFF], 8⟩).sem =
      some (.writeMultipleCoils 0x13 [true, true, true, true, true, true, true, true]) ∧
    Tcp.encodeRequest 0xABCD 0x2A (.writeMultipleCoils 0x13 ⟨[0xFF], 8⟩) (List.replicate 13 0xEE) =
      .err .bufferSize := by
  decide +kernel

/-! ### a response transplant: the `Coils` decoded from the REQUEST `0F 00 01 00 03 01 FF` (three coils,
    dirty padding) in a Read Coils response -/

example :
    Request.decode [0x0F, 0x00, 0x01, 0x00, 0x03, 0x01, 0xFF] = .ok (.writeMultipleCoils 1 ⟨[0xFF], 3⟩) ∧
    (Response.readCoils ⟨[0xFF], 3⟩).Wf ∧ (Response.readCoils ⟨[0xFF], 3⟩).CountFits ∧
    (Response.readCoils ⟨[0xFF], 3⟩).meaning = some (.readCoils [true, true, true]) ∧
    Tcp.encodeResponse 1 2 (.ok (.readCoils ⟨[0xFF], 3⟩)) (List.replicate 11 0x55) =
      .ok (10, [0, 1, 0, 0, 0, 4, 2, 0x01, 0x01, 0x07, 0x55]) ∧
    Tcp.decodeResponse [0, 1, 0, 0, 0, 4, 2, 0x01, 0x01, 0x07, 0x55] =
      .ok (some (1, 2, .ok (.readCoils ⟨[0x07], 8⟩))) ∧
    (Response.readCoils ⟨[0x07], 8⟩).sem =
      some (Spec.RspMeaning.readCoils [true, true, true]).padded := by
  decide +kernel

example (tid : UInt16) (uid : UInt8) (buf : Bytes) (n : Nat) (out rest : Bytes)
    (h : Tcp.encodeResponse tid uid (.ok (.readCoils ⟨[0xFF], 3⟩)) buf = .ok (n, out)) :
    n = 10 ∧ out.take n = Spec.tcpFrame tid uid [0x01, 0x01, 0x07] ∧
    ∃ r', Tcp.decodeResponse (out.take n ++ rest) = .ok (some (tid, uid, .ok r')) ∧
      r'.sem = some (.readCoils [true, true, true, false, false, false, false, false]) := by
  have hw : (Response.readCoils ⟨[0xFF], 3⟩).Wf := by decide +kernel
  have hm : (Response.readCoils ⟨[0xFF], 3⟩).meaning = some (.readCoils [true, true, true]) := by decide +kernel
  obtain ⟨_, _, _, hall⟩ := tcp_response_wf_partial _ hw trivial (by decide +kernel) _ hm trivial trivial trivial
    (fun _ h => by cases h) tid uid buf
  obtain ⟨h1, _, h2, _, h3⟩ := hall n out h
  have hb : Spec.rspBytes (.readCoils [true, true, true]) = [0x01, 0x01, 0x07] := by decide +kernel
  rw [hb] at h1 h2
  obtain ⟨r', hd, hs, _⟩ := h3 rest
  exact ⟨h1, h2, r', hd, by rw [hs]; decide +kernel⟩

end Modbus.C05Wf

import Modbus.Lemmas.AduRoundTrip
import Modbus.Lemmas.Scan
/-
C05 — TCP (MBAP) ADU round-trip in both directions.

For every transaction id (all 65536), unit id (all 256) and frameable PDU the encoded ADU is
transaction id (big-endian), protocol id 0, length = PDU length + 1 (big-endian), unit id, PDU, of
total length PDU length + 7 (`tcp_req_layout`, `tcp_rsp_layout`, `tcp_frame_fields`).  Decoding it
returns the same transaction id, the same unit id and what the PDU decoder makes of the PDU
(`tcp_req_roundtrip`, `tcp_rsp_roundtrip`); an exception response is returned as an exception, never
as a successful response (`tcp_exception_roundtrip`).

`Spec.tcpFrame` (Spec/Frames.lean) is the byte-level statement of the frame, independent of the
encoder.  The PDU-level round trip (`Request.decode r.image = .ok r'` with `r'` meaning the same as
`r`) is property C01 / C02; it is a *hypothesis* of the generic theorems here and is discharged in
this file for the fixed-layout kinds (`…_fixed`: every address, every 16-bit value, no hypothesis left).

Open finding D12 (not repaired, pinned by the unedited test-suite): the crate encodes a
write-single-coil response in 3 bytes, the length table says 5, so that one response kind is not
framed; `tcp_rsp_write_single_coil_defect_witness`.
-/
namespace Modbus.C05
open Modbus.AduRT Modbus.Reception

/-! ### layout of the encoded ADU -/

/-- the MBAP frame, field by field: transaction id big-endian, protocol id 0, length = PDU length + 1
    big-endian (exact because `pdu.length + 1 < 65536`), unit id, PDU; total PDU length + 7 -/
theorem tcp_frame_fields (tid : UInt16) (uid : UInt8) (pdu : Bytes) (hn : pdu.length + 1 < 65536) :
    Spec.tcpFrame tid uid pdu =
      [UInt8.ofNat (tid.toNat / 256), UInt8.ofNat (tid.toNat % 256), 0, 0,
       UInt8.ofNat ((pdu.length + 1) / 256), UInt8.ofNat ((pdu.length + 1) % 256), uid] ++ pdu ∧
    (Spec.tcpFrame tid uid pdu).length = pdu.length + 7 := by
  refine ⟨?_, tcpFrame_length tid uid pdu⟩
  rw [tcpFrame_bytes, lengthField_exact _ hn]

example : Spec.tcpFrame 0x1234 0x11 [0x03, 0x00, 0x6B, 0x00, 0x03] =
    [0x12, 0x34, 0x00, 0x00, 0x00, 0x06, 0x11, 0x03, 0x00, 0x6B, 0x00, 0x03] := by decide +kernel

/-- `tcp::server::encode_request`, every transaction id, unit id, encodable request whose PDU length + 1
    fits the 16-bit length field (`u16::try_from(len + 1)` succeeds — every standard kind,
    `tcp_req_length_field`) and every buffer that is long enough: exactly `PDU length + 7` bytes, the
    MBAP frame, the old bytes beyond it -/
theorem tcp_req_layout (tid : UInt16) (uid : UInt8) (r : Request) (buf : Bytes)
    (he : r.Encodable) (hn : r.image.length + 1 < 65536) (hb : r.image.length + 7 ≤ buf.length) :
    Tcp.encodeRequest tid uid r buf =
      .ok (r.image.length + 7, Spec.tcpFrame tid uid r.image ++ buf.drop (r.image.length + 7)) := by
  have h := Tcp.encodeAdu_eq tid uid (RequestPdu.encode r) r.image (fun b => Request.encode_eq r b he) buf
  have hlt : ¬ buf.length < r.image.length + 7 := by omega
  have hfit : ¬ 65535 < r.image.length + 1 := by omega
  rw [if_neg hlt, if_neg hfit] at h
  rw [tcpFrame_eq]; exact h

/-- … an error (never a panic, never a frame with a wrapped length field) for EVERY buffer when the PDU
    length + 1 does not fit the 16-bit length field -/
theorem tcp_req_layout_oversize (tid : UInt16) (uid : UInt8) (r : Request) (buf : Bytes)
    (he : r.Encodable) (hn : 65536 ≤ r.image.length + 1) :
    Tcp.encodeRequest tid uid r buf = .err .bufferSize := by
  have h := Tcp.encodeAdu_eq tid uid (RequestPdu.encode r) r.image (fun b => Request.encode_eq r b he) buf
  have hbig : 65535 < r.image.length + 1 := by omega
  rw [if_pos hbig] at h
  rw [show Tcp.encodeRequest tid uid r buf = _ from h]
  split <;> rfl

/-- … and an error (never a panic, nothing else) when the buffer is shorter -/
theorem tcp_req_layout_short (tid : UInt16) (uid : UInt8) (r : Request) (buf : Bytes)
    (he : r.Encodable) (hb : buf.length < r.image.length + 7) :
    Tcp.encodeRequest tid uid r buf = .err .bufferSize := by
  have h := Tcp.encodeAdu_eq tid uid (RequestPdu.encode r) r.image (fun b => Request.encode_eq r b he) buf
  rw [if_pos hb] at h; exact h

/-- `tcp::server::encode_response`, successful and exception responses alike -/
theorem tcp_rsp_layout (tid : UInt16) (uid : UInt8) (p : ResponsePdu) (buf : Bytes)
    (he : p.Encodable) (hn : p.image.length + 1 < 65536) (hb : p.image.length + 7 ≤ buf.length) :
    Tcp.encodeResponse tid uid p buf =
      .ok (p.image.length + 7, Spec.tcpFrame tid uid p.image ++ buf.drop (p.image.length + 7)) := by
  have h := Tcp.encodeAdu_eq tid uid p.encode p.image (fun b => ResponsePdu.encode_eq p b he) buf
  have hlt : ¬ buf.length < p.image.length + 7 := by omega
  have hfit : ¬ 65535 < p.image.length + 1 := by omega
  rw [if_neg hlt, if_neg hfit] at h
  rw [tcpFrame_eq]; exact h

theorem tcp_rsp_layout_oversize (tid : UInt16) (uid : UInt8) (p : ResponsePdu) (buf : Bytes)
    (he : p.Encodable) (hn : 65536 ≤ p.image.length + 1) :
    Tcp.encodeResponse tid uid p buf = .err .bufferSize := by
  have h := Tcp.encodeAdu_eq tid uid p.encode p.image (fun b => ResponsePdu.encode_eq p b he) buf
  have hbig : 65535 < p.image.length + 1 := by omega
  rw [if_pos hbig] at h
  rw [show Tcp.encodeResponse tid uid p buf = _ from h]
  split <;> rfl

theorem tcp_rsp_layout_short (tid : UInt16) (uid : UInt8) (p : ResponsePdu) (buf : Bytes)
    (he : p.Encodable) (hb : buf.length < p.image.length + 7) :
    Tcp.encodeResponse tid uid p buf = .err .bufferSize := by
  have h := Tcp.encodeAdu_eq tid uid p.encode p.image (fun b => ResponsePdu.encode_eq p b he) buf
  rw [if_pos hb] at h; exact h

/-! ### the length field never wraps

`encode_request` / `encode_response` convert `len + 1` with `u16::try_from` and refuse when it does not
fit.  The statement below assumes nothing about the value (standard or custom, encodable or not, any
payload size) or the buffer: a success always carries the exact count. -/

/-- **never succeeds with a wrapped count.**  Whenever `Tcp.encodeRequest` or `Tcp.encodeResponse` returns
    `.ok (n, out)` — for EVERY value (custom PDUs of any size included) and EVERY buffer — the frame has
    `7 ≤ n ≤ out.length` bytes, and the two length bytes `out[4], out[5]` read big-endian are exactly
    `n - 6` (= PDU length + 1, which is therefore at most 65535). -/
theorem tcp_length_field_never_wraps (tid : UInt16) (uid : UInt8) (buf : Bytes) (n : Nat) (out : Bytes) :
    (∀ r : Request, Tcp.encodeRequest tid uid r buf = .ok (n, out) →
      7 ≤ n ∧ n - 6 ≤ 65535 ∧ n ≤ out.length ∧
      ∃ hi lo, out[4]? = some hi ∧ out[5]? = some lo ∧ hi.toNat * 256 + lo.toNat = n - 6) ∧
    (∀ p : ResponsePdu, Tcp.encodeResponse tid uid p buf = .ok (n, out) →
      7 ≤ n ∧ n - 6 ≤ 65535 ∧ n ≤ out.length ∧
      ∃ hi lo, out[4]? = some hi ∧ out[5]? = some lo ∧ hi.toNat * 256 + lo.toNat = n - 6) :=
  ⟨fun r h => Tcp.encodeAdu_ok_length_field tid uid (RequestPdu.encode r) buf n out h,
   fun p h => Tcp.encodeAdu_ok_length_field tid uid p.encode buf n out h⟩

/-- the same read through the model's `read16`: the length field of a successfully encoded frame, as a
    16-bit word, is the number of bytes that follow it -/
theorem tcp_length_field_read16 (tid : UInt16) (uid : UInt8) (encPdu : Bytes → Res (Nat × Bytes))
    (buf : Bytes) (n : Nat) (out : Bytes) (h : Tcp.encodeAdu tid uid encPdu buf = .ok (n, out)) :
    ∃ w, read16 out 4 = .ok w ∧ w.toNat = n - 6 ∧ w.toNat + 6 = n := by
  obtain ⟨h7, h65, _, hi, lo, h4, h5, hv⟩ := Tcp.encodeAdu_ok_length_field tid uid encPdu buf n out h
  refine ⟨rd16 hi lo, by simp [read16, h4, h5], ?_, ?_⟩
  · rw [rd16_toNat]; exact hv
  · rw [rd16_toNat, hv]; exact Nat.sub_add_cancel (by omega)

/-- a custom request of 65535 PDU bytes is refused whatever the buffer (before the repair it was encoded
    with length field 0) -/
example (d buf : Bytes) (hd : d.length = 65534) :
    Tcp.encodeRequest 1 2 (.custom (.custom 0x41) d) buf = .err .bufferSize :=
  tcp_req_layout_oversize 1 2 (.custom (.custom 0x41) d) buf trivial
    (by simp only [Request.image, List.length_append, List.length_cons, List.length_nil, hd]; omega)

/-- the length field is exact for every complete request PDU: it has at most 265 bytes -/
theorem tcp_req_complete_length_field (pdu : Bytes) (hc : Spec.PduComplete .req pdu) :
    pdu.length ≤ 265 ∧ pdu.length + 1 < 65536 := by
  have := req_complete_le hc
  exact ⟨this, by omega⟩

/-- … in particular for every encodable standard request -/
theorem tcp_req_length_field (r : Request) (hs : r.Standard) (he : r.Encodable) (hx : r.DataExact) :
    r.image.length ≤ 265 ∧ r.image.length + 1 < 65536 := by
  have := req_image_length_le r hs he hx
  exact ⟨this, by omega⟩

/-- … and for every encodable frameable response (at most 257 bytes); exception PDUs have 2 -/
theorem tcp_rsp_length_field (r : Response) (hs : r.Frameable) (he : r.Encodable) :
    r.image.length ≤ 257 ∧ r.image.length + 1 < 65536 := by
  have := rsp_image_length_le r hs he
  exact ⟨this, by omega⟩

/-! non-vacuity of the layout theorems: a write-multiple-coils request, a read response, an exception -/
example : (Request.writeMultipleCoils 5 ⟨[0xCD, 0x01], 9⟩).Encodable ∧
    (Request.writeMultipleCoils 5 ⟨[0xCD, 0x01], 9⟩).image.length + 7 ≤ (List.replicate 16 (0xEE : UInt8)).length := by
  refine ⟨?_, by decide⟩
  simp [Request.Encodable, Coils.packedLen, packedCoilsLen]
example : Tcp.encodeRequest 0xABCD 0x2A (.writeMultipleCoils 5 ⟨[0xCD, 0x01], 9⟩) (List.replicate 16 0xEE) =
    .ok (15, [0xAB, 0xCD, 0, 0, 0, 9, 0x2A, 0x0F, 0, 5, 0, 9, 2, 0xCD, 0x01, 0xEE]) := by decide +kernel
example : (ResponsePdu.ok (.readHoldingRegisters ⟨[0x12, 0x34], 1⟩)).Encodable := by
  refine ⟨?_, by decide⟩
  simp [Response.Encodable, Data.len]
example : (ResponsePdu.error ⟨FunctionCode.new 3, .illegalDataAddress⟩).Encodable := by
  show (FunctionCode.new 3).value < 0x80
  decide
example : Tcp.encodeResponse 1 9 (.error ⟨FunctionCode.new 3, .illegalDataAddress⟩) (List.replicate 9 0) =
    .ok (9, [0, 1, 0, 0, 0, 3, 9, 0x83, 0x02]) := by decide +kernel
example : (Request.writeMultipleCoils 5 ⟨[0xCD, 0x01], 9⟩).Standard ∧
    (Request.writeMultipleCoils 5 ⟨[0xCD, 0x01], 9⟩).DataExact := ⟨trivial, trivial⟩
example : (Response.readHoldingRegisters ⟨[0x12, 0x34], 1⟩).Frameable := trivial

/-! ### frameable PDUs: the images of the standard kinds are complete PDUs of the length table -/

/-- every encodable standard request (nine kinds; register containers holding exactly `2·len` bytes,
    as `Data::from_words` builds them) -/
theorem tcp_req_frameable (r : Request) (hs : r.Standard) (he : r.Encodable) (hx : r.DataExact) :
    Spec.PduComplete .req r.image := req_image_complete r hs he hx

/-- every value built by `Data::from_words` is `DataExact` -/
theorem built_data_exact (a : UInt16) (ws : List UInt16) (target : Bytes) (d : Data)
    (h : Data.fromWords ws target = .ok d) :
    (Request.writeMultipleRegisters a d).DataExact ∧
    ∀ ra rq wa, (Request.readWriteMultipleRegisters ra rq wa d).DataExact :=
  ⟨fromWords_exact ws target d h, fun _ _ _ => fromWords_exact ws target d h⟩

example : Data.fromWords [0x000A, 0x0102] [0, 0, 0, 0, 0] = .ok ⟨[0x00, 0x0A, 0x01, 0x02], 2⟩ := by decide +kernel

/-- every encodable response kind the codec implements, except write-single-coil (D12) -/
theorem tcp_rsp_frameable (r : Response) (hs : r.Frameable) (he : r.Encodable) :
    Spec.PduComplete .rsp r.image := rsp_image_complete r hs he

/-- the exception PDUs the response table knows: function values 1 … 0x2B (bytes 0x81 … 0xAB) -/
theorem tcp_exception_frameable (f : UInt8) (k : Exception) (h1 : 1 ≤ f) (h2 : f ≤ 0x2B) :
    Spec.PduComplete .rsp [f + 0x80, k.val] := exc_complete f k.val h1 h2

example : (1 : UInt8) ≤ 0x2B ∧ (0x2B : UInt8) ≤ 0x2B := by decide

/-! ### requests: encode, then decode -/

/-- Decoding the frame of a complete request PDU (followed by anything) returns the same transaction
    id, the same unit id, and the value the PDU decoder returns for the PDU. -/
theorem tcp_req_roundtrip (tid : UInt16) (uid : UInt8) (r r' : Request)
    (hc : Spec.PduComplete .req r.image)
    (hd : Request.decode r.image = .ok r') (rest : Bytes) :
    Tcp.decodeRequest (Spec.tcpFrame tid uid r.image ++ rest) = .ok (some (tid, uid, r')) := by
  have hn : r.image.length + 1 < 65536 := by have := req_complete_le hc; omega
  rw [tcp_decodeRequest_whole (tcp_req_good tid uid r.image hc hn) rest, hd]
  rfl

/-- exactly that frame -/
theorem tcp_req_roundtrip_exact (tid : UInt16) (uid : UInt8) (r r' : Request)
    (hc : Spec.PduComplete .req r.image)
    (hd : Request.decode r.image = .ok r') :
    Tcp.decodeRequest (Spec.tcpFrame tid uid r.image) = .ok (some (tid, uid, r')) := by
  have := tcp_req_roundtrip tid uid r r' hc hd []
  rwa [List.append_nil] at this

/-- with the PDU-level round trip (C01) as hypothesis: an equivalent request comes back -/
theorem tcp_req_roundtrip_sem (tid : UInt16) (uid : UInt8) (r : Request)
    (hc : Spec.PduComplete .req r.image)
    (hpdu : ∃ r', Request.decode r.image = .ok r' ∧ r'.sem = r.sem) (rest : Bytes) :
    ∃ r', Tcp.decodeRequest (Spec.tcpFrame tid uid r.image ++ rest) = .ok (some (tid, uid, r')) ∧
      r'.sem = r.sem := by
  obtain ⟨r', hd, hs⟩ := hpdu
  exact ⟨r', tcp_req_roundtrip tid uid r r' hc hd rest, hs⟩

/-- the standard kinds: completeness and the length bound are theorems, only the PDU-level round trip remains -/
theorem tcp_req_roundtrip_standard (tid : UInt16) (uid : UInt8) (r r' : Request)
    (hs : r.Standard) (he : r.Encodable) (hx : r.DataExact)
    (hd : Request.decode r.image = .ok r') (rest : Bytes) :
    Tcp.decodeRequest (Spec.tcpFrame tid uid r.image ++ rest) = .ok (some (tid, uid, r')) :=
  tcp_req_roundtrip tid uid r r' (tcp_req_frameable r hs he hx) hd rest

/-- encoder and decoder composed: the bytes `encode_request` reports as written — and equally the
    whole output buffer, whatever lay beyond — decode to the same ids and the decoded PDU -/
theorem tcp_req_encode_decode (tid : UInt16) (uid : UInt8) (r r' : Request) (buf : Bytes)
    (he : r.Encodable) (hb : r.image.length + 7 ≤ buf.length)
    (hc : Spec.PduComplete .req r.image)
    (hd : Request.decode r.image = .ok r') :
    ∃ out, Tcp.encodeRequest tid uid r buf = .ok (r.image.length + 7, out) ∧
      out.take (r.image.length + 7) = Spec.tcpFrame tid uid r.image ∧
      Tcp.decodeRequest (out.take (r.image.length + 7)) = .ok (some (tid, uid, r')) ∧
      Tcp.decodeRequest out = .ok (some (tid, uid, r')) := by
  have hn : r.image.length + 1 < 65536 := (tcp_req_complete_length_field _ hc).2
  refine ⟨_, tcp_req_layout tid uid r buf he hn hb, ?_, ?_, tcp_req_roundtrip tid uid r r' hc hd _⟩
  · rw [← tcpFrame_length tid uid r.image, List.take_left']; rfl
  · rw [← tcpFrame_length tid uid r.image, List.take_left' rfl]
    exact tcp_req_roundtrip_exact tid uid r r' hc hd

/-- **fixed-layout requests, no hypothesis left**: read coils / discrete inputs / holding / input
    registers, write single coil / register — every transaction id, unit id, address, 16-bit value
    and coil state, any following bytes: the same ids and the same request come back -/
theorem tcp_req_roundtrip_fixed (tid : UInt16) (uid : UInt8) (r : Request) (hf : r.FixedLayout) (rest : Bytes) :
    Tcp.decodeRequest (Spec.tcpFrame tid uid r.image ++ rest) = .ok (some (tid, uid, r)) :=
  tcp_req_roundtrip_standard tid uid r r (req_fixed_standard hf) (req_fixed_encodable hf) (req_fixed_dataExact hf) (req_decode_fixed r hf) rest

theorem tcp_req_encode_decode_fixed (tid : UInt16) (uid : UInt8) (r : Request) (hf : r.FixedLayout)
    (buf : Bytes) (hb : 12 ≤ buf.length) :
    ∃ out, Tcp.encodeRequest tid uid r buf = .ok (12, out) ∧
      Tcp.decodeRequest (out.take 12) = .ok (some (tid, uid, r)) ∧
      Tcp.decodeRequest out = .ok (some (tid, uid, r)) := by
  have h5 := req_image_length_fixed r hf
  obtain ⟨out, h1, _, h3, h4⟩ := tcp_req_encode_decode tid uid r r buf (req_fixed_encodable hf) (by omega)
    (tcp_req_frameable r (req_fixed_standard hf) (req_fixed_encodable hf) (req_fixed_dataExact hf)) (req_decode_fixed r hf)
  rw [h5] at h1 h3
  exact ⟨out, h1, h3, h4⟩

/-- **custom requests, no PDU-level hypothesis left**: a custom function code that the request table
    knows and that is not one of the nine modelled kinds (0x07, 0x0B, 0x0C, 0x11, 0x16, 0x18) comes
    back as `Custom(FunctionCode::Custom(code), data)` — the same code and the same data -/
theorem tcp_req_roundtrip_custom (tid : UInt16) (uid : UInt8) (fc : FunctionCode) (d : Bytes)
    (hc : Spec.PduComplete .req (Request.custom fc d).image)
    (hm : fc.value ∉ modelledReqCodes) (rest : Bytes) :
    Tcp.decodeRequest (Spec.tcpFrame tid uid (Request.custom fc d).image ++ rest) =
      .ok (some (tid, uid, .custom (.custom fc.value) d)) ∧
    (Request.custom (.custom fc.value) d).sem = (Request.custom fc d).sem := by
  obtain ⟨c, h0, hk⟩ := complete_known hc
  have hc0 : c = fc.value := by
    have : (Request.custom fc d).image[0]? = some fc.value := rfl
    rw [this] at h0; exact (Option.some.inj h0).symm
  subst hc0
  exact ⟨tcp_req_roundtrip tid uid _ _ hc (req_decode_custom fc d (req_known_lt _ hk) hm) rest, rfl⟩

/-! non-vacuity: a payload kind (write multiple registers built by `from_words`), a custom PDU the
    table knows (0x16, mask write register), the fixed kinds -/
example : Tcp.decodeRequest (Spec.tcpFrame 0xBEEF 0xFF
      (Request.writeMultipleRegisters 1 ⟨[0x00, 0x0A, 0x01, 0x02], 2⟩).image ++ [0xDE, 0xAD]) =
    .ok (some (0xBEEF, 0xFF, .writeMultipleRegisters 1 ⟨[0x00, 0x0A, 0x01, 0x02], 2⟩)) :=
  tcp_req_roundtrip_standard _ _ _ _ (by trivial) (by show 2 * 2 ≤ 255; decide) (by show 4 = 2 * 2; rfl)
    (by decide +kernel) _
example : Spec.PduComplete .req (Request.custom .maskWriteRegister [0, 4, 0, 0xF2, 0, 0x25]).image ∧
    FunctionCode.maskWriteRegister.value ∉ modelledReqCodes := by
  unfold Spec.PduComplete; decide +kernel
example : Spec.PduComplete .req (Request.custom (.custom 0x16) [0, 4, 0, 0xF2, 0, 0x25]).image ∧
    Request.decode (Request.custom (.custom 0x16) [0, 4, 0, 0xF2, 0, 0x25]).image =
      .ok (.custom (.custom 0x16) [0, 4, 0, 0xF2, 0, 0x25]) := by
  unfold Spec.PduComplete; decide +kernel
example : ∃ r', Request.decode (Request.readCoils 1 2).image = .ok r' ∧ r'.sem = (Request.readCoils 1 2).sem :=
  ⟨_, req_decode_readCoils 1 2, rfl⟩
example : (Request.writeSingleCoil 0xFFFF true).FixedLayout := trivial
example : Tcp.decodeRequest (Spec.tcpFrame 0xFFFF 0 (Request.writeSingleCoil 0xFFFF true).image) =
    .ok (some (0xFFFF, 0, .writeSingleCoil 0xFFFF true)) := by decide +kernel

/-! ### the serial-line-only requests: framed by the table, not encodable (open finding D19) -/

/-
Full statement of C05 for these kinds — FALSE for the model of the unedited crate (open finding D19):

  theorem tcp_req_serial_only_roundtrip (tid : UInt16) (uid : UInt8) (r : Request)
      (hr : r = .readExceptionStatus ∨ r = .getCommEventCounter ∨ r = .getCommEventLog ∨ r = .reportServerId)
      (buf : Bytes) (hb : 8 ≤ buf.length) :
      ∃ out, Tcp.encodeRequest tid uid r buf = .ok (8, out) ∧
        out.take 8 = Spec.tcpFrame tid uid [r.fc.value] ∧
        ∃ r', Tcp.decodeRequest (out.take 8) = .ok (some (tid, uid, r')) ∧ r'.fc.value = r.fc.value

("every request that TCP framing supports": the length table and the crate's own `tcp::request_pdu_len`
frame 0x07 / 0x0B / 0x0C / 0x11 as one-byte PDUs.)  It fails at the first conjunct: `Request::pdu_len` is
`todo!()` for these kinds, so `tcp::server::encode_request` PANICS on every buffer that passes its own
seven-byte header-room check.
-/
/-- **open finding D19 at TCP ADU level** (the analogue of `C04.rtu_unimplemented_request_panics_witness`).
    `tcp::server::encode_request` on ANY transaction id, ANY unit id and each of the four serial-line-only
    requests the framing layer supports: `Err(BufferSize)` for a buffer of fewer than seven bytes (the
    encoder's header-room check comes first), a PANIC for EVERY longer buffer, from seven bytes on — the
    three header stores succeed, then `RequestPdu::encode` calls `Request::encode` without any emptiness
    check of its own and `Request::pdu_len` is `todo!()`, so the panic does not wait for an eighth byte —
    although the specification's length table frames each of the four codes as a one-byte PDU, and the
    frames `tid, 00 00, 00 02, uid, code` are what the crate's own server-side decoder accepts (as `Custom`
    requests). -/
theorem tcp_unimplemented_request_panics_witness (tid : UInt16) (uid : UInt8) (r : Request)
    (hr : r = .readExceptionStatus ∨ r = .getCommEventCounter ∨ r = .getCommEventLog ∨ r = .reportServerId)
    (buf : Bytes) :
    Tcp.encodeRequest tid uid r buf = (if buf.length < 7 then .err .bufferSize else .panic) ∧
    (buf.length < 7 → Tcp.encodeRequest tid uid r buf = .err .bufferSize) ∧
    (7 ≤ buf.length → Tcp.encodeRequest tid uid r buf = .panic) ∧
    Spec.lenRule .req r.fc.value.toNat = .fixed 1 ∧
    Spec.lenRule .req 0x07 = .fixed 1 ∧ Spec.lenRule .req 0x0B = .fixed 1 ∧
    Spec.lenRule .req 0x0C = .fixed 1 ∧ Spec.lenRule .req 0x11 = .fixed 1 ∧
    Spec.PduComplete .req [r.fc.value] ∧
    Tcp.decodeRequest (Spec.tcpFrame tid uid [r.fc.value]) =
      .ok (some (tid, uid, .custom (.custom r.fc.value) [])) := by
  have key : Tcp.encodeRequest tid uid r buf = (if buf.length < 7 then .err .bufferSize else .panic) := by
    unfold Tcp.encodeRequest Tcp.encodeAdu
    by_cases h : buf.length < 7
    · rw [if_pos h, if_pos h]
    · rw [if_neg h, if_neg h]
      -- split the buffer into the seven header bytes and the rest: the header stores succeed
      obtain ⟨hd, rest, rfl, hhd⟩ : ∃ hd rest, buf = hd ++ rest ∧ hd.length = 7 :=
        ⟨buf.take 7, buf.drop 7, (List.take_append_drop 7 buf).symm, by simp; omega⟩
      match hd, hhd with
      | [b0, b1, b2, b3, b4, b5, b6], _ =>
        have w1 : applyWrites ([b0, b1, b2, b3, b4, b5, b6] ++ rest) [(0, be16 tid), (2, be16 0), (6, [uid])] =
            .ok (be16 tid ++ be16 0 ++ [b4, b5, uid] ++ rest) := by
          simp [applyWrites, writeAt, be16]
        rw [w1]
        -- … and the PDU encoder panics whatever is left of the buffer (`Request::pdu_len` comes first)
        rcases hr with rfl | rfl | rfl | rfl <;> rfl
  refine ⟨key, fun h => by rw [key, if_pos h], fun h => by rw [key, if_neg (by omega)], ?_,
    by decide, by decide, by decide, by decide, ?_, ?_⟩
  · rcases hr with rfl | rfl | rfl | rfl <;> decide
  · rcases hr with rfl | rfl | rfl | rfl <;> exact complete_fixed (n := 1) rfl (by decide) rfl
  · have h := fun (c : UInt8) (hc : Spec.PduComplete .req [c]) (hm : c ∉ modelledReqCodes) =>
      (tcp_req_roundtrip_custom tid uid (.custom c) [] hc hm []).1
    simp only [List.append_nil] at h
    rcases hr with rfl | rfl | rfl | rfl
    · exact h 0x07 (complete_fixed (n := 1) rfl (by decide) rfl) (by decide)
    · exact h 0x0B (complete_fixed (n := 1) rfl (by decide) rfl) (by decide)
    · exact h 0x0C (complete_fixed (n := 1) rfl (by decide) rfl) (by decide)
    · exact h 0x11 (complete_fixed (n := 1) rfl (by decide) rfl) (by decide)

example : Tcp.encodeRequest 0x1234 0x11 .readExceptionStatus [] = .err .bufferSize ∧
    Tcp.encodeRequest 0x1234 0x11 .readExceptionStatus (List.replicate 6 0) = .err .bufferSize ∧
    Tcp.encodeRequest 0x1234 0x11 .readExceptionStatus (List.replicate 7 0) = .panic ∧
    Tcp.encodeRequest 0x1234 0x11 .getCommEventCounter (List.replicate 8 0) = .panic ∧
    Tcp.encodeRequest 0x1234 0x11 .getCommEventLog (List.replicate 260 0) = .panic ∧
    Tcp.encodeRequest 0x1234 0x11 .reportServerId (List.replicate 12 0) = .panic ∧
    Tcp.decodeRequest [0x12, 0x34, 0x00, 0x00, 0x00, 0x02, 0x11, 0x07] =
      .ok (some (0x1234, 0x11, .custom (.custom 0x07) [])) := by
  decide +kernel

/-! ### responses -/

/-- Decoding the frame of a complete, non-exception response PDU returns the same ids and the value
    `Response::try_from` returns for the PDU, as a successful response. -/
theorem tcp_rsp_roundtrip (tid : UInt16) (uid : UInt8) (r r' : Response)
    (hc : Spec.PduComplete .rsp r.image) (hn : r.image.length + 1 < 65536)
    (hx : ∃ e, ExceptionResponse.decode r.image = .err e)
    (hd : Response.decode r.image = .ok r') (rest : Bytes) :
    Tcp.decodeResponse (Spec.tcpFrame tid uid r.image ++ rest) = .ok (some (tid, uid, .ok r')) := by
  obtain ⟨e, hx⟩ := hx
  rw [tcp_decodeResponse_whole (tcp_rsp_good tid uid r.image hc hn) rest]
  unfold decodeRspPdu
  simp only [hx, hd]
  rfl

/-- the exception decoder rejects every PDU whose first byte is below 0x80 -/
theorem tcp_rsp_not_exception (pdu : Bytes) (b : UInt8) (h0 : pdu[0]? = some b) (hb : b < 0x80) :
    ∃ e, ExceptionResponse.decode pdu = .err e := exc_decode_err_of_lt pdu b h0 hb

theorem tcp_rsp_roundtrip_exact (tid : UInt16) (uid : UInt8) (r r' : Response)
    (hc : Spec.PduComplete .rsp r.image) (hn : r.image.length + 1 < 65536)
    (hx : ∃ e, ExceptionResponse.decode r.image = .err e)
    (hd : Response.decode r.image = .ok r') :
    Tcp.decodeResponse (Spec.tcpFrame tid uid r.image) = .ok (some (tid, uid, .ok r')) := by
  have := tcp_rsp_roundtrip tid uid r r' hc hn hx hd []
  rwa [List.append_nil] at this

/-- with the PDU-level round trip (C02) as hypothesis: an equivalent response comes back
    (`m` is the expected meaning: `r.sem`, padded to whole bytes for coil reads) -/
theorem tcp_rsp_roundtrip_sem (tid : UInt16) (uid : UInt8) (r : Response) (m : Option Spec.RspMeaning)
    (hc : Spec.PduComplete .rsp r.image) (hn : r.image.length + 1 < 65536)
    (hx : ∃ e, ExceptionResponse.decode r.image = .err e)
    (hpdu : ∃ r', Response.decode r.image = .ok r' ∧ r'.sem = m) (rest : Bytes) :
    ∃ r', Tcp.decodeResponse (Spec.tcpFrame tid uid r.image ++ rest) = .ok (some (tid, uid, .ok r')) ∧
      r'.sem = m := by
  obtain ⟨r', hd, hs⟩ := hpdu
  exact ⟨r', tcp_rsp_roundtrip tid uid r r' hc hn hx hd rest, hs⟩

/-
Full statement — FALSE for the model of the unedited crate (open finding D12):

  theorem tcp_rsp_roundtrip_standard (r r' : Response) (he : r.Encodable) (implemented kind)
      (hd : Response.decode r.image = .ok r') (rest) :
      Tcp.decodeResponse (Spec.tcpFrame tid uid r.image ++ rest) = .ok (some (tid, uid, .ok r'))

Missing from the proved statement: exactly `Response.writeSingleCoil _` (`Frameable` excludes it and
nothing else among the implemented kinds); `tcp_rsp_write_single_coil_defect_witness` shows the full
statement fails there.
-/
/-- the implemented response kinds except write-single-coil -/
theorem tcp_rsp_roundtrip_standard_partial (tid : UInt16) (uid : UInt8) (r r' : Response)
    (hs : r.Frameable) (he : r.Encodable)
    (hd : Response.decode r.image = .ok r') (rest : Bytes) :
    Tcp.decodeResponse (Spec.tcpFrame tid uid r.image ++ rest) = .ok (some (tid, uid, .ok r')) := by
  obtain ⟨b, h0, hb⟩ := rsp_image_first_lt r hs
  exact tcp_rsp_roundtrip tid uid r r' (tcp_rsp_frameable r hs he) (tcp_rsp_length_field r hs he).2
    (exc_decode_err_of_lt _ b h0 hb) hd rest

theorem tcp_rsp_encode_decode (tid : UInt16) (uid : UInt8) (r r' : Response) (buf : Bytes)
    (he : (ResponsePdu.ok r).Encodable) (hb : r.image.length + 7 ≤ buf.length)
    (hc : Spec.PduComplete .rsp r.image) (hn : r.image.length + 1 < 65536)
    (hx : ∃ e, ExceptionResponse.decode r.image = .err e)
    (hd : Response.decode r.image = .ok r') :
    ∃ out, Tcp.encodeResponse tid uid (.ok r) buf = .ok (r.image.length + 7, out) ∧
      out.take (r.image.length + 7) = Spec.tcpFrame tid uid r.image ∧
      Tcp.decodeResponse (out.take (r.image.length + 7)) = .ok (some (tid, uid, .ok r')) ∧
      Tcp.decodeResponse out = .ok (some (tid, uid, .ok r')) := by
  refine ⟨_, tcp_rsp_layout tid uid (.ok r) buf he hn hb, ?_, ?_, tcp_rsp_roundtrip tid uid r r' hc hn hx hd _⟩
  · show List.take (r.image.length + 7) (Spec.tcpFrame tid uid r.image ++ _) = _
    rw [← tcpFrame_length tid uid r.image, List.take_left']; rfl
  · show Tcp.decodeResponse (List.take (r.image.length + 7) (Spec.tcpFrame tid uid r.image ++ _)) = _
    rw [← tcpFrame_length tid uid r.image, List.take_left' rfl]
    exact tcp_rsp_roundtrip_exact tid uid r r' hc hn hx hd

/-- **fixed-layout responses, no hypothesis left**: write single register / multiple coils / multiple
    registers — every transaction id, unit id, address and 16-bit value -/
theorem tcp_rsp_roundtrip_fixed (tid : UInt16) (uid : UInt8) (r : Response) (hf : r.FixedLayout) (rest : Bytes) :
    Tcp.decodeResponse (Spec.tcpFrame tid uid r.image ++ rest) = .ok (some (tid, uid, .ok r)) :=
  tcp_rsp_roundtrip_standard_partial tid uid r r (rsp_fixed_frameable hf) (rsp_fixed_encodable hf) (rsp_decode_fixed r hf) rest

theorem tcp_rsp_encode_decode_fixed (tid : UInt16) (uid : UInt8) (r : Response) (hf : r.FixedLayout)
    (buf : Bytes) (hb : 12 ≤ buf.length) :
    ∃ out, Tcp.encodeResponse tid uid (.ok r) buf = .ok (12, out) ∧
      Tcp.decodeResponse (out.take 12) = .ok (some (tid, uid, .ok r)) ∧
      Tcp.decodeResponse out = .ok (some (tid, uid, .ok r)) := by
  have h5 := rsp_image_length_fixed r hf
  obtain ⟨b, h0, hlt⟩ := rsp_image_first_lt r (rsp_fixed_frameable hf)
  obtain ⟨out, h1, _, h3, h4⟩ := tcp_rsp_encode_decode tid uid r r buf ⟨(rsp_fixed_encodable hf), by omega⟩ (by omega)
    (tcp_rsp_frameable r (rsp_fixed_frameable hf) (rsp_fixed_encodable hf)) (by omega) (exc_decode_err_of_lt _ b h0 hlt)
    (rsp_decode_fixed r hf)
  rw [h5] at h1 h3
  exact ⟨out, h1, h3, h4⟩

/-- **Read Exception Status** (`07 s`, two bytes) like any fixed-layout kind: every status byte, every
    transaction and unit id, every buffer of at least nine bytes; the very same value comes back -/
theorem tcp_rsp_encode_decode_read_exception_status (tid : UInt16) (uid s : UInt8) (buf : Bytes)
    (hb : 9 ≤ buf.length) :
    ∃ out, Tcp.encodeResponse tid uid (.ok (.readExceptionStatus s)) buf = .ok (9, out) ∧
      out.take 9 = Spec.tcpFrame tid uid [0x07, s] ∧
      Tcp.decodeResponse (out.take 9) = .ok (some (tid, uid, .ok (.readExceptionStatus s))) ∧
      Tcp.decodeResponse out = .ok (some (tid, uid, .ok (.readExceptionStatus s))) := by
  have hi : (Response.readExceptionStatus s).image = [0x07, s] := rfl
  have hd : Response.decode (Response.readExceptionStatus s).image = .ok (.readExceptionStatus s) := by
    rw [hi]; simp [Response.decode, idx, minResponsePduLen, show FunctionCode.new 0x07 = .readExceptionStatus from by decide]
  obtain ⟨out, h1, h2, h3, h4⟩ := tcp_rsp_encode_decode tid uid (.readExceptionStatus s) (.readExceptionStatus s) buf
    ⟨trivial, by rw [hi]; simp⟩ (by rw [hi]; exact hb)
    (tcp_rsp_frameable _ trivial trivial) (by rw [hi]; simp) (exc_decode_err_of_lt _ 0x07 rfl (by decide)) hd
  exact ⟨out, h1, h2, h3, h4⟩

/-- **custom responses, no PDU-level hypothesis left**: a custom function code below 0x80 that the
    response table knows and that is not one of the ten kinds the response decoder models (0x0B, 0x0C, 0x16, 0x18; 0x07 is a modelled kind now)
    comes back as `Custom(FunctionCode::new(code), data)` — the same code and the same data -/
theorem tcp_rsp_roundtrip_custom (tid : UInt16) (uid : UInt8) (fc : FunctionCode) (d : Bytes)
    (hc : Spec.PduComplete .rsp (Response.custom fc d).image)
    (hn : (Response.custom fc d).image.length + 1 < 65536)
    (hlt : fc.value < 0x80) (hm : fc.value ∉ modelledRspCodes) (rest : Bytes) :
    Tcp.decodeResponse (Spec.tcpFrame tid uid (Response.custom fc d).image ++ rest) =
      .ok (some (tid, uid, .ok (.custom (FunctionCode.new fc.value) d))) ∧
    (Response.custom (FunctionCode.new fc.value) d).sem = (Response.custom fc d).sem := by
  refine ⟨tcp_rsp_roundtrip tid uid _ _ hc hn (exc_decode_err_of_lt _ fc.value rfl hlt)
    (rsp_decode_custom fc d hm) rest, ?_⟩
  show some (Spec.RspMeaning.custom (FunctionCode.new fc.value).value d) = some (.custom fc.value d)
  rw [value_new]

/-! non-vacuity: a read-holding-registers response, a coil response (meaning padded), a fixed kind,
    a custom PDU with a 16-bit count (0x18, read FIFO queue) -/
example : Spec.PduComplete .rsp (Response.custom (.custom 0x18) [0x00, 0x02, 0xAA, 0xBB]).image ∧
    (Response.custom (.custom 0x18) [0x00, 0x02, 0xAA, 0xBB]).image.length + 1 < 65536 ∧
    (FunctionCode.custom 0x18).value < 0x80 ∧ (FunctionCode.custom 0x18).value ∉ modelledRspCodes := by
  unfold Spec.PduComplete; decide +kernel
example : Tcp.decodeResponse (Spec.tcpFrame 0x0102 0x03 (Response.readHoldingRegisters ⟨[0x12, 0x34, 0x56, 0x78], 2⟩).image ++ [0x99]) =
    .ok (some (0x0102, 0x03, .ok (.readHoldingRegisters ⟨[0x12, 0x34, 0x56, 0x78], 2⟩))) :=
  tcp_rsp_roundtrip_standard_partial _ _ _ _ (by trivial) (by show 2 * 2 ≤ 255 ∧ 2 * 2 ≤ 4; decide) (by decide +kernel) _
example : ∃ r', Response.decode (Response.readCoils ⟨[0x05], 3⟩).image = .ok r' ∧
    r'.sem = (Response.readCoils ⟨[0x05], 3⟩).sem.map Spec.RspMeaning.padded := by
  refine ⟨.readCoils ⟨[0x05], 8⟩, by decide +kernel, by decide +kernel⟩
example : ∃ e, ExceptionResponse.decode (Response.readCoils ⟨[0x05], 3⟩).image = .err e :=
  tcp_rsp_not_exception _ 0x01 rfl (by decide)
example : (Response.writeMultipleRegisters 0xFFFF 0x7B).FixedLayout := trivial
example : Tcp.decodeResponse (Spec.tcpFrame 0 0xFF (Response.writeMultipleRegisters 0xFFFF 0x7B).image) =
    .ok (some (0, 0xFF, .ok (.writeMultipleRegisters 0xFFFF 0x7B))) := by decide +kernel

/-- D12 (open finding): the crate's write-single-coil response is three bytes, the length table says
    five; its frame is not a complete PDU, and the response decoder answers 'incomplete' on exactly the
    bytes the encoder produced — the response does not come back. -/
theorem tcp_rsp_write_single_coil_defect_witness :
    (ResponsePdu.ok (.writeSingleCoil 0x33)).Encodable ∧
    ¬ Spec.PduComplete .rsp (Response.writeSingleCoil 0x33).image ∧
    Tcp.encodeResponse 7 1 (.ok (.writeSingleCoil 0x33)) (List.replicate 10 0) =
      .ok (10, Spec.tcpFrame 7 1 (Response.writeSingleCoil 0x33).image) ∧
    Spec.tcpFrame 7 1 (Response.writeSingleCoil 0x33).image = [0, 7, 0, 0, 0, 4, 1, 0x05, 0x00, 0x33] ∧
    Tcp.decodeResponse (Spec.tcpFrame 7 1 (Response.writeSingleCoil 0x33).image) = .ok none ∧
    Response.decode (Response.writeSingleCoil 0x33).image = .ok (.writeSingleCoil 0x33) := by
  refine ⟨⟨trivial, by decide⟩, rsp_write_single_coil_incomplete 0x33, ?_, ?_, ?_, ?_⟩ <;> decide +kernel

/-- so the full response statement is refuted for the model of the unedited crate -/
theorem tcp_rsp_roundtrip_standard_fails :
    ¬ ∀ (tid : UInt16) (uid : UInt8) (r r' : Response), r.Encodable → 1 ≤ r.image.length →
        Response.decode r.image = .ok r' →
        Tcp.decodeResponse (Spec.tcpFrame tid uid r.image) = .ok (some (tid, uid, .ok r')) := by
  intro h
  obtain ⟨_, _, _, _, hd, hp⟩ := tcp_rsp_write_single_coil_defect_witness
  have g := h 7 1 (.writeSingleCoil 0x33) _ trivial (by decide) hp
  rw [hd] at g
  cases g

/-! ### exception responses -/

/-- Every exception frame the length table knows (function values 1 … 0x2B, i.e. bytes 0x81 … 0xAB;
    all nine exception codes; every transaction and unit id; any following bytes) is returned as an
    exception — same ids, function `FunctionCode::new f`, the same exception code. -/
theorem tcp_exception_roundtrip (tid : UInt16) (uid : UInt8) (f : UInt8) (k : Exception)
    (h1 : 1 ≤ f) (h2 : f ≤ 0x2B) (rest : Bytes) :
    Tcp.decodeResponse (Spec.tcpFrame tid uid [f + 0x80, k.val] ++ rest) =
      .ok (some (tid, uid, .error ⟨FunctionCode.new f, k⟩)) := by
  have hf : f < 0x80 := by
    rw [UInt8.lt_iff_toNat_lt]; rw [UInt8.le_iff_toNat_le] at h2
    have : (0x2B : UInt8).toNat = 43 := rfl
    have : (0x80 : UInt8).toNat = 128 := rfl
    omega
  rw [tcp_decodeResponse_whole (tcp_rsp_good tid uid _ (exc_complete f k.val h1 h2) (by simp)) rest,
    decodeRspPdu_exc f k hf]
  rfl

/-- … never as a successful response -/
theorem tcp_exception_never_success (tid : UInt16) (uid : UInt8) (f : UInt8) (k : Exception)
    (h1 : 1 ≤ f) (h2 : f ≤ 0x2B) (rest : Bytes) (t : UInt16) (u : UInt8) (r : Response) :
    Tcp.decodeResponse (Spec.tcpFrame tid uid [f + 0x80, k.val] ++ rest) ≠ .ok (some (t, u, .ok r)) := by
  rw [tcp_exception_roundtrip tid uid f k h1 h2 rest]
  intro h; cases h

/-- encoder and decoder composed, for every `ExceptionResponse` value whose function value is 1 … 0x2B -/
theorem tcp_exception_encode_decode (tid : UInt16) (uid : UInt8) (e : ExceptionResponse) (buf : Bytes)
    (h1 : 1 ≤ e.function.value) (h2 : e.function.value ≤ 0x2B) (hb : 9 ≤ buf.length) :
    ∃ out, Tcp.encodeResponse tid uid (.error e) buf = .ok (9, out) ∧
      out.take 9 = Spec.tcpFrame tid uid [e.function.value + 0x80, e.exception.val] ∧
      Tcp.decodeResponse (out.take 9) =
        .ok (some (tid, uid, .error ⟨FunctionCode.new e.function.value, e.exception⟩)) ∧
      Tcp.decodeResponse out =
        .ok (some (tid, uid, .error ⟨FunctionCode.new e.function.value, e.exception⟩)) ∧
      (FunctionCode.new e.function.value).value = e.function.value := by
  have hf : e.function.value < 0x80 := by
    rw [UInt8.lt_iff_toNat_lt]; rw [UInt8.le_iff_toNat_le] at h2
    have : (0x2B : UInt8).toNat = 43 := rfl
    have : (0x80 : UInt8).toNat = 128 := rfl
    omega
  have hl := tcp_rsp_layout tid uid (.error e) buf hf (by show 2 + 1 < 65536; omega) hb
  have e2 : (ResponsePdu.error e).image = [e.function.value + 0x80, e.exception.val] := rfl
  rw [e2] at hl
  have h9 : (Spec.tcpFrame tid uid [e.function.value + 0x80, e.exception.val]).length = 9 :=
    tcpFrame_length tid uid _
  refine ⟨_, hl, ?_, ?_, tcp_exception_roundtrip tid uid _ _ h1 h2 _, value_new _⟩
  · exact List.take_left' h9
  · rw [List.take_left' h9]
    have := tcp_exception_roundtrip tid uid _ e.exception h1 h2 []
    rwa [List.append_nil] at this

/-- Exception bytes outside the table (0x80, and 0xAC … 0xFF): the lone frame is answered
    'incomplete' — it is not decoded at all, in particular not as a successful response.
    (After the error at offset 0 `tcp::decode` rescans from offsets 1, 2, …, where fewer than
    7 + 2 bytes remain.) -/
theorem tcp_exception_unframeable (tid : UInt16) (uid : UInt8) (f x : UInt8)
    (h : f = 0 ∨ (0x2B < f ∧ f < 0x80)) :
    Tcp.decodeResponse (Spec.tcpFrame tid uid [f + 0x80, x]) = .ok none := by
  have hs := tcp_decodeRsp_unknown tid uid [f + 0x80, x] (f + 0x80) (by simp) rfl (exc_rule_unknown f h)
  unfold Tcp.decodeResponse
  have hne : (Spec.tcpFrame tid uid [f + 0x80, x]).isEmpty = false := rfl
  rw [hne, hs]
  rfl

example : (0x2B : UInt8) < 0x2C ∧ (0x2C : UInt8) < 0x80 := by decide
example : Tcp.decodeResponse (Spec.tcpFrame 1 9 [0x83, Exception.illegalDataAddress.val] ++ [0xFF]) =
    .ok (some (1, 9, .error ⟨.readHoldingRegisters, .illegalDataAddress⟩)) :=
  tcp_exception_roundtrip 1 9 3 .illegalDataAddress (by decide) (by decide) _
example : Tcp.decodeResponse [0x00, 0x01, 0x00, 0x00, 0x00, 0x03, 0x09, 0x83, 0x02] =
    .ok (some (1, 9, .error ⟨.readHoldingRegisters, .illegalDataAddress⟩)) := by decide +kernel
example : Tcp.decodeResponse (Spec.tcpFrame 1 9 [0xAC, 0x02]) = .ok none := by decide +kernel

/-! ### exception frames outside the table, with following bytes -/

/-- the attempt at the front of an MBAP frame whose PDU starts with a function code the response table does
    not list — followed by ANY bytes — is rejected with an error (the predictor looks at byte 7 only) -/
theorem tcp_attemptRsp_unknown (tid : UInt16) (uid : UInt8) (pdu : Bytes) (c : UInt8)
    (h0 : pdu[0]? = some c) (hu : Spec.lenRule .rsp c.toNat = .unknown) (rest : Bytes) :
    ∃ e, Tcp.attemptRsp (Spec.tcpFrame tid uid pdu ++ rest) = .err e := by
  have hpos : 1 ≤ pdu.length := by
    cases pdu with
    | nil => simp at h0
    | cons _ _ => simp
  -- either the header check rejects the candidate, or the predictor does (it looks at byte 7 only)
  rcases Tcp.checkProtocolId_cases (Spec.tcpFrame tid uid pdu ++ rest) with hc | ⟨_, _, hc⟩
  · rw [Tcp.attemptRsp_eq, Tcp.attemptOf_proto_ok _ hc]
    unfold mkAttempt
    rw [tcp_responsePduLen_eq]
    have e := tcpFrame_split tid uid pdu rest
    have : Spec.predict 7 .rsp (Spec.tcpFrame tid uid pdu ++ rest) = .reject := by
      rw [e, predict_shift 7 .rsp _ _ rfl]
      refine predict_reject (c := c) ?_ hu
      rw [List.getElem?_append_left (by omega)]; exact h0
    rw [this]
    exact ⟨_, rfl⟩
  · exact ⟨_, by rw [Tcp.attemptRsp_eq]; exact Tcp.attemptOf_proto_err _ hc⟩

/-- **Exception frames outside the table, followed by ANY bytes.**  `F` = the encoded ADU of an exception
    response for a function value the length table does not list (0, or 0x2C … 0x7F: PDU byte 0x80 or
    0xAC … 0xFF), `rest` arbitrary:

    * the scanner's attempt at offset 0 is an error (the length predictor rejects byte 7);
    * so `tcp::decode` never reports a frame with `start = 0`: whatever it reports starts at an offset
      1 … 255 and is what the attempt produced THERE;
    * so whatever `tcp::server::decode_response` returns for `F ++ rest` — successful response or exception —
      is the PDU of a frame found at a later offset, never the PDU `[f + 0x80, x]` located at offset 0;
    * with nothing following, the answer is 'incomplete' (`tcp_exception_unframeable`).

    NOT covered — and not provable, see `tcp_exception_unframeable_overlap_witness`: that the frame found at
    a later offset does not OVERLAP the bytes of `F`.  The scanner resynchronises byte by byte, so offsets
    1 … 8 are tried with the remaining bytes of `F` as their header; a suitable `rest` completes them to a
    well-formed frame, which is then returned as a successful response. -/
theorem tcp_exception_unframeable_followed (tid : UInt16) (uid : UInt8) (f x : UInt8)
    (h : f = 0 ∨ (0x2B < f ∧ f < 0x80)) (rest : Bytes) :
    (∃ e, Tcp.attemptRsp (Spec.tcpFrame tid uid [f + 0x80, x] ++ rest) = .err e) ∧
    (∀ fr loc, Tcp.decodeRsp (Spec.tcpFrame tid uid [f + 0x80, x] ++ rest) = .ok (some (fr, loc)) →
      1 ≤ loc.start ∧ loc.start < 256 ∧
      Tcp.attemptRsp ((Spec.tcpFrame tid uid [f + 0x80, x] ++ rest).drop loc.start) = .ok (some (fr, loc.size))) ∧
    (∀ t u p, Tcp.decodeResponse (Spec.tcpFrame tid uid [f + 0x80, x] ++ rest) = .ok (some (t, u, p)) →
      ∃ fr loc, Tcp.decodeRsp (Spec.tcpFrame tid uid [f + 0x80, x] ++ rest) = .ok (some (fr, loc)) ∧
        1 ≤ loc.start ∧ t = fr.transactionId ∧ u = fr.unitId ∧ decodeRspPdu fr.pdu = .ok p) ∧
    (rest = [] → Tcp.decodeResponse (Spec.tcpFrame tid uid [f + 0x80, x] ++ rest) = .ok none) := by
  have hatt := tcp_attemptRsp_unknown tid uid [f + 0x80, x] (f + 0x80) rfl (exc_rule_unknown f h) rest
  have hscan : ∀ fr loc, Tcp.decodeRsp (Spec.tcpFrame tid uid [f + 0x80, x] ++ rest) = .ok (some (fr, loc)) →
      1 ≤ loc.start ∧ loc.start < 256 ∧
      Tcp.attemptRsp ((Spec.tcpFrame tid uid [f + 0x80, x] ++ rest).drop loc.start) = .ok (some (fr, loc.size)) := by
    intro fr loc hs
    obtain ⟨h1, _, h3, _⟩ := scan_no_later Tcp.attemptRsp _ fr loc hs
    refine ⟨?_, h1, h3⟩
    rcases Nat.eq_zero_or_pos loc.start with h0 | hp
    · rw [h0, List.drop_zero] at h3
      obtain ⟨e, he⟩ := hatt
      rw [he] at h3; cases h3
    · exact hp
  refine ⟨hatt, hscan, ?_, ?_⟩
  · intro t u p hd
    unfold Tcp.decodeResponse at hd
    have hne : (Spec.tcpFrame tid uid [f + 0x80, x] ++ rest).isEmpty = false :=
      append_ne_nil_of_pos (by rw [tcpFrame_length]; omega) rest
    rw [hne] at hd
    simp only [Bool.false_eq_true, if_false] at hd
    cases hs : Tcp.decodeRsp (Spec.tcpFrame tid uid [f + 0x80, x] ++ rest) with
    | err e => rw [hs] at hd; cases hd
    | panic => rw [hs] at hd; cases hd
    | ok o =>
      cases o with
      | none => rw [hs] at hd; simp at hd
      | some q =>
        obtain ⟨fr, loc⟩ := q
        rw [hs] at hd
        simp only [Res.bind'_ok] at hd
        refine ⟨fr, loc, rfl, (hscan fr loc hs).1, ?_⟩
        unfold decodeRspPdu
        cases hx : ExceptionResponse.decode fr.pdu with
        | ok e =>
          rw [hx] at hd
          simp only [Res.ok.injEq, Option.some.injEq, Prod.mk.injEq] at hd
          obtain ⟨rfl, rfl, rfl⟩ := hd
          exact ⟨rfl, rfl, rfl⟩
        | panic => rw [hx] at hd; cases hd
        | err e =>
          rw [hx] at hd
          simp only at hd
          cases hr : Response.decode fr.pdu with
          | ok r =>
            rw [hr] at hd
            simp only [Res.map_ok, Res.ok.injEq, Option.some.injEq, Prod.mk.injEq] at hd
            obtain ⟨rfl, rfl, rfl⟩ := hd
            exact ⟨rfl, rfl, rfl⟩
          | err e' => rw [hr] at hd; cases hd
          | panic => rw [hr] at hd; cases hd
  · rintro rfl
    rw [List.append_nil]
    exact tcp_exception_unframeable tid uid f x h
/-- what `tcp_exception_unframeable_followed` cannot say: `F` = the frame of the exception PDU `AC 18`
    (transaction 0, unit 0) followed by 766 chosen bytes.  Offset 0 is rejected; at offset 1 the bytes
    `00 00 00 00 03 00 AC 18 02 FC …` ARE a well-formed MBAP frame (transaction 0, protocol 0, length 0x0300,
    unit 0xAC, function 0x18 with count 0x02FC), and `decode_response` returns it as a SUCCESSFUL custom
    response — eight of its bytes are bytes of `F`. -/
theorem tcp_exception_unframeable_overlap_witness :
    Spec.tcpFrame 0 0 [0xAC, 0x18] = [0, 0, 0, 0, 0, 3, 0, 0xAC, 0x18] ∧
    Tcp.decodeResponse (Spec.tcpFrame 0 0 [0xAC, 0x18] ++ ([0x02, 0xFC] ++ List.replicate 764 0)) =
      .ok (some (0, 0xAC, .ok (.custom (.custom 0x18) ([0x02, 0xFC] ++ List.replicate 764 0)))) ∧
    (Tcp.decodeRsp (Spec.tcpFrame 0 0 [0xAC, 0x18] ++ ([0x02, 0xFC] ++ List.replicate 764 0))).map
      (fun o => o.map (fun p => p.2)) = .ok (some ⟨1, 774⟩) := by
  decide +kernel
/-- a well-formed frame AFTER such an exception frame is found (at offset 9), here an exception response -/
example : Tcp.decodeResponse (Spec.tcpFrame 1 9 [0xAC, 0x08] ++ Spec.tcpFrame 0 0 [0x83, 0x02]) =
      .ok (some (0, 0, .error ⟨.readHoldingRegisters, .illegalDataAddress⟩)) ∧
    (Tcp.decodeRsp (Spec.tcpFrame 1 9 [0xAC, 0x08] ++ Spec.tcpFrame 0 0 [0x83, 0x02])).map
      (fun o => o.map (fun p => p.2)) = .ok (some ⟨9, 9⟩) := by
  decide +kernel
end Modbus.C05

import Modbus.Model.Codec
import Modbus.Lemmas.Bytes
import Modbus.Lemmas.Encode
/-
C18 — function-code, exception-code and coil-value tables are exact.
All statements are over finite types; they are proved by case analysis on the table, for every
byte / 16-bit value, not by sampling.
-/
namespace Modbus.C18

/-- converting any byte to a function code and back returns the same byte -/
theorem value_new (b : UInt8) : (FunctionCode.new b).value = b := by
  revert b
  apply byte_cases
  decide +kernel

/-- … also for a code built with the `Custom` constructor -/
theorem value_custom (b : UInt8) : (FunctionCode.custom b).value = b := rfl

/-- the standard Modbus codes map to their named kinds -/
theorem new_standard :
    FunctionCode.new 0x01 = .readCoils ∧ FunctionCode.new 0x02 = .readDiscreteInputs ∧
    FunctionCode.new 0x03 = .readHoldingRegisters ∧ FunctionCode.new 0x04 = .readInputRegisters ∧
    FunctionCode.new 0x05 = .writeSingleCoil ∧ FunctionCode.new 0x06 = .writeSingleRegister ∧
    FunctionCode.new 0x0F = .writeMultipleCoils ∧ FunctionCode.new 0x10 = .writeMultipleRegisters ∧
    FunctionCode.new 0x16 = .maskWriteRegister ∧ FunctionCode.new 0x17 = .readWriteMultipleRegisters ∧
    FunctionCode.new 0x07 = .readExceptionStatus ∧ FunctionCode.new 0x08 = .diagnostics ∧
    FunctionCode.new 0x0B = .getCommEventCounter ∧ FunctionCode.new 0x0C = .getCommEventLog ∧
    FunctionCode.new 0x11 = .reportServerId := by decide

/-- every other byte is a custom code carrying that byte -/
theorem new_other (b : UInt8)
    (h : b ∉ [0x01, 0x02, 0x03, 0x04, 0x05, 0x06, 0x0F, 0x10, 0x16, 0x17, 0x07, 0x08, 0x0B, 0x0C, 0x11]) :
    FunctionCode.new b = .custom b := by
  simp only [List.mem_cons, List.not_mem_nil, or_false, not_or] at h
  simp [FunctionCode.new, h]

/-- the function code derived from a request is the first byte of its encoding
    (every request the encoder accepts, every buffer) -/
theorem req_fc_first_byte (r : Request) (buf : Bytes) (n : Nat) (out : Bytes)
    (h : r.encode buf = .ok (n, out)) : out[0]? = some r.fc.value := by
  have he := Request.encodable_of_ok r buf _ h
  rw [Request.encode_eq r buf he] at h
  split at h
  · simp at h
  · obtain ⟨_, rfl⟩ : n = r.image.length ∧ out = r.image ++ buf.drop r.image.length := by simpa using h.symm
    cases r <;> simp_all [Request.image, Request.fc, FunctionCode.value, Request.Encodable]

/-- the same for responses -/
theorem rsp_fc_first_byte (r : Response) (buf : Bytes) (n : Nat) (out : Bytes)
    (h : r.encode buf = .ok (n, out)) : out[0]? = some r.fc.value := by
  have he := Response.encodable_of_ok r buf _ h
  rw [Response.encode_eq r buf he] at h
  split at h
  · simp at h
  · obtain ⟨_, rfl⟩ : n = r.image.length ∧ out = r.image ++ buf.drop r.image.length := by simpa using h.symm
    cases r <;> simp_all [Response.image, Response.fc, FunctionCode.value, Response.Encodable] <;> (try simp)

/-- the nine defined exception codes -/
def excCodes : List UInt8 := [1, 2, 3, 4, 5, 6, 8, 10, 11]

/-- the table check for one byte, as a computation -/
def excRowOk (b : UInt8) : Bool :=
  match Exception.tryFrom b with
  | .ok k => k.val == b && excCodes.contains b
  | .err e => decide (e = .exceptionCode b) && !excCodes.contains b
  | .panic => false

theorem excRowOk_all (b : UInt8) : excRowOk b = true := by
  revert b
  apply byte_cases
  decide +kernel

/-- exactly the nine defined exception codes are accepted, and each maps back to itself -/
theorem exception_table (b : UInt8) :
    (∀ k, Exception.tryFrom b = .ok k → k.val = b ∧ b ∈ excCodes) ∧
    (b ∈ excCodes → ∃ k, Exception.tryFrom b = .ok k) ∧
    (b ∉ excCodes → Exception.tryFrom b = .err (.exceptionCode b)) ∧
    Exception.tryFrom b ≠ .panic := by
  have h := excRowOk_all b
  unfold excRowOk at h
  cases ht : Exception.tryFrom b with
  | ok k =>
    rw [ht] at h
    simp only [Bool.and_eq_true, beq_iff_eq, List.contains_eq_mem, decide_eq_true_eq] at h
    refine ⟨?_, ?_, ?_, by simp⟩
    · intro k' hk'; cases hk'; exact h
    · intro _; exact ⟨k, rfl⟩
    · intro hn; exact absurd h.2 hn
  | err e =>
    rw [ht] at h
    simp only [Bool.and_eq_true, decide_eq_true_eq, Bool.not_eq_true', List.contains_eq_mem, decide_eq_false_iff_not] at h
    refine ⟨by simp, ?_, ?_, by simp⟩
    · intro hm; exact absurd hm h.2
    · intro _; rw [h.1]
  | panic => rw [ht] at h; simp at h

theorem exception_roundtrip (k : Exception) : Exception.tryFrom k.val = .ok k := by
  cases k <;> rfl

/-- the nine discriminants -/
theorem exception_vals :
    [Exception.illegalFunction, .illegalDataAddress, .illegalDataValue, .serverDeviceFailure, .acknowledge,
      .serverDeviceBusy, .memoryParityError, .gatewayPathUnavailable, .gatewayTargetDevice].map Exception.val
    = [1, 2, 3, 4, 5, 6, 8, 10, 11] := by decide

/-- exactly 0xFF00 and 0x0000 are accepted as coil values, meaning on and off -/
theorem coil_value (v : UInt16) :
    (u16CoilToBool v = .ok true ↔ v = 0xFF00) ∧ (u16CoilToBool v = .ok false ↔ v = 0x0000) ∧
    (v ≠ 0xFF00 → v ≠ 0x0000 → u16CoilToBool v = .err (.coilValue v)) ∧ u16CoilToBool v ≠ .panic := by
  unfold u16CoilToBool
  by_cases h1 : v = 0xFF00
  · subst h1; simp
  · by_cases h2 : v = 0x0000
    · subst h2; simp
    · simp [h1, h2]

theorem bool_to_coil : boolToU16Coil true = 0xFF00 ∧ boolToU16Coil false = 0x0000 := by decide

theorem coil_roundtrip (b : Bool) : u16CoilToBool (boolToU16Coil b) = .ok b := by
  cases b <;> decide

/-! non-vacuity -/
example : (Request.writeMultipleCoils 5 ⟨[0xCD, 0x01], 9⟩).encode (List.replicate 8 0) =
    .ok (8, [0x0F, 0, 5, 0, 9, 2, 0xCD, 0x01]) := by decide

/-! ### the kinds without an encoding (open finding D19) -/

/-- **coverage of `req_fc_first_byte` / `rsp_fc_first_byte`, stated precisely.**  They hold for EVERY
    value for which `encode` succeeds on the buffer given — and a value has a buffer on which `encode`
    succeeds exactly when it is `Encodable` (an implemented kind whose byte count fits its field and
    whose container holds the bytes its count promises). -/
theorem fc_first_byte_coverage :
    (∀ r : Request, (∃ buf n out, r.encode buf = .ok (n, out)) ↔ r.Encodable) ∧
    (∀ r : Response, (∃ buf n out, r.encode buf = .ok (n, out)) ↔ r.Encodable) ∧
    (∀ (r : Request) (buf : Bytes) (n : Nat) (out : Bytes), r.encode buf = .ok (n, out) →
      out[0]? = some r.fc.value) ∧
    (∀ (r : Response) (buf : Bytes) (n : Nat) (out : Bytes), r.encode buf = .ok (n, out) →
      out[0]? = some r.fc.value) := by
  refine ⟨fun r => ⟨?_, ?_⟩, fun r => ⟨?_, ?_⟩, req_fc_first_byte, rsp_fc_first_byte⟩
  · rintro ⟨buf, n, out, h⟩; exact Request.encodable_of_ok r buf _ h
  · intro he
    refine ⟨List.replicate r.image.length 0, r.image.length, r.image ++ (List.replicate r.image.length 0).drop r.image.length, ?_⟩
    rw [Request.encode_eq r _ he, if_neg (by simp)]
  · rintro ⟨buf, n, out, h⟩; exact Response.encodable_of_ok r buf _ h
  · intro he
    refine ⟨List.replicate r.image.length 0, r.image.length, r.image ++ (List.replicate r.image.length 0).drop r.image.length, ?_⟩
    rw [Response.encode_eq r _ he, if_neg (by simp)]

/-- **open finding D19: the nine serial-line-only kinds have a function code but no encoding.**
    `Request::{ReadExceptionStatus, Diagnostics, GetCommEventCounter, GetCommEventLog, ReportServerId}` and
    `Response::{Diagnostics, GetCommEventCounter, GetCommEventLog, ReportServerId}` (every field value):
    `FunctionCode::from` gives the definite code 0x07 / 0x08 / 0x0B / 0x0C / 0x11, while `pdu_len` / `encode` are
    `todo!()` / `unimplemented!()` — `.panic` for EVERY buffer.  So the hypothesis `encode = Ok` of
    `req_fc_first_byte` / `rsp_fc_first_byte` is unsatisfiable for them: the clause "the function code derived
    from any request or response equals the first byte of its encoding" of C18 is proved for every value that
    HAS an encoding (`fc_first_byte_coverage`) and says nothing about these nine, which have none.

    The clause read literally as "every request / response HAS an encoding, and its first byte is the code",
      ∀ r : Request, ∃ buf n out, r.encode buf = .ok (n, out) ∧ out[0]? = some r.fc.value,
    is FALSE for the model of the unedited crate (take `r = Request.readExceptionStatus`: last-but-one clause). -/
theorem unimplemented_kinds_have_code_but_no_encoding :
    (Request.readExceptionStatus.fc = .readExceptionStatus ∧ Request.readExceptionStatus.fc.value = 0x07) ∧
    (∀ s d, (Request.diagnostics s d).fc = .diagnostics ∧ (Request.diagnostics s d).fc.value = 0x08) ∧
    (Request.getCommEventCounter.fc = .getCommEventCounter ∧ Request.getCommEventCounter.fc.value = 0x0B) ∧
    (Request.getCommEventLog.fc = .getCommEventLog ∧ Request.getCommEventLog.fc.value = 0x0C) ∧
    (Request.reportServerId.fc = .reportServerId ∧ Request.reportServerId.fc.value = 0x11) ∧
    (∀ d, (Response.diagnostics d).fc = .diagnostics ∧ (Response.diagnostics d).fc.value = 0x08) ∧
    (∀ s c, (Response.getCommEventCounter s c).fc = .getCommEventCounter ∧
      (Response.getCommEventCounter s c).fc.value = 0x0B) ∧
    (∀ s c m ev, (Response.getCommEventLog s c m ev).fc = .getCommEventLog ∧
      (Response.getCommEventLog s c m ev).fc.value = 0x0C) ∧
    (∀ i run, (Response.reportServerId i run).fc = .reportServerId ∧
      (Response.reportServerId i run).fc.value = 0x11) ∧
    (∀ buf : Bytes,
      Request.readExceptionStatus.encode buf = .panic ∧
      (∀ s d, (Request.diagnostics s d).encode buf = .panic) ∧
      Request.getCommEventCounter.encode buf = .panic ∧
      Request.getCommEventLog.encode buf = .panic ∧
      Request.reportServerId.encode buf = .panic ∧
      (∀ d, (Response.diagnostics d).encode buf = .panic) ∧
      (∀ s c, (Response.getCommEventCounter s c).encode buf = .panic) ∧
      (∀ s c m ev, (Response.getCommEventLog s c m ev).encode buf = .panic) ∧
      (∀ i run, (Response.reportServerId i run).encode buf = .panic)) ∧
    -- … and these are the ONLY values on which `encode` panics whatever the buffer
    (∀ r : Request, (∀ buf, r.encode buf = .panic) ↔
      (r = .readExceptionStatus ∨ (∃ s d, r = .diagnostics s d) ∨ r = .getCommEventCounter ∨
        r = .getCommEventLog ∨ r = .reportServerId)) ∧
    (∀ r : Response, (∀ buf, r.encode buf = .panic) ↔
      ((∃ d, r = .diagnostics d) ∨ (∃ s c, r = .getCommEventCounter s c) ∨
        (∃ s c m ev, r = .getCommEventLog s c m ev) ∨ (∃ i run, r = .reportServerId i run))) := by
  refine ⟨⟨rfl, rfl⟩, fun _ _ => ⟨rfl, rfl⟩, ⟨rfl, rfl⟩, ⟨rfl, rfl⟩, ⟨rfl, rfl⟩, fun _ => ⟨rfl, rfl⟩,
    fun _ _ => ⟨rfl, rfl⟩, fun _ _ _ _ => ⟨rfl, rfl⟩, fun _ _ => ⟨rfl, rfl⟩, fun buf => ?_, fun r => ?_, fun r => ?_⟩
  · exact ⟨rfl, fun _ _ => rfl, rfl, rfl, rfl, fun _ => rfl, fun _ _ => rfl, fun _ _ _ _ => rfl, fun _ _ => rfl⟩
  · constructor
    · intro h
      have h0 := h []
      cases r <;> first
        | (simp [Request.encode, Request.pduLen] at h0; done)
        | (simp [Request.encode, Request.pduLen] at h0; rw [if_pos (by omega)] at h0; cases h0)
        | simp
    · intro h
      rcases h with rfl | ⟨s, d, rfl⟩ | rfl | rfl | rfl <;> intro buf <;> rfl
  · constructor
    · intro h
      have h0 := h []
      cases r <;> first
        | (simp [Response.encode, Response.pduLen] at h0; done)
        | (simp [Response.encode, Response.pduLen] at h0; rw [if_pos (by omega)] at h0; cases h0)
        | simp
    · intro h
      rcases h with ⟨d, rfl⟩ | ⟨s, c, rfl⟩ | ⟨s, c, m, ev, rfl⟩ | ⟨i, run, rfl⟩ <;> intro buf <;> rfl

/-- so no `(n, out)` satisfies the hypothesis of `req_fc_first_byte` / `rsp_fc_first_byte` for them -/
example (buf : Bytes) (n : Nat) (out : Bytes) : Request.readExceptionStatus.encode buf ≠ .ok (n, out) := by
  intro h; cases h
example : Request.readExceptionStatus.encode (List.replicate 8 0) = .panic ∧
    (Response.getCommEventCounter 0xFFFF 8).encode (List.replicate 8 0) = .panic ∧
    (Response.getCommEventCounter 0xFFFF 8).fc.value = 0x0B := by decide +kernel
end Modbus.C18

import Modbus.Model.Codec
/-
C18 — function-code, exception-code and coil-value tables are exact.
All statements are over finite types; they are proved by case analysis on the table, for every
byte / 16-bit value, not by sampling.
-/
namespace Modbus.C18

/-- converting any byte to a function code and back returns the same byte -/
theorem value_new (b : UInt8) : (FunctionCode.new b).value = b := by
  unfold FunctionCode.new
  repeat' split
  all_goals first | rfl | (subst_vars; rfl)

/-- … also for a code built with the `Custom` constructor -/
theorem value_custom (b : UInt8) : (FunctionCode.custom b).value = b := rfl

/-- the standard Modbus codes map to their named kinds -/
theorem new_standard :
    FunctionCode.new 0x01 = .readCoils ∧ FunctionCode.new 0x02 = .readDiscreteInputs ∧
    FunctionCode.new 0x03 = .readHoldingRegisters ∧ FunctionCode.new 0x04 = .readInputRegisters ∧
    FunctionCode.new 0x05 = .writeSingleCoil ∧ FunctionCode.new 0x06 = .writeSingleRegister ∧
    FunctionCode.new 0x0F = .writeMultipleCoils ∧ FunctionCode.new 0x10 = .writeMultipleRegisters ∧
    FunctionCode.new 0x16 = .maskWriteRegister ∧ FunctionCode.new 0x17 = .readWriteMultipleRegisters ∧
    FunctionCode.new 0x07 = .readExceptionStatus ∧ FunctionCode.new 0x08 = .diagnostics ∧
    FunctionCode.new 0x0B = .getCommEventCounter ∧ FunctionCode.new 0x0C = .getCommEventLog ∧
    FunctionCode.new 0x11 = .reportServerId := by decide

/-- every other byte is a custom code carrying that byte -/
theorem new_other (b : UInt8)
    (h : b ∉ [0x01, 0x02, 0x03, 0x04, 0x05, 0x06, 0x0F, 0x10, 0x16, 0x17, 0x07, 0x08, 0x0B, 0x0C, 0x11]) :
    FunctionCode.new b = .custom b := by
  simp only [List.mem_cons, List.not_mem_nil, or_false, not_or] at h
  simp [FunctionCode.new, h]

/-- the function code derived from a request is the first byte of its encoding (every encodable kind, every buffer) -/
theorem req_fc_first_byte (r : Request) (buf : Bytes) (n : Nat) (out : Bytes)
    (h : r.encode buf = .ok (n, out)) : out[0]? = some r.fc.value := by
  sorry

end Modbus.C18

import Modbus.Props.C14
import Modbus.Lemmas.Reception3
import Modbus.Lemmas.Total
/-
C14, clauses 1 and 2, for well-formed frames — composition of C14 (scan loop) with C10 (a well-formed
frame is found by the attempt).

`Props/C14.lean` states clause 1 (`*_found`, `*_resync`) with the hypothesis "the attempt on
`frame ++ rest` returns the frame", and clause 2 (`*_not_after`) with the hypothesis "the attempt at
offset `d` is not an error".  `Lemmas/Reception3.lean` (C10) proves `Reception.Good scanner frame x`
for every well-formed frame of the four scanners; `Good.whole` says the scanner reports
`(x, ⟨0, frame.length⟩)` on `frame ++ rest` for every `rest`, and by `scan_no_later` that is the
attempt's answer.  Here the two are put together, so the hypotheses mention only well-formedness
(`Spec.PduComplete`, `Spec.rtuFrame`, `Spec.tcpFrame`):

* clause 1 — `*_resync_wf` (every noise offset rejected in context) and `*_resync_bytes` (hypothesis on
  the noise bytes only): up to 255 noise bytes, then a well-formed frame, then anything ⇒ exactly that
  frame, `start = noise.length`, `size = frame.length`;
* clause 2 — `*_never_later`: a well-formed frame starts at offset `d` of `buf` ⇒ any reported frame has
  `start ≤ d`, and if `start = d` it is that frame with its full size.  (No bound on `d` is needed for this
  half: a reported frame has every earlier offset rejected, and offset `d` is not rejected.)
* what the scanner does report when `d ≤ 255` — `*_outcome`: there is a first non-rejected offset
  `s ≤ d`; the result is the attempt's answer at `s` placed at `s`; it is never an error, never a panic;
  `*_reports_or_incomplete`: it is a frame with `start ≤ d`, or it is `ok none`, and
  `*_none_iff`: it is `ok none` **exactly** when some offset `s < d`, all offsets before which are rejected,
  is answered 'incomplete' by the attempt (bytes before the frame that look like the beginning of a longer
  frame: the scanner waits for more input — faithful to the crate, see the last example of `Props/C14.lean`).
  `*_reports`: if no offset before `d` is answered 'incomplete', a frame with `start ≤ d` is reported.

All four scanners; `Rtu.decodeReq` as `…_partial`: function codes 0x0F / 0x10 excluded (open finding D4,
`rtu::request_pdu_len` reads the wrong count byte, see `Reception.rtu_req_good_partial`).
-/
namespace Modbus.C14Full
open Modbus.Reception (Good)

/-! ### generic in the attempt -/

section Generic
variable {F : Type}

/-- what `Good` says about the attempt: on the frame followed by anything it returns the frame, with
the frame's full length as size -/
theorem good_attempt (att : Attempt F) {f : Bytes} {x : F} (g : Good (scan att) f x) (rest : Bytes) :
    att (f ++ rest) = .ok (some (x, f.length)) := by
  have h := (scan_no_later att (f ++ rest) x ⟨0, f.length⟩ (g.whole rest)).2.2.1
  simpa using h

/-- a `Good` frame of a scan loop has at least two bytes (a single byte is never examined) -/
theorem good_two (att : Attempt F) {f : Bytes} {x : F} (g : Good (scan att) f x) : 2 ≤ f.length := by
  have h := (scan_no_later att (f ++ []) x ⟨0, f.length⟩ (g.whole [])).2.1
  simp only [List.append_nil] at h
  omega

/-- clause 1 for a `Good` frame: the attempt fact of `scan_found` is discharged -/
theorem scan_found_good (att : Attempt F) {frame : Bytes} {x : F} (g : Good (scan att) frame x)
    (noise rest : Bytes) (hn : noise.length ≤ 255)
    (herr : ∀ i, i < noise.length → (att ((noise ++ frame ++ rest).drop i)).isErr = true) :
    scan att (noise ++ frame ++ rest) = .ok (some (x, ⟨noise.length, frame.length⟩)) :=
  scan_found att noise frame rest x hn (good_two att g) herr (good_attempt att g rest)

/-- clause 2 for a `Good` frame starting at offset `d`: a reported frame does not start after `d`;
if it starts at `d` it is that frame, full size -/
theorem scan_never_later (att : Attempt F) {frame : Bytes} {x : F} (g : Good (scan att) frame x)
    (buf rest : Bytes) (d : Nat) (hdrop : buf.drop d = frame ++ rest)
    (y : F) (loc : Loc) (h : scan att buf = .ok (some (y, loc))) :
    loc.start ≤ d ∧ (loc.start = d → y = x ∧ loc.size = frame.length) := by
  have hatt : att (buf.drop d) = .ok (some (x, frame.length)) := by rw [hdrop]; exact good_attempt att g rest
  refine ⟨scan_not_after att buf y loc d h (by rw [hatt]; exact Res.not_isErr_ok _), ?_⟩
  intro hs
  have h3 := (scan_no_later att buf y loc h).2.2.1
  rw [hs, hatt] at h3
  simp only [Res.ok.injEq, Option.some.injEq, Prod.mk.injEq] at h3
  exact ⟨h3.1.symm, h3.2.symm⟩

/-- what the scanner answers when a `Good` frame starts at an offset `d ≤ 255`: the first
non-rejected offset `s` exists and is `≤ d`; the answer is the attempt's answer there, placed at `s`;
if `s = d` it is the frame at `⟨d, frame.length⟩` -/
theorem scan_outcome (att : Attempt F) {frame : Bytes} {x : F} (g : Good (scan att) frame x)
    (buf rest : Bytes) (d : Nat) (hdrop : buf.drop d = frame ++ rest) (hd : d < 256) :
    ∃ s, s ≤ d ∧ s + 1 < buf.length ∧ (∀ i, i < s → (att (buf.drop i)).isErr = true) ∧
      ¬ (att (buf.drop s)).isErr = true ∧
      scan att buf = Attempt.place s (att (buf.drop s)) ∧
      (s = d → scan att buf = .ok (some (x, ⟨d, frame.length⟩))) := by
  have h2 := good_two att g
  have hatt : att (buf.drop d) = .ok (some (x, frame.length)) := by rw [hdrop]; exact good_attempt att g rest
  have hne : ¬ (att (buf.drop d)).isErr = true := by rw [hatt]; exact Res.not_isErr_ok _
  have hlen : d + 1 < buf.length := by
    have := congrArg List.length hdrop
    rw [List.length_drop, List.length_append] at this
    omega
  have hb : buf ≠ [] := by intro hnil; subst hnil; simp at hlen
  rcases scan_spec att buf hb with ⟨s, h1, h2', h3, h4, h5⟩ | ⟨h1, _⟩
  · have hsd : s ≤ d := by
      rcases Nat.lt_or_ge d s with hlt | hge
      · exact absurd (h3 d hlt) hne
      · exact hge
    refine ⟨s, hsd, h2', h3, h4, h5, ?_⟩
    intro hs
    subst hs
    rw [h5, hatt]; rfl
  · exact absurd (h1 d (by omega) hlen) hne

/-- … in particular the answer is never an error: a receiver is never told to discard such a buffer -/
theorem scan_not_err (att : Attempt F) {frame : Bytes} {x : F} (g : Good (scan att) frame x)
    (buf rest : Bytes) (d : Nat) (hdrop : buf.drop d = frame ++ rest) (hd : d < 256) :
    ¬ (scan att buf).isErr = true := by
  obtain ⟨s, _, _, _, h4, h5, _⟩ := scan_outcome att g buf rest d hdrop hd
  rw [h5, Attempt.place_isErr]; exact h4

/-- the answer is 'incomplete' exactly when an offset before the frame, all offsets before which are
rejected, is answered 'incomplete' by the attempt -/
theorem scan_none_iff (att : Attempt F) {frame : Bytes} {x : F} (g : Good (scan att) frame x)
    (buf rest : Bytes) (d : Nat) (hdrop : buf.drop d = frame ++ rest) (hd : d < 256) :
    scan att buf = .ok none ↔
      ∃ s, s < d ∧ (∀ i, i < s → (att (buf.drop i)).isErr = true) ∧ att (buf.drop s) = .ok none := by
  obtain ⟨s, h1, h2, h3, h4, h5, h6⟩ := scan_outcome att g buf rest d hdrop hd
  constructor
  · intro h
    have hsd : s < d := by
      rcases Nat.lt_or_ge s d with hlt | hge
      · exact hlt
      · have : s = d := by omega
        rw [h6 this] at h; simp at h
    refine ⟨s, hsd, h3, ?_⟩
    rw [h5] at h
    cases hatt : att (buf.drop s) with
    | ok a =>
      cases a with
      | none => rfl
      | some p => cases p; rw [hatt] at h; simp [Attempt.place] at h
    | panic => rw [hatt] at h; simp [Attempt.place] at h
    | err e => rw [hatt] at h; simp [Attempt.place] at h
  · rintro ⟨s', hs', herr', hnone⟩
    have hne' : ¬ (att (buf.drop s')).isErr = true := by rw [hnone]; exact Res.not_isErr_ok _
    have : s = s' := scan_first_unique att buf s s' h3 h4 herr' hne'
    subst this
    rw [h5, hnone]; rfl

/-- for an attempt that never panics: a frame with `start ≤ d` is reported, or the answer is 'incomplete' -/
theorem scan_reports_or_incomplete (att : Attempt F) (hnp : ∀ raw, att raw ≠ .panic)
    {frame : Bytes} {x : F} (g : Good (scan att) frame x)
    (buf rest : Bytes) (d : Nat) (hdrop : buf.drop d = frame ++ rest) (hd : d < 256) :
    (∃ y loc, scan att buf = .ok (some (y, loc)) ∧ loc.start ≤ d ∧
        (loc.start = d → y = x ∧ loc.size = frame.length)) ∨
    scan att buf = .ok none := by
  obtain ⟨s, h1, h2, h3, h4, h5, h6⟩ := scan_outcome att g buf rest d hdrop hd
  cases hatt : att (buf.drop s) with
  | ok a =>
    cases a with
    | none => right; rw [h5, hatt]; rfl
    | some p =>
      obtain ⟨y, sz⟩ := p
      left
      have hs : scan att buf = .ok (some (y, ⟨s, sz⟩)) := by rw [h5, hatt]; rfl
      exact ⟨y, ⟨s, sz⟩, hs, h1, (scan_never_later att g buf rest d hdrop y ⟨s, sz⟩ hs).2⟩
  | panic => exact absurd hatt (hnp _)
  | err e => rw [hatt] at h4; exact absurd rfl h4

/-- for an attempt that never panics: if no offset before the frame is answered 'incomplete', a frame
with `start ≤ d` is reported -/
theorem scan_reports (att : Attempt F) (hnp : ∀ raw, att raw ≠ .panic)
    {frame : Bytes} {x : F} (g : Good (scan att) frame x)
    (buf rest : Bytes) (d : Nat) (hdrop : buf.drop d = frame ++ rest) (hd : d < 256)
    (hinc : ∀ i, i < d → att (buf.drop i) ≠ .ok none) :
    ∃ y loc, scan att buf = .ok (some (y, loc)) ∧ loc.start ≤ d ∧
      (loc.start = d → y = x ∧ loc.size = frame.length) := by
  rcases scan_reports_or_incomplete att hnp g buf rest d hdrop hd with h | h
  · exact h
  · obtain ⟨s, hs, _, hnone⟩ := (scan_none_iff att g buf rest d hdrop hd).1 h
    exact absurd hnone (hinc s hs)

end Generic

/-! ### `tcp::decode(Request, buf)` -/

/-- C10's fact about the attempt: a well-formed frame followed by anything is returned, full length -/
theorem tcp_req_attempt_wf (tid : UInt16) (uid : UInt8) (pdu : Bytes)
    (hc : Spec.PduComplete .req pdu) (hn : pdu.length + 1 < 65536) (rest : Bytes) :
    Tcp.attemptReq (Spec.tcpFrame tid uid pdu ++ rest) = .ok (some ((⟨tid, uid, pdu⟩ : Tcp.Frame), (Spec.tcpFrame tid uid pdu).length)) :=
  good_attempt Tcp.attemptReq (Reception.tcp_req_good tid uid pdu hc hn) rest

/-- **clause 1, well-formed frame**: up to 255 noise bytes every offset of which is rejected in context,
then a well-formed frame, then anything ⇒ exactly that frame with `start = noise.length` -/
theorem tcp_req_resync_wf (tid : UInt16) (uid : UInt8) (pdu : Bytes)
    (hc : Spec.PduComplete .req pdu) (hn : pdu.length + 1 < 65536) (noise rest : Bytes)
    (hnl : noise.length ≤ 255)
    (herr : ∀ i, i < noise.length →
      (Tcp.attemptReq ((noise ++ Spec.tcpFrame tid uid pdu ++ rest).drop i)).isErr = true) :
    Tcp.decodeReq (noise ++ Spec.tcpFrame tid uid pdu ++ rest)
      = .ok (some ((⟨tid, uid, pdu⟩ : Tcp.Frame), ⟨noise.length, (Spec.tcpFrame tid uid pdu).length⟩)) :=
  scan_found_good Tcp.attemptReq (Reception.tcp_req_good tid uid pdu hc hn) noise rest hnl herr

/-- clause 1 with a hypothesis on the bytes only: every noise byte from the eighth on, and the frame's seven MBAP header bytes, are not known function codes -/
theorem tcp_req_resync_bytes (tid : UInt16) (uid : UInt8) (pdu : Bytes)
    (hc : Spec.PduComplete .req pdu) (hn : pdu.length + 1 < 65536) (noise rest : Bytes)
    (hnl : noise.length ≤ 255)
    (hnoise : ∀ c, c ∈ (noise ++ (Spec.tcpFrame tid uid pdu).take 7).drop 7 → C14.reqKnown c = false) :
    Tcp.decodeReq (noise ++ Spec.tcpFrame tid uid pdu ++ rest)
      = .ok (some ((⟨tid, uid, pdu⟩ : Tcp.Frame), ⟨noise.length, (Spec.tcpFrame tid uid pdu).length⟩)) :=
  C14.tcp_req_resync noise _ rest _ hnl hnoise (tcp_req_attempt_wf tid uid pdu hc hn rest)

/-- **clause 2, well-formed frame**: a well-formed frame starts at offset `d` of `buf` (followed by
anything) ⇒ a frame reported by the scanner does not start after `d`; if it starts at `d` it is that
frame with its full size.  No bound on `d`, none on `buf` -/
theorem tcp_req_never_later (tid : UInt16) (uid : UInt8) (pdu : Bytes)
    (hc : Spec.PduComplete .req pdu) (hn : pdu.length + 1 < 65536) (buf rest : Bytes) (d : Nat)
    (hdrop : buf.drop d = Spec.tcpFrame tid uid pdu ++ rest)
    (f : Tcp.Frame) (loc : Loc) (h : Tcp.decodeReq buf = .ok (some (f, loc))) :
    loc.start ≤ d ∧ (loc.start = d → f = (⟨tid, uid, pdu⟩ : Tcp.Frame) ∧ loc.size = (Spec.tcpFrame tid uid pdu).length) :=
  scan_never_later Tcp.attemptReq (Reception.tcp_req_good tid uid pdu hc hn) buf rest d hdrop f loc h

/-- what the scanner answers when a well-formed frame starts at offset `d ≤ 255`: a first non-rejected
offset `s ≤ d` exists; the answer is the attempt's answer at `s`, placed at `s`; for `s = d` it is the
frame at `⟨d, frame.length⟩` -/
theorem tcp_req_outcome (tid : UInt16) (uid : UInt8) (pdu : Bytes)
    (hc : Spec.PduComplete .req pdu) (hn : pdu.length + 1 < 65536) (buf rest : Bytes) (d : Nat)
    (hdrop : buf.drop d = Spec.tcpFrame tid uid pdu ++ rest) (hd : d < 256) :
    ∃ s, s ≤ d ∧ s + 1 < buf.length ∧ (∀ i, i < s → (Tcp.attemptReq (buf.drop i)).isErr = true) ∧
      ¬ (Tcp.attemptReq (buf.drop s)).isErr = true ∧
      Tcp.decodeReq buf = Attempt.place s (Tcp.attemptReq (buf.drop s)) ∧
      (s = d → Tcp.decodeReq buf = .ok (some ((⟨tid, uid, pdu⟩ : Tcp.Frame), ⟨d, (Spec.tcpFrame tid uid pdu).length⟩))) :=
  scan_outcome Tcp.attemptReq (Reception.tcp_req_good tid uid pdu hc hn) buf rest d hdrop hd

/-- … never an error, never a panic -/
theorem tcp_req_not_err (tid : UInt16) (uid : UInt8) (pdu : Bytes)
    (hc : Spec.PduComplete .req pdu) (hn : pdu.length + 1 < 65536) (buf rest : Bytes) (d : Nat)
    (hdrop : buf.drop d = Spec.tcpFrame tid uid pdu ++ rest) (hd : d < 256) :
    ¬ (Tcp.decodeReq buf).isErr = true ∧ Tcp.decodeReq buf ≠ .panic :=
  ⟨scan_not_err Tcp.attemptReq (Reception.tcp_req_good tid uid pdu hc hn) buf rest d hdrop hd,
    Total.scan_ne_panic Tcp.attemptReq buf Total.Tcp.attemptReq_ne_panic⟩

/-- … 'incomplete' **exactly** when an offset before the frame, all offsets before which are rejected, is
answered 'incomplete' by the attempt (bytes that look like the beginning of a longer frame) -/
theorem tcp_req_none_iff (tid : UInt16) (uid : UInt8) (pdu : Bytes)
    (hc : Spec.PduComplete .req pdu) (hn : pdu.length + 1 < 65536) (buf rest : Bytes) (d : Nat)
    (hdrop : buf.drop d = Spec.tcpFrame tid uid pdu ++ rest) (hd : d < 256) :
    Tcp.decodeReq buf = .ok none ↔
      ∃ s, s < d ∧ (∀ i, i < s → (Tcp.attemptReq (buf.drop i)).isErr = true) ∧
        Tcp.attemptReq (buf.drop s) = .ok none :=
  scan_none_iff Tcp.attemptReq (Reception.tcp_req_good tid uid pdu hc hn) buf rest d hdrop hd

/-- **the scanner does report**: a frame with `start ≤ d` (that frame if `start = d`), or 'incomplete' —
the latter only in the situation of `tcp_req_none_iff` -/
theorem tcp_req_reports_or_incomplete (tid : UInt16) (uid : UInt8) (pdu : Bytes)
    (hc : Spec.PduComplete .req pdu) (hn : pdu.length + 1 < 65536) (buf rest : Bytes) (d : Nat)
    (hdrop : buf.drop d = Spec.tcpFrame tid uid pdu ++ rest) (hd : d < 256) :
    (∃ f loc, Tcp.decodeReq buf = .ok (some (f, loc)) ∧ loc.start ≤ d ∧
        (loc.start = d → f = (⟨tid, uid, pdu⟩ : Tcp.Frame) ∧ loc.size = (Spec.tcpFrame tid uid pdu).length)) ∨
    Tcp.decodeReq buf = .ok none :=
  scan_reports_or_incomplete Tcp.attemptReq Total.Tcp.attemptReq_ne_panic (Reception.tcp_req_good tid uid pdu hc hn) buf rest d hdrop hd

/-- if no offset before the frame is answered 'incomplete', some frame with `start ≤ d` is reported -/
theorem tcp_req_reports (tid : UInt16) (uid : UInt8) (pdu : Bytes)
    (hc : Spec.PduComplete .req pdu) (hn : pdu.length + 1 < 65536) (buf rest : Bytes) (d : Nat)
    (hdrop : buf.drop d = Spec.tcpFrame tid uid pdu ++ rest) (hd : d < 256)
    (hinc : ∀ i, i < d → Tcp.attemptReq (buf.drop i) ≠ .ok none) :
    ∃ f loc, Tcp.decodeReq buf = .ok (some (f, loc)) ∧ loc.start ≤ d ∧
      (loc.start = d → f = (⟨tid, uid, pdu⟩ : Tcp.Frame) ∧ loc.size = (Spec.tcpFrame tid uid pdu).length) :=
  scan_reports Tcp.attemptReq Total.Tcp.attemptReq_ne_panic (Reception.tcp_req_good tid uid pdu hc hn) buf rest d hdrop hd hinc

/-! ### `tcp::decode(Response, buf)` -/

/-- C10's fact about the attempt: a well-formed frame followed by anything is returned, full length -/
theorem tcp_rsp_attempt_wf (tid : UInt16) (uid : UInt8) (pdu : Bytes)
    (hc : Spec.PduComplete .rsp pdu) (hn : pdu.length + 1 < 65536) (rest : Bytes) :
    Tcp.attemptRsp (Spec.tcpFrame tid uid pdu ++ rest) = .ok (some ((⟨tid, uid, pdu⟩ : Tcp.Frame), (Spec.tcpFrame tid uid pdu).length)) :=
  good_attempt Tcp.attemptRsp (Reception.tcp_rsp_good tid uid pdu hc hn) rest

/-- **clause 1, well-formed frame**: up to 255 noise bytes every offset of which is rejected in context,
then a well-formed frame, then anything ⇒ exactly that frame with `start = noise.length` -/
theorem tcp_rsp_resync_wf (tid : UInt16) (uid : UInt8) (pdu : Bytes)
    (hc : Spec.PduComplete .rsp pdu) (hn : pdu.length + 1 < 65536) (noise rest : Bytes)
    (hnl : noise.length ≤ 255)
    (herr : ∀ i, i < noise.length →
      (Tcp.attemptRsp ((noise ++ Spec.tcpFrame tid uid pdu ++ rest).drop i)).isErr = true) :
    Tcp.decodeRsp (noise ++ Spec.tcpFrame tid uid pdu ++ rest)
      = .ok (some ((⟨tid, uid, pdu⟩ : Tcp.Frame), ⟨noise.length, (Spec.tcpFrame tid uid pdu).length⟩)) :=
  scan_found_good Tcp.attemptRsp (Reception.tcp_rsp_good tid uid pdu hc hn) noise rest hnl herr

/-- clause 1 with a hypothesis on the bytes only: every noise byte from the eighth on, and the frame's seven MBAP header bytes, are not known function codes -/
theorem tcp_rsp_resync_bytes (tid : UInt16) (uid : UInt8) (pdu : Bytes)
    (hc : Spec.PduComplete .rsp pdu) (hn : pdu.length + 1 < 65536) (noise rest : Bytes)
    (hnl : noise.length ≤ 255)
    (hnoise : ∀ c, c ∈ (noise ++ (Spec.tcpFrame tid uid pdu).take 7).drop 7 → C14.rspKnown c = false) :
    Tcp.decodeRsp (noise ++ Spec.tcpFrame tid uid pdu ++ rest)
      = .ok (some ((⟨tid, uid, pdu⟩ : Tcp.Frame), ⟨noise.length, (Spec.tcpFrame tid uid pdu).length⟩)) :=
  C14.tcp_rsp_resync noise _ rest _ hnl hnoise (tcp_rsp_attempt_wf tid uid pdu hc hn rest)

/-- **clause 2, well-formed frame**: a well-formed frame starts at offset `d` of `buf` (followed by
anything) ⇒ a frame reported by the scanner does not start after `d`; if it starts at `d` it is that
frame with its full size.  No bound on `d`, none on `buf` -/
theorem tcp_rsp_never_later (tid : UInt16) (uid : UInt8) (pdu : Bytes)
    (hc : Spec.PduComplete .rsp pdu) (hn : pdu.length + 1 < 65536) (buf rest : Bytes) (d : Nat)
    (hdrop : buf.drop d = Spec.tcpFrame tid uid pdu ++ rest)
    (f : Tcp.Frame) (loc : Loc) (h : Tcp.decodeRsp buf = .ok (some (f, loc))) :
    loc.start ≤ d ∧ (loc.start = d → f = (⟨tid, uid, pdu⟩ : Tcp.Frame) ∧ loc.size = (Spec.tcpFrame tid uid pdu).length) :=
  scan_never_later Tcp.attemptRsp (Reception.tcp_rsp_good tid uid pdu hc hn) buf rest d hdrop f loc h

/-- what the scanner answers when a well-formed frame starts at offset `d ≤ 255`: a first non-rejected
offset `s ≤ d` exists; the answer is the attempt's answer at `s`, placed at `s`; for `s = d` it is the
frame at `⟨d, frame.length⟩` -/
theorem tcp_rsp_outcome (tid : UInt16) (uid : UInt8) (pdu : Bytes)
    (hc : Spec.PduComplete .rsp pdu) (hn : pdu.length + 1 < 65536) (buf rest : Bytes) (d : Nat)
    (hdrop : buf.drop d = Spec.tcpFrame tid uid pdu ++ rest) (hd : d < 256) :
    ∃ s, s ≤ d ∧ s + 1 < buf.length ∧ (∀ i, i < s → (Tcp.attemptRsp (buf.drop i)).isErr = true) ∧
      ¬ (Tcp.attemptRsp (buf.drop s)).isErr = true ∧
      Tcp.decodeRsp buf = Attempt.place s (Tcp.attemptRsp (buf.drop s)) ∧
      (s = d → Tcp.decodeRsp buf = .ok (some ((⟨tid, uid, pdu⟩ : Tcp.Frame), ⟨d, (Spec.tcpFrame tid uid pdu).length⟩))) :=
  scan_outcome Tcp.attemptRsp (Reception.tcp_rsp_good tid uid pdu hc hn) buf rest d hdrop hd

/-- … never an error, never a panic -/
theorem tcp_rsp_not_err (tid : UInt16) (uid : UInt8) (pdu : Bytes)
    (hc : Spec.PduComplete .rsp pdu) (hn : pdu.length + 1 < 65536) (buf rest : Bytes) (d : Nat)
    (hdrop : buf.drop d = Spec.tcpFrame tid uid pdu ++ rest) (hd : d < 256) :
    ¬ (Tcp.decodeRsp buf).isErr = true ∧ Tcp.decodeRsp buf ≠ .panic :=
  ⟨scan_not_err Tcp.attemptRsp (Reception.tcp_rsp_good tid uid pdu hc hn) buf rest d hdrop hd,
    Total.scan_ne_panic Tcp.attemptRsp buf Total.Tcp.attemptRsp_ne_panic⟩

/-- … 'incomplete' **exactly** when an offset before the frame, all offsets before which are rejected, is
answered 'incomplete' by the attempt (bytes that look like the beginning of a longer frame) -/
theorem tcp_rsp_none_iff (tid : UInt16) (uid : UInt8) (pdu : Bytes)
    (hc : Spec.PduComplete .rsp pdu) (hn : pdu.length + 1 < 65536) (buf rest : Bytes) (d : Nat)
    (hdrop : buf.drop d = Spec.tcpFrame tid uid pdu ++ rest) (hd : d < 256) :
    Tcp.decodeRsp buf = .ok none ↔
      ∃ s, s < d ∧ (∀ i, i < s → (Tcp.attemptRsp (buf.drop i)).isErr = true) ∧
        Tcp.attemptRsp (buf.drop s) = .ok none :=
  scan_none_iff Tcp.attemptRsp (Reception.tcp_rsp_good tid uid pdu hc hn) buf rest d hdrop hd

/-- **the scanner does report**: a frame with `start ≤ d` (that frame if `start = d`), or 'incomplete' —
the latter only in the situation of `tcp_rsp_none_iff` -/
theorem tcp_rsp_reports_or_incomplete (tid : UInt16) (uid : UInt8) (pdu : Bytes)
    (hc : Spec.PduComplete .rsp pdu) (hn : pdu.length + 1 < 65536) (buf rest : Bytes) (d : Nat)
    (hdrop : buf.drop d = Spec.tcpFrame tid uid pdu ++ rest) (hd : d < 256) :
    (∃ f loc, Tcp.decodeRsp buf = .ok (some (f, loc)) ∧ loc.start ≤ d ∧
        (loc.start = d → f = (⟨tid, uid, pdu⟩ : Tcp.Frame) ∧ loc.size = (Spec.tcpFrame tid uid pdu).length)) ∨
    Tcp.decodeRsp buf = .ok none :=
  scan_reports_or_incomplete Tcp.attemptRsp Total.Tcp.attemptRsp_ne_panic (Reception.tcp_rsp_good tid uid pdu hc hn) buf rest d hdrop hd

/-- if no offset before the frame is answered 'incomplete', some frame with `start ≤ d` is reported -/
theorem tcp_rsp_reports (tid : UInt16) (uid : UInt8) (pdu : Bytes)
    (hc : Spec.PduComplete .rsp pdu) (hn : pdu.length + 1 < 65536) (buf rest : Bytes) (d : Nat)
    (hdrop : buf.drop d = Spec.tcpFrame tid uid pdu ++ rest) (hd : d < 256)
    (hinc : ∀ i, i < d → Tcp.attemptRsp (buf.drop i) ≠ .ok none) :
    ∃ f loc, Tcp.decodeRsp buf = .ok (some (f, loc)) ∧ loc.start ≤ d ∧
      (loc.start = d → f = (⟨tid, uid, pdu⟩ : Tcp.Frame) ∧ loc.size = (Spec.tcpFrame tid uid pdu).length) :=
  scan_reports Tcp.attemptRsp Total.Tcp.attemptRsp_ne_panic (Reception.tcp_rsp_good tid uid pdu hc hn) buf rest d hdrop hd hinc

/-! ### `rtu::decode(Response, buf)` -/

/-- C10's fact about the attempt: a well-formed frame followed by anything is returned, full length -/
theorem rtu_rsp_attempt_wf (slave : UInt8) (pdu : Bytes) (hc : Spec.PduComplete .rsp pdu) (rest : Bytes) :
    Rtu.attemptRsp (Spec.rtuFrame slave pdu ++ rest) = .ok (some ((⟨slave, pdu⟩ : Rtu.Frame), (Spec.rtuFrame slave pdu).length)) :=
  good_attempt Rtu.attemptRsp (Reception.rtu_rsp_good slave pdu hc) rest

/-- **clause 1, well-formed frame**: up to 255 noise bytes every offset of which is rejected in context,
then a well-formed frame, then anything ⇒ exactly that frame with `start = noise.length` -/
theorem rtu_rsp_resync_wf (slave : UInt8) (pdu : Bytes) (hc : Spec.PduComplete .rsp pdu) (noise rest : Bytes)
    (hnl : noise.length ≤ 255)
    (herr : ∀ i, i < noise.length →
      (Rtu.attemptRsp ((noise ++ Spec.rtuFrame slave pdu ++ rest).drop i)).isErr = true) :
    Rtu.decodeRsp (noise ++ Spec.rtuFrame slave pdu ++ rest)
      = .ok (some ((⟨slave, pdu⟩ : Rtu.Frame), ⟨noise.length, (Spec.rtuFrame slave pdu).length⟩)) :=
  scan_found_good Rtu.attemptRsp (Reception.rtu_rsp_good slave pdu hc) noise rest hnl herr

/-- clause 1 with a hypothesis on the bytes only: every noise byte but the first, and the frame's slave id, is not a known function code -/
theorem rtu_rsp_resync_bytes (slave : UInt8) (pdu : Bytes) (hc : Spec.PduComplete .rsp pdu) (noise rest : Bytes)
    (hnl : noise.length ≤ 255)
    (hnoise : ∀ c, c ∈ (noise ++ (Spec.rtuFrame slave pdu).take 1).drop 1 → C14.rspKnown c = false) :
    Rtu.decodeRsp (noise ++ Spec.rtuFrame slave pdu ++ rest)
      = .ok (some ((⟨slave, pdu⟩ : Rtu.Frame), ⟨noise.length, (Spec.rtuFrame slave pdu).length⟩)) :=
  C14.rtu_rsp_resync noise _ rest _ hnl hnoise (rtu_rsp_attempt_wf slave pdu hc rest)

/-- **clause 2, well-formed frame**: a well-formed frame starts at offset `d` of `buf` (followed by
anything) ⇒ a frame reported by the scanner does not start after `d`; if it starts at `d` it is that
frame with its full size.  No bound on `d`, none on `buf` -/
theorem rtu_rsp_never_later (slave : UInt8) (pdu : Bytes) (hc : Spec.PduComplete .rsp pdu) (buf rest : Bytes) (d : Nat)
    (hdrop : buf.drop d = Spec.rtuFrame slave pdu ++ rest)
    (f : Rtu.Frame) (loc : Loc) (h : Rtu.decodeRsp buf = .ok (some (f, loc))) :
    loc.start ≤ d ∧ (loc.start = d → f = (⟨slave, pdu⟩ : Rtu.Frame) ∧ loc.size = (Spec.rtuFrame slave pdu).length) :=
  scan_never_later Rtu.attemptRsp (Reception.rtu_rsp_good slave pdu hc) buf rest d hdrop f loc h

/-- what the scanner answers when a well-formed frame starts at offset `d ≤ 255`: a first non-rejected
offset `s ≤ d` exists; the answer is the attempt's answer at `s`, placed at `s`; for `s = d` it is the
frame at `⟨d, frame.length⟩` -/
theorem rtu_rsp_outcome (slave : UInt8) (pdu : Bytes) (hc : Spec.PduComplete .rsp pdu) (buf rest : Bytes) (d : Nat)
    (hdrop : buf.drop d = Spec.rtuFrame slave pdu ++ rest) (hd : d < 256) :
    ∃ s, s ≤ d ∧ s + 1 < buf.length ∧ (∀ i, i < s → (Rtu.attemptRsp (buf.drop i)).isErr = true) ∧
      ¬ (Rtu.attemptRsp (buf.drop s)).isErr = true ∧
      Rtu.decodeRsp buf = Attempt.place s (Rtu.attemptRsp (buf.drop s)) ∧
      (s = d → Rtu.decodeRsp buf = .ok (some ((⟨slave, pdu⟩ : Rtu.Frame), ⟨d, (Spec.rtuFrame slave pdu).length⟩))) :=
  scan_outcome Rtu.attemptRsp (Reception.rtu_rsp_good slave pdu hc) buf rest d hdrop hd

/-- … never an error, never a panic -/
theorem rtu_rsp_not_err (slave : UInt8) (pdu : Bytes) (hc : Spec.PduComplete .rsp pdu) (buf rest : Bytes) (d : Nat)
    (hdrop : buf.drop d = Spec.rtuFrame slave pdu ++ rest) (hd : d < 256) :
    ¬ (Rtu.decodeRsp buf).isErr = true ∧ Rtu.decodeRsp buf ≠ .panic :=
  ⟨scan_not_err Rtu.attemptRsp (Reception.rtu_rsp_good slave pdu hc) buf rest d hdrop hd,
    Total.scan_ne_panic Rtu.attemptRsp buf Total.Rtu.attemptRsp_ne_panic⟩

/-- … 'incomplete' **exactly** when an offset before the frame, all offsets before which are rejected, is
answered 'incomplete' by the attempt (bytes that look like the beginning of a longer frame) -/
theorem rtu_rsp_none_iff (slave : UInt8) (pdu : Bytes) (hc : Spec.PduComplete .rsp pdu) (buf rest : Bytes) (d : Nat)
    (hdrop : buf.drop d = Spec.rtuFrame slave pdu ++ rest) (hd : d < 256) :
    Rtu.decodeRsp buf = .ok none ↔
      ∃ s, s < d ∧ (∀ i, i < s → (Rtu.attemptRsp (buf.drop i)).isErr = true) ∧
        Rtu.attemptRsp (buf.drop s) = .ok none :=
  scan_none_iff Rtu.attemptRsp (Reception.rtu_rsp_good slave pdu hc) buf rest d hdrop hd

/-- **the scanner does report**: a frame with `start ≤ d` (that frame if `start = d`), or 'incomplete' —
the latter only in the situation of `rtu_rsp_none_iff` -/
theorem rtu_rsp_reports_or_incomplete (slave : UInt8) (pdu : Bytes) (hc : Spec.PduComplete .rsp pdu) (buf rest : Bytes) (d : Nat)
    (hdrop : buf.drop d = Spec.rtuFrame slave pdu ++ rest) (hd : d < 256) :
    (∃ f loc, Rtu.decodeRsp buf = .ok (some (f, loc)) ∧ loc.start ≤ d ∧
        (loc.start = d → f = (⟨slave, pdu⟩ : Rtu.Frame) ∧ loc.size = (Spec.rtuFrame slave pdu).length)) ∨
    Rtu.decodeRsp buf = .ok none :=
  scan_reports_or_incomplete Rtu.attemptRsp Total.Rtu.attemptRsp_ne_panic (Reception.rtu_rsp_good slave pdu hc) buf rest d hdrop hd

/-- if no offset before the frame is answered 'incomplete', some frame with `start ≤ d` is reported -/
theorem rtu_rsp_reports (slave : UInt8) (pdu : Bytes) (hc : Spec.PduComplete .rsp pdu) (buf rest : Bytes) (d : Nat)
    (hdrop : buf.drop d = Spec.rtuFrame slave pdu ++ rest) (hd : d < 256)
    (hinc : ∀ i, i < d → Rtu.attemptRsp (buf.drop i) ≠ .ok none) :
    ∃ f loc, Rtu.decodeRsp buf = .ok (some (f, loc)) ∧ loc.start ≤ d ∧
      (loc.start = d → f = (⟨slave, pdu⟩ : Rtu.Frame) ∧ loc.size = (Spec.rtuFrame slave pdu).length) :=
  scan_reports Rtu.attemptRsp Total.Rtu.attemptRsp_ne_panic (Reception.rtu_rsp_good slave pdu hc) buf rest d hdrop hd hinc

/-
`rtu::decode(Request, buf)`: the full statements are the ones below without the two hypotheses
`hF : pdu[0]? ≠ some 0x0F`, `h10 : pdu[0]? ≠ some 0x10`.  They are NOT provable for the model of the
unedited crate (open finding D4): `rtu::request_pdu_len` reads ADU offset 4 instead of the byte count
at offset 6 for these two function codes, so a well-formed WriteMultipleCoils / WriteMultipleRegisters
request is in general not found by the attempt (`Reception.rtu_req_good_partial`, witness
`C10.rtu_req_write_multiple_defect_witness`).  What is proved: every other function code of the table.
-/

/-! ### `rtu::decode(Request, buf)` — all function codes except 0x0F / 0x10 (D4) -/

/-- C10's fact about the attempt: a well-formed frame followed by anything is returned, full length;
function codes 0x0F / 0x10 excluded (D4) -/
theorem rtu_req_attempt_wf_partial (slave : UInt8) (pdu : Bytes) (hc : Spec.PduComplete .req pdu)
    (hF : pdu[0]? ≠ some 0x0F) (h10 : pdu[0]? ≠ some 0x10) (rest : Bytes) :
    Rtu.attemptReq (Spec.rtuFrame slave pdu ++ rest) = .ok (some ((⟨slave, pdu⟩ : Rtu.Frame), (Spec.rtuFrame slave pdu).length)) :=
  good_attempt Rtu.attemptReq (Reception.rtu_req_good_partial slave pdu hc hF h10) rest

/-- **clause 1, well-formed frame**: up to 255 noise bytes every offset of which is rejected in context,
then a well-formed frame, then anything ⇒ exactly that frame with `start = noise.length`;
function codes 0x0F / 0x10 excluded (D4) -/
theorem rtu_req_resync_wf_partial (slave : UInt8) (pdu : Bytes) (hc : Spec.PduComplete .req pdu)
    (hF : pdu[0]? ≠ some 0x0F) (h10 : pdu[0]? ≠ some 0x10) (noise rest : Bytes)
    (hnl : noise.length ≤ 255)
    (herr : ∀ i, i < noise.length →
      (Rtu.attemptReq ((noise ++ Spec.rtuFrame slave pdu ++ rest).drop i)).isErr = true) :
    Rtu.decodeReq (noise ++ Spec.rtuFrame slave pdu ++ rest)
      = .ok (some ((⟨slave, pdu⟩ : Rtu.Frame), ⟨noise.length, (Spec.rtuFrame slave pdu).length⟩)) :=
  scan_found_good Rtu.attemptReq (Reception.rtu_req_good_partial slave pdu hc hF h10) noise rest hnl herr

/-- clause 1 with a hypothesis on the bytes only: every noise byte but the first, and the frame's slave id, is not a known function code;
function codes 0x0F / 0x10 excluded (D4) -/
theorem rtu_req_resync_bytes_partial (slave : UInt8) (pdu : Bytes) (hc : Spec.PduComplete .req pdu)
    (hF : pdu[0]? ≠ some 0x0F) (h10 : pdu[0]? ≠ some 0x10) (noise rest : Bytes)
    (hnl : noise.length ≤ 255)
    (hnoise : ∀ c, c ∈ (noise ++ (Spec.rtuFrame slave pdu).take 1).drop 1 → C14.reqKnown c = false) :
    Rtu.decodeReq (noise ++ Spec.rtuFrame slave pdu ++ rest)
      = .ok (some ((⟨slave, pdu⟩ : Rtu.Frame), ⟨noise.length, (Spec.rtuFrame slave pdu).length⟩)) :=
  C14.rtu_req_resync noise _ rest _ hnl hnoise (rtu_req_attempt_wf_partial slave pdu hc hF h10 rest)

/-- **clause 2, well-formed frame**: a well-formed frame starts at offset `d` of `buf` (followed by
anything) ⇒ a frame reported by the scanner does not start after `d`; if it starts at `d` it is that
frame with its full size.  No bound on `d`, none on `buf`;
function codes 0x0F / 0x10 excluded (D4) -/
theorem rtu_req_never_later_partial (slave : UInt8) (pdu : Bytes) (hc : Spec.PduComplete .req pdu)
    (hF : pdu[0]? ≠ some 0x0F) (h10 : pdu[0]? ≠ some 0x10) (buf rest : Bytes) (d : Nat)
    (hdrop : buf.drop d = Spec.rtuFrame slave pdu ++ rest)
    (f : Rtu.Frame) (loc : Loc) (h : Rtu.decodeReq buf = .ok (some (f, loc))) :
    loc.start ≤ d ∧ (loc.start = d → f = (⟨slave, pdu⟩ : Rtu.Frame) ∧ loc.size = (Spec.rtuFrame slave pdu).length) :=
  scan_never_later Rtu.attemptReq (Reception.rtu_req_good_partial slave pdu hc hF h10) buf rest d hdrop f loc h

/-- what the scanner answers when a well-formed frame starts at offset `d ≤ 255`: a first non-rejected
offset `s ≤ d` exists; the answer is the attempt's answer at `s`, placed at `s`; for `s = d` it is the
frame at `⟨d, frame.length⟩`;
function codes 0x0F / 0x10 excluded (D4) -/
theorem rtu_req_outcome_partial (slave : UInt8) (pdu : Bytes) (hc : Spec.PduComplete .req pdu)
    (hF : pdu[0]? ≠ some 0x0F) (h10 : pdu[0]? ≠ some 0x10) (buf rest : Bytes) (d : Nat)
    (hdrop : buf.drop d = Spec.rtuFrame slave pdu ++ rest) (hd : d < 256) :
    ∃ s, s ≤ d ∧ s + 1 < buf.length ∧ (∀ i, i < s → (Rtu.attemptReq (buf.drop i)).isErr = true) ∧
      ¬ (Rtu.attemptReq (buf.drop s)).isErr = true ∧
      Rtu.decodeReq buf = Attempt.place s (Rtu.attemptReq (buf.drop s)) ∧
      (s = d → Rtu.decodeReq buf = .ok (some ((⟨slave, pdu⟩ : Rtu.Frame), ⟨d, (Spec.rtuFrame slave pdu).length⟩))) :=
  scan_outcome Rtu.attemptReq (Reception.rtu_req_good_partial slave pdu hc hF h10) buf rest d hdrop hd

/-- … never an error, never a panic;
function codes 0x0F / 0x10 excluded (D4) -/
theorem rtu_req_not_err_partial (slave : UInt8) (pdu : Bytes) (hc : Spec.PduComplete .req pdu)
    (hF : pdu[0]? ≠ some 0x0F) (h10 : pdu[0]? ≠ some 0x10) (buf rest : Bytes) (d : Nat)
    (hdrop : buf.drop d = Spec.rtuFrame slave pdu ++ rest) (hd : d < 256) :
    ¬ (Rtu.decodeReq buf).isErr = true ∧ Rtu.decodeReq buf ≠ .panic :=
  ⟨scan_not_err Rtu.attemptReq (Reception.rtu_req_good_partial slave pdu hc hF h10) buf rest d hdrop hd,
    Total.scan_ne_panic Rtu.attemptReq buf Total.Rtu.attemptReq_ne_panic⟩

/-- … 'incomplete' **exactly** when an offset before the frame, all offsets before which are rejected, is
answered 'incomplete' by the attempt (bytes that look like the beginning of a longer frame);
function codes 0x0F / 0x10 excluded (D4) -/
theorem rtu_req_none_iff_partial (slave : UInt8) (pdu : Bytes) (hc : Spec.PduComplete .req pdu)
    (hF : pdu[0]? ≠ some 0x0F) (h10 : pdu[0]? ≠ some 0x10) (buf rest : Bytes) (d : Nat)
    (hdrop : buf.drop d = Spec.rtuFrame slave pdu ++ rest) (hd : d < 256) :
    Rtu.decodeReq buf = .ok none ↔
      ∃ s, s < d ∧ (∀ i, i < s → (Rtu.attemptReq (buf.drop i)).isErr = true) ∧
        Rtu.attemptReq (buf.drop s) = .ok none :=
  scan_none_iff Rtu.attemptReq (Reception.rtu_req_good_partial slave pdu hc hF h10) buf rest d hdrop hd

/-- **the scanner does report**: a frame with `start ≤ d` (that frame if `start = d`), or 'incomplete' —
the latter only in the situation of `rtu_req_none_iff_partial`;
function codes 0x0F / 0x10 excluded (D4) -/
theorem rtu_req_reports_or_incomplete_partial (slave : UInt8) (pdu : Bytes) (hc : Spec.PduComplete .req pdu)
    (hF : pdu[0]? ≠ some 0x0F) (h10 : pdu[0]? ≠ some 0x10) (buf rest : Bytes) (d : Nat)
    (hdrop : buf.drop d = Spec.rtuFrame slave pdu ++ rest) (hd : d < 256) :
    (∃ f loc, Rtu.decodeReq buf = .ok (some (f, loc)) ∧ loc.start ≤ d ∧
        (loc.start = d → f = (⟨slave, pdu⟩ : Rtu.Frame) ∧ loc.size = (Spec.rtuFrame slave pdu).length)) ∨
    Rtu.decodeReq buf = .ok none :=
  scan_reports_or_incomplete Rtu.attemptReq Total.Rtu.attemptReq_ne_panic (Reception.rtu_req_good_partial slave pdu hc hF h10) buf rest d hdrop hd

/-- if no offset before the frame is answered 'incomplete', some frame with `start ≤ d` is reported;
function codes 0x0F / 0x10 excluded (D4) -/
theorem rtu_req_reports_partial (slave : UInt8) (pdu : Bytes) (hc : Spec.PduComplete .req pdu)
    (hF : pdu[0]? ≠ some 0x0F) (h10 : pdu[0]? ≠ some 0x10) (buf rest : Bytes) (d : Nat)
    (hdrop : buf.drop d = Spec.rtuFrame slave pdu ++ rest) (hd : d < 256)
    (hinc : ∀ i, i < d → Rtu.attemptReq (buf.drop i) ≠ .ok none) :
    ∃ f loc, Rtu.decodeReq buf = .ok (some (f, loc)) ∧ loc.start ≤ d ∧
      (loc.start = d → f = (⟨slave, pdu⟩ : Rtu.Frame) ∧ loc.size = (Spec.rtuFrame slave pdu).length) :=
  scan_reports Rtu.attemptReq Total.Rtu.attemptReq_ne_panic (Reception.rtu_req_good_partial slave pdu hc hF h10) buf rest d hdrop hd hinc

/-! ### in the property's own words: `Spec.WellFormedTcp` / `Spec.WellFormedRtu` frames -/

/-- clause 2 as the property reads: in any buffer, no frame is reported that begins after a position at
which a complete well-formed frame starts -/
theorem tcp_req_never_later_wellformed (frame buf rest : Bytes) (d : Nat)
    (hw : Spec.WellFormedTcp .req frame) (hdrop : buf.drop d = frame ++ rest)
    (f : Tcp.Frame) (loc : Loc) (h : Tcp.decodeReq buf = .ok (some (f, loc))) : loc.start ≤ d := by
  obtain ⟨tid, uid, pdu, hc, hn, rfl⟩ := hw
  exact (tcp_req_never_later tid uid pdu hc hn buf rest d hdrop f loc h).1

theorem tcp_rsp_never_later_wellformed (frame buf rest : Bytes) (d : Nat)
    (hw : Spec.WellFormedTcp .rsp frame) (hdrop : buf.drop d = frame ++ rest)
    (f : Tcp.Frame) (loc : Loc) (h : Tcp.decodeRsp buf = .ok (some (f, loc))) : loc.start ≤ d := by
  obtain ⟨tid, uid, pdu, hc, hn, rfl⟩ := hw
  exact (tcp_rsp_never_later tid uid pdu hc hn buf rest d hdrop f loc h).1

theorem rtu_rsp_never_later_wellformed (frame buf rest : Bytes) (d : Nat)
    (hw : Spec.WellFormedRtu .rsp frame) (hdrop : buf.drop d = frame ++ rest)
    (f : Rtu.Frame) (loc : Loc) (h : Rtu.decodeRsp buf = .ok (some (f, loc))) : loc.start ≤ d := by
  obtain ⟨slave, pdu, hc, rfl⟩ := hw
  exact (rtu_rsp_never_later slave pdu hc buf rest d hdrop f loc h).1

/-- the function code of an RTU frame is its second byte -/
theorem rtuFrame_fc (slave : UInt8) (pdu : Bytes) (h : 1 ≤ pdu.length) :
    (Spec.rtuFrame slave pdu)[1]? = pdu[0]? := by
  unfold Spec.rtuFrame
  rw [List.cons_append]
  show (pdu ++ _)[0]? = pdu[0]?
  exact List.getElem?_append_left (by omega)

/-- RTU requests, function codes 0x0F / 0x10 excluded (D4); the full statement has no `hF`, `h10` -/
theorem rtu_req_never_later_wellformed_partial (frame buf rest : Bytes) (d : Nat)
    (hw : Spec.WellFormedRtu .req frame) (hF : frame[1]? ≠ some 0x0F) (h10 : frame[1]? ≠ some 0x10)
    (hdrop : buf.drop d = frame ++ rest)
    (f : Rtu.Frame) (loc : Loc) (h : Rtu.decodeReq buf = .ok (some (f, loc))) : loc.start ≤ d := by
  obtain ⟨slave, pdu, hc, rfl⟩ := hw
  have hb := (Reception.pduComplete_bounds hc).1
  rw [rtuFrame_fc slave pdu hb] at hF h10
  exact (rtu_req_never_later_partial slave pdu hc hF h10 buf rest d hdrop f loc h).1

/-- clause 1 as the property reads: ≤ 255 noise bytes whose offsets are all rejected, a well-formed frame,
anything ⇒ a frame is returned at `⟨noise.length, frame.length⟩` (which one: `tcp_req_resync_wf`) -/
theorem tcp_req_resync_wellformed (noise frame rest : Bytes) (hw : Spec.WellFormedTcp .req frame)
    (hnl : noise.length ≤ 255)
    (herr : ∀ i, i < noise.length → (Tcp.attemptReq ((noise ++ frame ++ rest).drop i)).isErr = true) :
    ∃ x, Tcp.decodeReq (noise ++ frame ++ rest) = .ok (some (x, ⟨noise.length, frame.length⟩)) := by
  obtain ⟨tid, uid, pdu, hc, hn, rfl⟩ := hw
  exact ⟨_, tcp_req_resync_wf tid uid pdu hc hn noise rest hnl herr⟩

theorem tcp_rsp_resync_wellformed (noise frame rest : Bytes) (hw : Spec.WellFormedTcp .rsp frame)
    (hnl : noise.length ≤ 255)
    (herr : ∀ i, i < noise.length → (Tcp.attemptRsp ((noise ++ frame ++ rest).drop i)).isErr = true) :
    ∃ x, Tcp.decodeRsp (noise ++ frame ++ rest) = .ok (some (x, ⟨noise.length, frame.length⟩)) := by
  obtain ⟨tid, uid, pdu, hc, hn, rfl⟩ := hw
  exact ⟨_, tcp_rsp_resync_wf tid uid pdu hc hn noise rest hnl herr⟩

theorem rtu_rsp_resync_wellformed (noise frame rest : Bytes) (hw : Spec.WellFormedRtu .rsp frame)
    (hnl : noise.length ≤ 255)
    (herr : ∀ i, i < noise.length → (Rtu.attemptRsp ((noise ++ frame ++ rest).drop i)).isErr = true) :
    ∃ x, Rtu.decodeRsp (noise ++ frame ++ rest) = .ok (some (x, ⟨noise.length, frame.length⟩)) := by
  obtain ⟨slave, pdu, hc, rfl⟩ := hw
  exact ⟨_, rtu_rsp_resync_wf slave pdu hc noise rest hnl herr⟩

theorem rtu_req_resync_wellformed_partial (noise frame rest : Bytes) (hw : Spec.WellFormedRtu .req frame)
    (hF : frame[1]? ≠ some 0x0F) (h10 : frame[1]? ≠ some 0x10)
    (hnl : noise.length ≤ 255)
    (herr : ∀ i, i < noise.length → (Rtu.attemptReq ((noise ++ frame ++ rest).drop i)).isErr = true) :
    ∃ x, Rtu.decodeReq (noise ++ frame ++ rest) = .ok (some (x, ⟨noise.length, frame.length⟩)) := by
  obtain ⟨slave, pdu, hc, rfl⟩ := hw
  have hb := (Reception.pduComplete_bounds hc).1
  rw [rtuFrame_fc slave pdu hb] at hF h10
  exact ⟨_, rtu_req_resync_wf_partial slave pdu hc hF h10 noise rest hnl herr⟩

/-! ### Concrete instances (kernel-evaluated) -/

/-- the frames of `Props/C14.lean` are the specification's frames -/
example : Spec.tcpFrame 0x2A2B 0x2C [0x01, 0x00, 0x01, 0x00, 0x02] = C14.tcpReq := by decide +kernel
example : Spec.tcpFrame 0x2A2B 0x11 [0x06, 0x00, 0x01, 0x00, 0x02] = C14.tcpRsp := by decide +kernel
example : Spec.rtuFrame 0x11 [0x01, 0x00, 0x01, 0x00, 0x02] = C14.rtuReq := by decide +kernel
example : Spec.rtuFrame 0x11 [0x01, 0x01, 0x05] = C14.rtuRsp := by decide +kernel

/-- the well-formedness hypotheses -/
example : Spec.PduComplete .req [0x01, 0x00, 0x01, 0x00, 0x02] := by unfold Spec.PduComplete; decide
example : Spec.PduComplete .rsp [0x06, 0x00, 0x01, 0x00, 0x02] := by unfold Spec.PduComplete; decide
example : Spec.PduComplete .rsp [0x01, 0x01, 0x05] := by unfold Spec.PduComplete; decide
example : Spec.WellFormedRtu .req C14.rtuReq :=
  ⟨0x11, [0x01, 0x00, 0x01, 0x00, 0x02], by unfold Spec.PduComplete; decide, by decide +kernel⟩
example : C14.rtuReq[1]? ≠ some 0x0F ∧ C14.rtuReq[1]? ≠ some 0x10 := by decide

/-- clause 1 by the theorem: 255 bytes of 0x42, the RTU response frame, one more byte -/
example : Rtu.decodeRsp (List.replicate 255 0x42 ++ Spec.rtuFrame 0x11 [0x01, 0x01, 0x05] ++ [0x00])
    = .ok (some (⟨0x11, [0x01, 0x01, 0x05]⟩, ⟨255, 6⟩)) := by
  have h := rtu_rsp_resync_bytes 0x11 [0x01, 0x01, 0x05] (by unfold Spec.PduComplete; decide)
    (List.replicate 255 0x42) [0x00] (by decide +kernel) (by decide +kernel)
  rw [List.length_replicate, Reception.rtuFrame_length] at h
  exact h

/-- … the TCP request frame whose header bytes are not function codes (`C14.tcpReqClean`), by `tcp_req_resync_bytes` -/
example : Spec.tcpFrame 0x2A2B 0x2C [0x16, 0x00, 0x01, 0x00, 0x02, 0x00, 0x03] = C14.tcpReqClean := by
  decide +kernel
example : Tcp.decodeReq (List.replicate 255 0x42 ++ Spec.tcpFrame 0x2A2B 0x2C [0x16, 0x00, 0x01, 0x00, 0x02, 0x00, 0x03] ++ [0x00])
    = .ok (some (⟨0x2A2B, 0x2C, [0x16, 0x00, 0x01, 0x00, 0x02, 0x00, 0x03]⟩, ⟨255, 14⟩)) := by
  have h := tcp_req_resync_bytes 0x2A2B 0x2C [0x16, 0x00, 0x01, 0x00, 0x02, 0x00, 0x03]
    (by unfold Spec.PduComplete; decide) (by decide)
    (List.replicate 255 0x42) [0x00] (by decide +kernel) (by decide +kernel)
  rw [List.length_replicate, Reception.tcpFrame_length] at h
  exact h

/-- … and with the rejected-in-context hypothesis (`rtu_req_resync_wf_partial`): 255 bytes of 0x42 in
front of the RTU request with slave id 0x11 — the last noise offset reads 0x11 as a known function code
and is rejected by the CRC, not by the function code -/
example : Rtu.decodeReq (List.replicate 255 0x42 ++ Spec.rtuFrame 0x11 [0x01, 0x00, 0x01, 0x00, 0x02] ++ [])
    = .ok (some (⟨0x11, [0x01, 0x00, 0x01, 0x00, 0x02]⟩, ⟨255, 8⟩)) := by
  have h := rtu_req_resync_wf_partial 0x11 [0x01, 0x00, 0x01, 0x00, 0x02] (by unfold Spec.PduComplete; decide)
    (by decide) (by decide) (List.replicate 255 0x42) [] (by decide +kernel) (by
      rw [List.length_replicate]; decide +kernel)
  rw [List.length_replicate, Reception.rtuFrame_length] at h
  exact h

/-- clause 2: two well-formed TCP requests back to back, the second starts at 12; the reported frame
starts at 0 ≤ 12 -/
example : (C14.tcpReq ++ C14.tcpReqClean).drop 12 = Spec.tcpFrame 0x2A2B 0x2C [0x16, 0x00, 0x01, 0x00, 0x02, 0x00, 0x03] ++ [] := by
  decide +kernel
example : Tcp.decodeReq (C14.tcpReq ++ C14.tcpReqClean)
    = .ok (some (⟨0x2A2B, 0x2C, [0x01, 0x00, 0x01, 0x00, 0x02]⟩, ⟨0, 12⟩)) := by decide +kernel
example (f : Tcp.Frame) (loc : Loc) (h : Tcp.decodeReq (C14.tcpReq ++ C14.tcpReqClean) = .ok (some (f, loc))) :
    loc.start ≤ 12 :=
  (tcp_req_never_later 0x2A2B 0x2C [0x16, 0x00, 0x01, 0x00, 0x02, 0x00, 0x03]
    (by unfold Spec.PduComplete; decide) (by decide) _ [] 12 (by decide +kernel) f loc h).1

/-- clause 2, a frame far into the buffer (offset 300 > 255): nothing is reported after it — here
nothing is reported at all, the scanner gives up at offset 255 -/
example : (Rtu.decodeRsp (List.replicate 300 0x42 ++ C14.rtuRsp)).isErr = true := by decide +kernel

/-- the 'incomplete' case of `tcp_rsp_none_iff`: the well-formed TCP response
`tcpFrame 0x0102 0x11 [0x01, 0x01, 0x05]` starts at offset 20, but the bytes `42 42 00 00 00 15 11 03 12`
at offset 11 are a consistent MBAP header (protocol 0, length 0x15) of a ReadHoldingRegisters response
with byte count 0x12 that is not complete, and all of 0 .. 10 are rejected: the scanner waits.
(Before the repair of `tcp::decode` twenty bytes 0x42 in front of the frame had the same effect — the
length byte 0x04 read as a function code from offset 18; that candidate is now refuted by the protocol
identifier visible there, see `C14.tcp_rsp_resync_stray`.) -/
def waitBuf : Bytes := List.replicate 11 0x42 ++ [0x42, 0x42, 0x00, 0x00, 0x00, 0x15, 0x11, 0x03, 0x12] ++
  [0x01, 0x02, 0x00, 0x00, 0x00, 0x04, 0x11, 0x01, 0x01, 0x05]

example : waitBuf.drop 20 = Spec.tcpFrame 0x0102 0x11 [0x01, 0x01, 0x05] ++ [] := by decide +kernel
example : Tcp.decodeRsp waitBuf = .ok none := by decide +kernel
example : ∃ s, s < 20 ∧ (∀ i, i < s → (Tcp.attemptRsp (waitBuf.drop i)).isErr = true) ∧
    Tcp.attemptRsp (waitBuf.drop s) = .ok none :=
  ⟨11, by decide, by decide +kernel, by decide +kernel⟩
example : Tcp.decodeRsp waitBuf = .ok none :=
  (tcp_rsp_none_iff 0x0102 0x11 [0x01, 0x01, 0x05] (by unfold Spec.PduComplete; decide) (by decide)
    waitBuf [] 20 (by decide +kernel) (by decide)).2 ⟨11, by decide, by decide +kernel, by decide +kernel⟩

/-- `*_reports`: no offset before the frame is 'incomplete' ⇒ a frame with `start ≤ d` is reported -/
example : ∃ f loc, Rtu.decodeRsp (List.replicate 40 0x42 ++ C14.rtuRsp ++ [0x00]) = .ok (some (f, loc)) ∧
    loc.start ≤ 40 ∧ (loc.start = 40 → f = ⟨0x11, [0x01, 0x01, 0x05]⟩ ∧
      loc.size = (Spec.rtuFrame 0x11 [0x01, 0x01, 0x05]).length) :=
  rtu_rsp_reports 0x11 [0x01, 0x01, 0x05] (by unfold Spec.PduComplete; decide) _ [0x00] 40
    (by decide +kernel) (by decide) (by decide +kernel)
example : Rtu.decodeRsp (List.replicate 40 0x42 ++ C14.rtuRsp ++ [0x00])
    = .ok (some (⟨0x11, [0x01, 0x01, 0x05]⟩, ⟨40, 6⟩)) := by decide +kernel

/-- `*_outcome` / `*_not_err` / `*_reports_or_incomplete` share these hypotheses -/
example : ¬ (Tcp.decodeRsp waitBuf).isErr = true ∧ Tcp.decodeRsp waitBuf ≠ .panic :=
  tcp_rsp_not_err 0x0102 0x11 [0x01, 0x01, 0x05] (by unfold Spec.PduComplete; decide) (by decide)
    waitBuf [] 20 (by decide +kernel) (by decide)

/-- D4: the hypotheses `hF`, `h10` of the `…_partial` theorems cannot be dropped — a well-formed
WriteMultipleRegisters request in front of nothing is not found at offset 0 by `rtu::decode(Request, ·)` -/
example : Spec.PduComplete .req [0x10, 0x00, 0x01, 0x00, 0x02, 0x04, 0x00, 0x0A, 0x01, 0x02] := by
  unfold Spec.PduComplete; decide
example : Rtu.decodeReq (Spec.rtuFrame 0x11 [0x10, 0x00, 0x01, 0x00, 0x02, 0x04, 0x00, 0x0A, 0x01, 0x02])
    ≠ .ok (some (⟨0x11, [0x10, 0x00, 0x01, 0x00, 0x02, 0x04, 0x00, 0x0A, 0x01, 0x02]⟩, ⟨0, 13⟩)) := by
  decide +kernel

end Modbus.C14Full

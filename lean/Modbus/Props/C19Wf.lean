import Modbus.Lemmas.Wf
import Modbus.Props.C13
/-
C19 (well-formedness) — the no-truncation / conformance / round-trip theorems for ARBITRARY values.

`Props/C19Req.lean`, `C19Rsp.lean`, `C01`–`C03` speak about values *built* by `Coils::from_bools` /
`Data::from_words` (`Request.Built`, `BuiltRsp`); `Props/C13.lean` about values *decoded*; `C19X` about one
transplant (response register data into a request).  But `Coils` / `Data` are `Copy` and the enum variants
are public: ANY container a user holds may be placed in ANY variant.  This file closes that gap with an
invariant:

    Data.Exact d   :=  d.data.length = d.quantity * 2
    Coils.Backed c :=  ⌈c.quantity / 8⌉ ≤ c.data.length
    Request.Wf / Response.Wf := every container in the value satisfies its invariant

1. CLOSURE.  The containers' fields are crate-private, so the only public sources of a container are
   `Coils::from_bools` (`fromBools_backed`), `Data::from_words` (`fromWords_exact`), `Response::try_from`
   (`rsp_decode_wf`: always well-formed) and `Request::try_from` (`req_decode_wf_iff`: well-formed EXACTLY
   outside the truncated write-multiple-coils region of open finding D5b; register data always exact).
   `coils_sourced_backed` / `data_sourced_exact` say it per container.
2. CONSEQUENCES, from the invariant alone — for EVERY value with `Wf`, whatever kind its containers came
   from, every quantity (zero included), every buffer: `req_wf_no_truncation`, `req_wf_conforms`,
   `rsp_wf_no_truncation`, `rsp_wf_conforms`.
3. The `Built` relations are instances: `built_wf`, `built_rsp_wf`.

Excluded by the named predicates `Request.Implemented` / `Response.Implemented`: the RTU-only kinds whose
`pdu_len` / `encode` is `todo!()` / `unimplemented!()` / `panic!()` in the crate — `Request::{ReadExceptionStatus,
Diagnostics, GetCommEventCounter, GetCommEventLog, ReportServerId}` and `Response::{Diagnostics,
GetCommEventCounter, GetCommEventLog, ReportServerId}`; on these the model's `encode` is `.panic` for every
buffer (`not_implemented_panics`).  `Response::ReadExceptionStatus` IS implemented and included.

NOT an invariant of the public sources: `Coils.CleanPad` (the unused bits of the last used byte of the RAW
slice are zero) — the request decoder keeps the raw data bytes of a write-multiple-coils request, so padding
bits above the quantity may be set in the value.  It no longer matters: `Coils::copy_to` clears those bits
in the copy it puts on the wire (`Coils.Backed.wire_eq_packBits`), so the "image = specification's bytes"
theorems `req_wf_conforms` / `rsp_wf_conforms` hold for EVERY well-formed value and the hypothesis has been
dropped (`dirty_padding_cleared`: the container decoded from `0F 00 01 00 03 01 FF`, placed in a Read Coils
response, is encoded as `01 01 07`).
-/
namespace Modbus.C19Wf

open Spec (ReqMeaning RspMeaning reqBytes rspBytes)

/-! ### 1. closure under the public sources -/

/-- `Data::from_words`: exact, and holding the words it was given -/
theorem fromWords_exact (ws : List UInt16) (t : Bytes) (d : Data) (h : Data.fromWords ws t = .ok d) :
    d.Exact ∧ d.words = ws :=
  Data.fromWords_exact' h

/-- `Coils::from_bools` (any target, any previous contents): backed, clean padding, holding the coils given -/
theorem fromBools_backed (bs : List Bool) (t : Bytes) (c : Coils) (h : Coils.fromBools bs t = .ok c) :
    c.Backed ∧ c.CleanPad ∧ c.bits = bs :=
  Coils.fromBools_backed' h

/-- `Response::try_from`: every value it returns, for every byte string, is well-formed (and its coil
    containers have no padding bits at all: quantity = 8 · bytes) -/
theorem rsp_decode_wf (b : Bytes) (v : Response) (h : Response.decode b = .ok v) : v.Wf ∧ v.CleanPad :=
  (Response.decode_inv h).wf

/-- `Request::try_from`: a value it returns is well-formed IF AND ONLY IF the input is not in the truncated
    write-multiple-coils region (open finding D5b: function code 0x0F and fewer than ⌈quantity/8⌉ data bytes
    after the header); the register containers of decoded requests are always exact, with byte count ≤ 255 -/
theorem req_decode_wf_iff (b : Bytes) (v : Request) (h : Request.decode b = .ok v) :
    (v.Wf ↔ ¬ WmcTruncated b) ∧
    (∀ a d, v = .writeMultipleRegisters a d → d.Exact ∧ d.quantity * 2 ≤ 255) ∧
    (∀ ra rq wa d, v = .readWriteMultipleRegisters ra rq wa d → d.Exact ∧ d.quantity * 2 ≤ 255) := by
  obtain ⟨hd, hh⟩ := Request.decode_inv h
  refine ⟨hd.wf_iff hh, ?_, ?_⟩
  · intro a d hv; subst hv; exact hd.dataExact
  · intro ra rq wa d hv; subst hv; exact hd.dataExact

/-- the same region as C13: a decoded request is well-formed exactly when it is coherent (safe to use) -/
theorem req_decode_wf_iff_coherent (b : Bytes) (v : Request) (h : Request.decode b = .ok v) :
    v.Wf ↔ C13.ReqCoherent v := by
  rw [(req_decode_wf_iff b v h).1, C13.req_decoded_coherent_iff b v h]

/-- a coil container obtained from a public source -/
inductive CoilsSourced : Coils → Prop
  | fromBools (bs : List Bool) (t : Bytes) (c : Coils) : Coils.fromBools bs t = .ok c → CoilsSourced c
  | rspReadCoils (b : Bytes) (c : Coils) : Response.decode b = .ok (.readCoils c) → CoilsSourced c
  | rspReadDiscreteInputs (b : Bytes) (c : Coils) : Response.decode b = .ok (.readDiscreteInputs c) → CoilsSourced c
  | reqWriteMultipleCoils (b : Bytes) (a : UInt16) (c : Coils) :
      Request.decode b = .ok (.writeMultipleCoils a c) → ¬ WmcTruncated b → CoilsSourced c

/-- a register container obtained from a public source (no exclusion) -/
inductive DataSourced : Data → Prop
  | fromWords (ws : List UInt16) (t : Bytes) (d : Data) : Data.fromWords ws t = .ok d → DataSourced d
  | rspReadHoldingRegisters (b : Bytes) (d : Data) : Response.decode b = .ok (.readHoldingRegisters d) → DataSourced d
  | rspReadInputRegisters (b : Bytes) (d : Data) : Response.decode b = .ok (.readInputRegisters d) → DataSourced d
  | rspReadWriteMultipleRegisters (b : Bytes) (d : Data) :
      Response.decode b = .ok (.readWriteMultipleRegisters d) → DataSourced d
  | reqWriteMultipleRegisters (b : Bytes) (a : UInt16) (d : Data) :
      Request.decode b = .ok (.writeMultipleRegisters a d) → DataSourced d
  | reqReadWriteMultipleRegisters (b : Bytes) (ra rq wa : UInt16) (d : Data) :
      Request.decode b = .ok (.readWriteMultipleRegisters ra rq wa d) → DataSourced d

theorem coils_sourced_backed {c : Coils} (h : CoilsSourced c) : c.Backed := by
  cases h with
  | fromBools bs t c h => exact (fromBools_backed bs t c h).1
  | rspReadCoils b c h => exact (rsp_decode_wf b _ h).1
  | rspReadDiscreteInputs b c h => exact (rsp_decode_wf b _ h).1
  | reqWriteMultipleCoils b a c h ht => exact (req_decode_wf_iff b _ h).1.mpr ht

theorem data_sourced_exact {d : Data} (h : DataSourced d) : d.Exact := by
  cases h with
  | fromWords ws t d h => exact (fromWords_exact ws t d h).1
  | rspReadHoldingRegisters b d h => exact (rsp_decode_wf b _ h).1
  | rspReadInputRegisters b d h => exact (rsp_decode_wf b _ h).1
  | rspReadWriteMultipleRegisters b d h => exact (rsp_decode_wf b _ h).1
  | reqWriteMultipleRegisters b a d h => exact ((req_decode_wf_iff b _ h).2.1 a d rfl).1
  | reqReadWriteMultipleRegisters b ra rq wa d h => exact ((req_decode_wf_iff b _ h).2.2 ra rq wa d rfl).1

/-- any sourced container in any variant that takes one gives a well-formed value -/
theorem wf_of_sourced :
    (∀ a c, CoilsSourced c → (Request.writeMultipleCoils a c).Wf) ∧
    (∀ a d, DataSourced d → (Request.writeMultipleRegisters a d).Wf) ∧
    (∀ ra rq wa d, DataSourced d → (Request.readWriteMultipleRegisters ra rq wa d).Wf) ∧
    (∀ c, CoilsSourced c → (Response.readCoils c).Wf ∧ (Response.readDiscreteInputs c).Wf) ∧
    (∀ d, DataSourced d → (Response.readHoldingRegisters d).Wf ∧ (Response.readInputRegisters d).Wf ∧
      (Response.readWriteMultipleRegisters d).Wf) :=
  ⟨fun _ _ h => coils_sourced_backed h, fun _ _ h => data_sourced_exact h, fun _ _ _ _ h => data_sourced_exact h,
    fun _ h => ⟨coils_sourced_backed h, coils_sourced_backed h⟩,
    fun _ h => ⟨data_sourced_exact h, data_sourced_exact h, data_sourced_exact h⟩⟩

/-- what the invariant gives the user of a container: iteration yields exactly what the slice spells, and the
    container is coherent in the sense of C13 (indexing and iteration agree with the reported length) -/
theorem wf_container_use :
    (∀ c : Coils, c.Backed → c.iter = .ok c.bits ∧ c.bits.length = c.len ∧ CoilsCoherent c) ∧
    (∀ d : Data, d.Exact → d.iter = .ok d.words ∧ d.words.length = d.len ∧ DataCoherent d ∧
      d.data = Spec.wordsBE d.words) :=
  ⟨fun c h => ⟨h.iter_eq, c.bits_length, Coils.Ok.coherent h⟩,
   fun _ h => ⟨h.iter_eq, h.shape.2.1, Data.Ok.coherent h.ok, h.shape.2.2.symm⟩⟩

/-- the excluded kinds: `encode` (and `pdu_len`) panic, for every buffer -/
theorem not_implemented_panics :
    (∀ (r : Request) (buf : Bytes), ¬ r.Implemented → r.encode buf = .panic ∧ r.pduLen = .panic) ∧
    (∀ (r : Response) (buf : Bytes), ¬ r.Implemented → r.encode buf = .panic ∧ r.pduLen = .panic) := by
  constructor
  · intro r buf h
    refine ⟨r.encode_panic_of_not_implemented h buf, ?_⟩
    apply Classical.byContradiction
    intro hp
    exact h ((Request.implemented_iff r).mpr hp)
  · intro r buf h
    refine ⟨r.encode_panic_of_not_implemented h buf, ?_⟩
    apply Classical.byContradiction
    intro hp
    exact h ((Response.implemented_iff r).mpr hp)

/-! ### 2a. requests -/

/-- inversion of a successful encoding of a well-formed request -/
theorem req_ok_inv {r : Request} (hw : r.Wf) (hi : r.Implemented) {buf : Bytes} {k : Nat} {out : Bytes}
    (h : r.encode buf = .ok (k, out)) :
    r.CountFits ∧ k = r.image.length ∧ out = r.image ++ buf.drop r.image.length ∧ r.image.length ≤ buf.length := by
  rw [hw.encode_eq hi buf] at h
  by_cases hf : r.CountFits
  · rw [if_pos hf] at h
    by_cases hb : buf.length < r.image.length
    · rw [if_pos hb] at h; cases h
    · rw [if_neg hb] at h
      simp only [Res.ok.injEq, Prod.mk.injEq] at h
      exact ⟨hf, h.1.symm, h.2.symm, by omega⟩
  · rw [if_neg hf] at h; cases h

/-- **C19 for every well-formed request** (`r.Wf`, nothing else assumed about where `r` or its container came
    from; the kinds `encode` implements).  With `m` its meaning — given explicitly by `Request.meaning` from
    the raw slices, and equal to what iteration yields (`sem`) — and `n` its `pdu_len`, for every buffer:

    * `encode` never panics;
    * when the byte count does not fit its one-byte field (more than 2040 coils / 127 words) the outcome is
      `Err(BufferSize)` whatever the buffer;
    * otherwise it is an error exactly when the buffer is shorter than `n`;
    * on success `Ok(k)`: the count fits, `k = n`, the rest of the buffer is untouched, the count fields of
      the `k` bytes written match the payload (`CountsMatch`: quantity field = container length, byte count
      = ⌈n/8⌉ resp. 2n = the number of payload bytes that follow), and decoding them gives a request with
      the same meaning whenever the meaning is in the round-trip scope (custom code < 0x80 and not one of
      the nine modelled codes); for any code the library does not model (≥ 0x80 included) the decoder may
      refuse but never returns a different request.

    Quantity 0 is included: the decoder accepts empty payloads (`10 aa aa 00 00 00`), nothing is excluded. -/
theorem req_wf_no_truncation (r : Request) (hw : r.Wf) (hi : r.Implemented) :
    ∃ m n, r.meaning = some m ∧ r.sem = some m ∧ r.pduLen = .ok n ∧
    ∀ buf : Bytes,
      r.encode buf ≠ .panic ∧
      (¬ r.CountFits → r.encode buf = .err .bufferSize) ∧
      (r.CountFits → ((∃ e, r.encode buf = .err e) ↔ buf.length < n)) ∧
      ∀ k out, r.encode buf = .ok (k, out) →
        r.CountFits ∧ k = n ∧ out.length = buf.length ∧ out.drop k = buf.drop k ∧
        r.CountsMatch (out.take k) ∧
        (m.InScope → ∃ r', Request.decode (out.take k) = .ok r' ∧ r'.sem = r.sem) ∧
        (m.Unmodelled → ∀ r', Request.decode (out.take k) = .ok r' → r'.sem = r.sem) := by
  obtain ⟨m, hm⟩ := Request.meaning_of_implemented hi
  refine ⟨m, r.image.length, hm, by rw [hw.sem_eq, hm], hw.pduLen_eq hi, fun buf => ⟨?_, ?_, ?_, ?_⟩⟩
  · rw [hw.encode_eq hi buf]
    by_cases hf : r.CountFits
    · rw [if_pos hf]; split <;> simp
    · rw [if_neg hf]; simp
  · intro hf; rw [hw.encode_eq hi buf, if_neg hf]
  · intro hf
    rw [hw.encode_eq hi buf, if_pos hf]
    by_cases hb : buf.length < r.image.length
    · rw [if_pos hb]; exact ⟨fun _ => hb, fun _ => ⟨_, rfl⟩⟩
    · rw [if_neg hb]; exact ⟨fun h => (by obtain ⟨e, he⟩ := h; cases he), fun h => absurd h hb⟩
  · intro k out h
    obtain ⟨hf, rfl, rfl, hle⟩ := req_ok_inv hw hi h
    have ht : (r.image ++ buf.drop r.image.length).take r.image.length = r.image := List.take_left' rfl
    refine ⟨hf, rfl, ?_, ?_, ?_, ?_, ?_⟩
    · rw [List.length_append, List.length_drop]; omega
    · rw [List.drop_left' rfl]
    · rw [ht]; exact hw.image_counts hf
    · intro hs; rw [ht]; exact hw.redecode hf hm hs
    · intro hu r' hd; rw [ht] at hd; exact hw.redecode_sem hf hm hu r' hd

/-- **C03 (request half) for every well-formed request** (no hypothesis on the raw padding bits of a coil
    container: `copy_to` clears them; this theorem used to need `r.CleanPad`): the wire image is the
    specification's PDU of its meaning, so whenever `encode` succeeds the bytes written ARE that PDU; and
    the encoder's complete outcome in terms of the specification's bytes. -/
theorem req_wf_conforms (r : Request) (hw : r.Wf) (hi : r.Implemented)
    (m : ReqMeaning) (hm : r.sem = some m) :
    r.image = reqBytes m ∧
    (∀ buf : Bytes, r.encode buf =
      if r.CountFits then
        if buf.length < (reqBytes m).length then .err .bufferSize
        else .ok ((reqBytes m).length, reqBytes m ++ buf.drop (reqBytes m).length)
      else .err .bufferSize) ∧
    (∀ buf k out, r.encode buf = .ok (k, out) → k = (reqBytes m).length ∧ out.take k = reqBytes m) := by
  have hm' : r.meaning = some m := by rw [← hw.sem_eq]; exact hm
  have himg := hw.image_eq_spec hm'
  refine ⟨himg, fun buf => by rw [hw.encode_eq hi buf, himg], ?_⟩
  intro buf k out h
  obtain ⟨_, rfl, rfl, _⟩ := req_ok_inv hw hi h
  exact ⟨by rw [himg], by rw [List.take_left' rfl, himg]⟩

/-- the specification's range predicate `fits` (non-empty payload whose count fits) in terms of the value -/
theorem req_fits_iff (r : Request) (hw : r.Wf) (m : ReqMeaning) (hm : r.meaning = some m) :
    m.fits ↔ r.CountFits ∧
      (match r with
       | .writeMultipleCoils _ c => 1 ≤ c.quantity
       | .writeMultipleRegisters _ d | .readWriteMultipleRegisters _ _ _ d => 1 ≤ d.quantity
       | _ => True) := by
  cases r with
  | writeMultipleCoils a c =>
    simp only [Request.meaning, Option.some.injEq] at hm; subst hm
    simp only [Spec.ReqMeaning.fits, Request.CountFits, Coils.bits_length, packedCoilsLen]
    exact ⟨fun h => ⟨h.2, h.1⟩, fun h => ⟨h.2, h.1⟩⟩
  | writeMultipleRegisters a d =>
    simp only [Request.meaning, Option.some.injEq] at hm; subst hm
    have := (Data.Exact.shape (d := d) hw).2.1
    simp only [Spec.ReqMeaning.fits, Request.CountFits, this]
    omega
  | readWriteMultipleRegisters ra rq wa d =>
    simp only [Request.meaning, Option.some.injEq] at hm; subst hm
    have := (Data.Exact.shape (d := d) hw).2.1
    simp only [Spec.ReqMeaning.fits, Request.CountFits, this]
    omega
  | readExceptionStatus => cases hm
  | diagnostics s d => cases hm
  | getCommEventCounter => cases hm
  | getCommEventLog => cases hm
  | reportServerId => cases hm
  | _ =>
    simp only [Request.meaning, Option.some.injEq] at hm; subst hm
    simp [Spec.ReqMeaning.fits, Request.CountFits]

/-! ### 2b. responses -/

theorem rsp_ok_inv {r : Response} (hw : r.Wf) (hi : r.Implemented) {buf : Bytes} {k : Nat} {out : Bytes}
    (h : r.encode buf = .ok (k, out)) :
    r.CountFits ∧ k = r.image.length ∧ out = r.image ++ buf.drop r.image.length ∧ r.image.length ≤ buf.length := by
  rw [hw.encode_eq hi buf] at h
  by_cases hf : r.CountFits
  · rw [if_pos hf] at h
    by_cases hb : buf.length < r.image.length
    · rw [if_pos hb] at h; cases h
    · rw [if_neg hb] at h
      simp only [Res.ok.injEq, Prod.mk.injEq] at h
      exact ⟨hf, h.1.symm, h.2.symm, by omega⟩
  · rw [if_neg hf] at h; cases h

/-- **C19 for every well-formed response** (any container from any source in any variant, every quantity,
    every buffer; `ReadExceptionStatus` included).  As `req_wf_no_truncation`, with the response decoder's
    one normalisation: a coil response carries a byte count, not a coil count, so the decoded coil list has
    `8·⌈n/8⌉` items with identical leading `n` coils (`RoundsTo`) and the remaining items are off
    (`m.padded`, as for built values in C02) — whatever the container's raw padding bits are (the last
    clause used to need `r.CleanPad`). -/
theorem rsp_wf_no_truncation (r : Response) (hw : r.Wf) (hi : r.Implemented) :
    ∃ m n, r.meaning = some m ∧ r.sem = some m ∧ r.pduLen = .ok n ∧
    ∀ buf : Bytes,
      r.encode buf ≠ .panic ∧
      (¬ r.CountFits → r.encode buf = .err .bufferSize) ∧
      (r.CountFits → ((∃ e, r.encode buf = .err e) ↔ buf.length < n)) ∧
      ∀ k out, r.encode buf = .ok (k, out) →
        r.CountFits ∧ k = n ∧ out.length = buf.length ∧ out.drop k = buf.drop k ∧
        r.CountsMatch (out.take k) ∧
        (InScopeRsp m → ∃ r' m', Response.decode (out.take k) = .ok r' ∧ r'.sem = some m' ∧ m.RoundsTo m') ∧
        (InScopeRsp m → ∃ r', Response.decode (out.take k) = .ok r' ∧ r'.sem = some m.padded) := by
  obtain ⟨m, hm⟩ := Response.meaning_of_implemented hi
  refine ⟨m, r.image.length, hm, by rw [hw.sem_eq, hm], hw.pduLen_eq hi, fun buf => ⟨?_, ?_, ?_, ?_⟩⟩
  · rw [hw.encode_eq hi buf]
    by_cases hf : r.CountFits
    · rw [if_pos hf]; split <;> simp
    · rw [if_neg hf]; simp
  · intro hf; rw [hw.encode_eq hi buf, if_neg hf]
  · intro hf
    rw [hw.encode_eq hi buf, if_pos hf]
    by_cases hb : buf.length < r.image.length
    · rw [if_pos hb]; exact ⟨fun _ => hb, fun _ => ⟨_, rfl⟩⟩
    · rw [if_neg hb]; exact ⟨fun h => (by obtain ⟨e, he⟩ := h; cases he), fun h => absurd h hb⟩
  · intro k out h
    obtain ⟨hf, rfl, rfl, hle⟩ := rsp_ok_inv hw hi h
    have ht : (r.image ++ buf.drop r.image.length).take r.image.length = r.image := List.take_left' rfl
    refine ⟨hf, rfl, ?_, ?_, ?_, ?_, ?_⟩
    · rw [List.length_append, List.length_drop]; omega
    · rw [List.drop_left' rfl]
    · rw [ht]; exact hw.image_counts hf
    · intro hs; rw [ht]; exact hw.redecode hf hm hs
    · intro hs; rw [ht]; exact hw.redecode_clean hf hm hs

/-- **C03 (response half) for every well-formed response** (no hypothesis on the raw padding bits; this
    theorem used to need `r.CleanPad`), Write Single Coil excepted (open finding D12) -/
theorem rsp_wf_conforms (r : Response) (hw : r.Wf) (hi : r.Implemented)
    (m : RspMeaning) (hm : r.sem = some m) (hn : ∀ a, m ≠ .writeSingleCoil a) :
    r.image = rspBytes m ∧
    (∀ buf : Bytes, r.encode buf =
      if r.CountFits then
        if buf.length < (rspBytes m).length then .err .bufferSize
        else .ok ((rspBytes m).length, rspBytes m ++ buf.drop (rspBytes m).length)
      else .err .bufferSize) ∧
    (∀ buf k out, r.encode buf = .ok (k, out) → k = (rspBytes m).length ∧ out.take k = rspBytes m) := by
  have hm' : r.meaning = some m := by rw [← hw.sem_eq]; exact hm
  have himg := hw.image_eq_spec hm' hn
  refine ⟨himg, fun buf => by rw [hw.encode_eq hi buf, himg], ?_⟩
  intro buf k out h
  obtain ⟨_, rfl, rfl, _⟩ := rsp_ok_inv hw hi h
  exact ⟨by rw [himg], by rw [List.take_left' rfl, himg]⟩

/-- the coil clause in explicit form (as `C02.rsp_roundtrip_coils`, for ANY backed container — dirty padding,
    any source): `n` coils go out in `2 + ⌈n/8⌉` bytes, and decode to a container of `8·⌈n/8⌉` coils whose first
    `n` items are the container's coils (and whose remaining items are off: `C02.rsp_roundtrip_coils_any`) -/
theorem rsp_wf_roundtrip_coils (c : Coils) (hb : c.Backed) (h255 : packedCoilsLen c.quantity ≤ 255)
    (buf : Bytes) (hl : 2 + packedCoilsLen c.quantity ≤ buf.length) :
    ∃ out1 out2 c' l,
      (Response.readCoils c).encode buf = .ok (2 + packedCoilsLen c.quantity, out1) ∧
      (Response.readDiscreteInputs c).encode buf = .ok (2 + packedCoilsLen c.quantity, out2) ∧
      Response.decode (out1.take (2 + packedCoilsLen c.quantity)) = .ok (.readCoils c') ∧
      Response.decode (out2.take (2 + packedCoilsLen c.quantity)) = .ok (.readDiscreteInputs c') ∧
      c'.len = 8 * packedCoilsLen c.quantity ∧ c'.iter = .ok l ∧ l.length = 8 * packedCoilsLen c.quantity ∧
      l.take c.quantity = c.bits ∧ c.iter = .ok c.bits := by
  have hw1 : (Response.readCoils c).Wf := hb
  have hw2 : (Response.readDiscreteInputs c).Wf := hb
  have hn1 : (Response.readCoils c).image.length = 2 + packedCoilsLen c.quantity := by
    have := hw1.pduLen_eq trivial
    simp only [Response.pduLen, Coils.packedLen, Res.ok.injEq] at this; exact this.symm
  have hn2 : (Response.readDiscreteInputs c).image.length = 2 + packedCoilsLen c.quantity := by
    have := hw2.pduLen_eq trivial
    simp only [Response.pduLen, Coils.packedLen, Res.ok.injEq] at this; exact this.symm
  obtain ⟨h1, h2, h3⟩ := hb.rounded
  refine ⟨(Response.readCoils c).image ++ buf.drop (2 + packedCoilsLen c.quantity),
    (Response.readDiscreteInputs c).image ++ buf.drop (2 + packedCoilsLen c.quantity),
    c.rounded, c.rounded.bits, ?_, ?_, ?_, ?_, ?_, h1.iter_eq, ?_, ?_, hb.iter_eq⟩
  · rw [hw1.encode_eq trivial buf, if_pos (show (Response.readCoils c).CountFits from h255), hn1, if_neg (by omega)]
  · rw [hw2.encode_eq trivial buf, if_pos (show (Response.readDiscreteInputs c).CountFits from h255), hn2, if_neg (by omega)]
  · rw [List.take_left' hn1]; exact (Response.redecode_coils c h255 hb).1
  · rw [List.take_left' hn2]; exact (Response.redecode_coils c h255 hb).2
  · simp [Coils.len, Coils.rounded, Nat.mul_comm]
  · rw [h2, Coils.bits_length]; rfl
  · have := h3; rwa [Coils.bits_length] at this

/-! ### 3. the `Built` relations are instances -/

/-- every request built through the public constructors is well-formed, has clean padding, is of an
    implemented kind, and `m` is its meaning -/
theorem built_wf {r : Request} {m : ReqMeaning} (hb : r.Built m) :
    r.Wf ∧ r.sem = some m ∧ r.CleanPad ∧ r.Implemented ∧ r.meaning = some m := by
  cases hb with
  | writeMultipleCoils a bs t c h =>
    obtain ⟨h1, h2, h3⟩ := fromBools_backed bs t c h
    have hw : (Request.writeMultipleCoils a c).Wf := h1
    refine ⟨hw, ?_, h2, trivial, ?_⟩
    · rw [hw.sem_eq]; simp only [Request.meaning, h3]
    · simp only [Request.meaning, h3]
  | writeMultipleRegisters a ws t d h =>
    obtain ⟨h1, h2⟩ := fromWords_exact ws t d h
    have hw : (Request.writeMultipleRegisters a d).Wf := h1
    refine ⟨hw, ?_, trivial, trivial, ?_⟩
    · rw [hw.sem_eq]; simp only [Request.meaning, h2]
    · simp only [Request.meaning, h2]
  | readWriteMultipleRegisters ra rq wa ws t d h =>
    obtain ⟨h1, h2⟩ := fromWords_exact ws t d h
    have hw : (Request.readWriteMultipleRegisters ra rq wa d).Wf := h1
    refine ⟨hw, ?_, trivial, trivial, ?_⟩
    · rw [hw.sem_eq]; simp only [Request.meaning, h2]
    · simp only [Request.meaning, h2]
  | _ => exact ⟨trivial, rfl, trivial, trivial, rfl⟩

theorem built_rsp_wf {r : Response} {m : RspMeaning} (hb : BuiltRsp r m) :
    r.Wf ∧ r.sem = some m ∧ r.CleanPad ∧ r.Implemented ∧ r.meaning = some m := by
  have hsem := hb.sem_eq
  have key : r.Wf ∧ r.CleanPad ∧ r.Implemented := by
    cases hb with
    | readCoils h => obtain ⟨h1, h2, _⟩ := Coils.fromBools_backed' h; exact ⟨h1, h2, trivial⟩
    | readDiscreteInputs h => obtain ⟨h1, h2, _⟩ := Coils.fromBools_backed' h; exact ⟨h1, h2, trivial⟩
    | readHoldingRegisters h => exact ⟨(Data.fromWords_exact' h).1, trivial, trivial⟩
    | readInputRegisters h => exact ⟨(Data.fromWords_exact' h).1, trivial, trivial⟩
    | readWriteMultipleRegisters h => exact ⟨(Data.fromWords_exact' h).1, trivial, trivial⟩
    | _ => exact ⟨trivial, trivial, trivial⟩
  exact ⟨key.1, hsem, key.2.1, key.2.2, by rw [← key.1.sem_eq]; exact hsem⟩

/-- so `C19Req.req_no_truncation` is the instance of `req_wf_no_truncation` at a built value: same
    conclusion (no panic; success only with the count fitting, the spec's bytes, the round trip) -/
theorem built_instance {r : Request} {m : ReqMeaning} (hb : r.Built m) (buf : Bytes) :
    r.encode buf ≠ .panic ∧
    ∀ k out, r.encode buf = .ok (k, out) →
      r.CountFits ∧ k = (reqBytes m).length ∧ out.take k = reqBytes m ∧
      (m.InScope → ∃ r', Request.decode (out.take k) = .ok r' ∧ r'.sem = some m) := by
  obtain ⟨hw, hsem, _, hi, hm⟩ := built_wf hb
  obtain ⟨m', n, hm', _, _, hall⟩ := req_wf_no_truncation r hw hi
  have : m' = m := by rw [hm] at hm'; exact (Option.some.inj hm').symm
  subst this
  obtain ⟨hnp, _, _, hok⟩ := hall buf
  refine ⟨hnp, fun k out h => ?_⟩
  obtain ⟨hf, _, _, _, _, hrt, _⟩ := hok k out h
  obtain ⟨_, _, hconf⟩ := req_wf_conforms r hw hi m' hsem
  obtain ⟨hk, hbytes⟩ := hconf buf k out h
  exact ⟨hf, hk, hbytes, fun hs => by rw [← hsem]; exact hrt hs⟩

/-! ### 4. non-vacuity: transplanted containers (kernel-evaluated) -/

/-- (a) the `Coils` decoded from the RESPONSE `01 02 FF 03` (16 coils), used in a write-multiple-coils
    REQUEST: sourced, well-formed, clean padding; encoded as `0F 00 13 00 10 02 FF 03`, which is the
    specification's PDU and decodes to a request with the same meaning -/
example :
    Response.decode [0x01, 0x02, 0xFF, 0x03] = .ok (.readCoils ⟨[0xFF, 0x03], 16⟩) ∧
    CoilsSourced ⟨[0xFF, 0x03], 16⟩ ∧
    (Request.writeMultipleCoils 0x13 ⟨[0xFF, 0x03], 16⟩).Wf ∧
    (Request.writeMultipleCoils 0x13 ⟨[0xFF, 0x03], 16⟩).CleanPad ∧
    (Request.writeMultipleCoils 0x13 ⟨[0xFF, 0x03], 16⟩).encode (List.replicate 9 0x55) =
      .ok (8, [0x0F, 0x00, 0x13, 0x00, 0x10, 0x02, 0xFF, 0x03, 0x55]) ∧
    reqBytes (.writeMultipleCoils 0x13 (Coils.mk [0xFF, 0x03] 16).bits) =
      [0x0F, 0x00, 0x13, 0x00, 0x10, 0x02, 0xFF, 0x03] ∧
    Request.decode [0x0F, 0x00, 0x13, 0x00, 0x10, 0x02, 0xFF, 0x03] =
      .ok (.writeMultipleCoils 0x13 ⟨[0xFF, 0x03], 16⟩) :=
  ⟨by decide +kernel, .rspReadCoils [0x01, 0x02, 0xFF, 0x03] _ (by decide +kernel), by decide +kernel,
    by decide +kernel, by decide +kernel, by decide +kernel, by decide +kernel⟩

/-- … and the general theorems apply to it -/
example (buf : Bytes) (k : Nat) (out : Bytes)
    (h : (Request.writeMultipleCoils 0x13 ⟨[0xFF, 0x03], 16⟩).encode buf = .ok (k, out)) :
    out.take k = [0x0F, 0x00, 0x13, 0x00, 0x10, 0x02, 0xFF, 0x03] := by
  have hw : (Request.writeMultipleCoils 0x13 ⟨[0xFF, 0x03], 16⟩).Wf := by decide +kernel
  obtain ⟨_, _, hc⟩ := req_wf_conforms _ hw trivial
    (.writeMultipleCoils 0x13 (Coils.mk [0xFF, 0x03] 16).bits) (by rw [hw.sem_eq]; rfl)
  have := (hc buf k out h).2
  rw [this]; decide +kernel

/-- (b) the `Data` decoded from the RESPONSE `03 04 00 01 00 02` (two registers), used in a
    read-write-multiple-registers REQUEST -/
example :
    Response.decode [0x03, 0x04, 0x00, 0x01, 0x00, 0x02] = .ok (.readHoldingRegisters ⟨[0x00, 0x01, 0x00, 0x02], 2⟩) ∧
    DataSourced ⟨[0x00, 0x01, 0x00, 0x02], 2⟩ ∧
    (Request.readWriteMultipleRegisters 5 1 7 ⟨[0x00, 0x01, 0x00, 0x02], 2⟩).Wf ∧
    (Request.readWriteMultipleRegisters 5 1 7 ⟨[0x00, 0x01, 0x00, 0x02], 2⟩).encode (List.replicate 14 0x55) =
      .ok (14, [0x17, 0x00, 0x05, 0x00, 0x01, 0x00, 0x07, 0x00, 0x02, 0x04, 0x00, 0x01, 0x00, 0x02]) ∧
    reqBytes (.readWriteMultipleRegisters 5 1 7 [1, 2]) =
      [0x17, 0x00, 0x05, 0x00, 0x01, 0x00, 0x07, 0x00, 0x02, 0x04, 0x00, 0x01, 0x00, 0x02] ∧
    (Data.mk [0x00, 0x01, 0x00, 0x02] 2).words = [1, 2] ∧
    Request.decode [0x17, 0x00, 0x05, 0x00, 0x01, 0x00, 0x07, 0x00, 0x02, 0x04, 0x00, 0x01, 0x00, 0x02] =
      .ok (.readWriteMultipleRegisters 5 1 7 ⟨[0x00, 0x01, 0x00, 0x02], 2⟩) :=
  ⟨by decide +kernel, .rspReadHoldingRegisters [0x03, 0x04, 0x00, 0x01, 0x00, 0x02] _ (by decide +kernel),
    by decide +kernel, by decide +kernel, by decide +kernel, by decide +kernel, by decide +kernel⟩

/-- (c) **dirty padding is cleared on the wire.**  The `Coils` decoded from the REQUEST `0F 00 01 00 03 01 FF`
    (quantity 3, data byte `FF`: the five padding bits are set) is sourced and backed but NOT clean in its raw
    slice.  Used in a Read Coils RESPONSE it is encoded as `01 01 07` — the specification's PDU of its three
    coils, padding bits zero — which decodes to EIGHT coils, the leading three on, the rest off; and
    re-encoding the decoded request itself gives `0F 00 01 00 03 01 07`. -/
theorem dirty_padding_cleared :
    Request.decode [0x0F, 0x00, 0x01, 0x00, 0x03, 0x01, 0xFF] = .ok (.writeMultipleCoils 1 ⟨[0xFF], 3⟩) ∧
    ¬ WmcTruncated [0x0F, 0x00, 0x01, 0x00, 0x03, 0x01, 0xFF] ∧
    CoilsSourced ⟨[0xFF], 3⟩ ∧
    (Response.readCoils ⟨[0xFF], 3⟩).Wf ∧ ¬ (Response.readCoils ⟨[0xFF], 3⟩).CleanPad ∧
    (Response.readCoils ⟨[0xFF], 3⟩).sem = some (.readCoils [true, true, true]) ∧
    (Response.readCoils ⟨[0xFF], 3⟩).encode [0, 0, 0] = .ok (3, [0x01, 0x01, 0x07]) ∧
    rspBytes (.readCoils [true, true, true]) = [0x01, 0x01, 0x07] ∧
    Response.decode [0x01, 0x01, 0x07] = .ok (.readCoils ⟨[0x07], 8⟩) ∧
    (Coils.mk [0x07] 8).iter = .ok [true, true, true, false, false, false, false, false] ∧
    (Request.writeMultipleCoils 1 ⟨[0xFF], 3⟩).encode (List.replicate 7 0) =
      .ok (7, [0x0F, 0x00, 0x01, 0x00, 0x03, 0x01, 0x07]) ∧
    reqBytes (.writeMultipleCoils 1 [true, true, true]) = [0x0F, 0x00, 0x01, 0x00, 0x03, 0x01, 0x07] :=
  ⟨by decide +kernel, by decide +kernel,
    .reqWriteMultipleCoils [0x0F, 0x00, 0x01, 0x00, 0x03, 0x01, 0xFF] 1 _ (by decide +kernel) (by decide +kernel),
    by decide +kernel, by decide +kernel, by decide +kernel, by decide +kernel, by decide +kernel,
    by decide +kernel, by decide +kernel, by decide +kernel, by decide +kernel⟩

/-- the general theorems on (c): whatever buffer, on success the bytes written are the specification's PDU, and
    the three bytes decode to 8 coils whose first three are the container's -/
example (buf : Bytes) (k : Nat) (out : Bytes) (h : (Response.readCoils ⟨[0xFF], 3⟩).encode buf = .ok (k, out)) :
    out.take k = [0x01, 0x01, 0x07] := by
  have hw : (Response.readCoils ⟨[0xFF], 3⟩).Wf := by decide +kernel
  obtain ⟨_, _, hc⟩ := rsp_wf_conforms _ hw trivial (.readCoils (Coils.mk [0xFF] 3).bits)
    (by rw [hw.sem_eq]; rfl) (fun a h => by cases h)
  rw [(hc buf k out h).2]; decide +kernel

example : ∃ out c' l, (Response.readCoils ⟨[0xFF], 3⟩).encode [9, 9, 9, 9] = .ok (3, out) ∧
    Response.decode (out.take 3) = .ok (.readCoils c') ∧ c'.len = 8 ∧ c'.iter = .ok l ∧ l.length = 8 ∧
    l.take 3 = [true, true, true] := by
  obtain ⟨out1, _, c', l, h1, _, h3, _, h5, h6, h7, h8, _⟩ :=
    rsp_wf_roundtrip_coils ⟨[0xFF], 3⟩ (by decide +kernel) (by decide +kernel) [9, 9, 9, 9] (by decide +kernel)
  exact ⟨out1, c', l, h1, h3, h5, h6, h7, by rw [show (3 : Nat) = (Coils.mk [0xFF] 3).quantity from rfl, h8]; decide +kernel⟩

/-- (d) outside the invariant (open finding D5b): the `Coils` decoded from the truncated request
    `0F 33 11 00 04 00` (quantity 4, no data) is not backed; in a Read Coils response `pdu_len` says 3 and
    `encode` into a 3-byte buffer panics (`copy_to` indexes the empty slice) -/
theorem unbacked_transplant_witness :
    Request.decode [0x0F, 0x33, 0x11, 0x00, 0x04, 0x00] = .ok (.writeMultipleCoils 0x3311 ⟨[], 4⟩) ∧
    WmcTruncated [0x0F, 0x33, 0x11, 0x00, 0x04, 0x00] ∧
    ¬ (Response.readCoils ⟨[], 4⟩).Wf ∧
    (Response.readCoils ⟨[], 4⟩).pduLen = .ok 3 ∧
    (Response.readCoils ⟨[], 4⟩).encode [0, 0, 0] = .panic :=
  ⟨by decide +kernel, by decide +kernel, by decide +kernel, by decide +kernel, by decide +kernel⟩

/-- (e) quantity 0 is constructible by decoding (`03 01 7F`: byte count 1, no whole register) and is
    well-formed; the request built from it encodes to `10 00 01 00 00 00`, which the decoder accepts -/
example :
    Response.decode [0x03, 0x01, 0x7F] = .ok (.readHoldingRegisters ⟨[], 0⟩) ∧
    (Request.writeMultipleRegisters 1 ⟨[], 0⟩).Wf ∧
    (Request.writeMultipleRegisters 1 ⟨[], 0⟩).encode (List.replicate 6 0x55) =
      .ok (6, [0x10, 0x00, 0x01, 0x00, 0x00, 0x00]) ∧
    Request.decode [0x10, 0x00, 0x01, 0x00, 0x00, 0x00] = .ok (.writeMultipleRegisters 1 ⟨[], 0⟩) ∧
    ¬ (ReqMeaning.writeMultipleRegisters 1 []).fits :=
  ⟨by decide +kernel, by decide +kernel, by decide +kernel, by decide +kernel, by decide⟩

/-- (f) oversize through a transplant: 2041 coils do not fit; `Err(BufferSize)` for every buffer -/
example (buf : Bytes) (data : Bytes) (h : 256 ≤ data.length) :
    (Request.writeMultipleCoils 0 ⟨data, 2041⟩).encode buf = .err .bufferSize := by
  have hw : (Request.writeMultipleCoils 0 ⟨data, 2041⟩).Wf := by
    show packedCoilsLen 2041 ≤ data.length
    have : packedCoilsLen 2041 = 256 := by decide
    omega
  obtain ⟨_, _, _, _, _, hall⟩ := req_wf_no_truncation _ hw trivial
  exact (hall buf).2.1 (by show ¬ packedCoilsLen 2041 ≤ 255; decide)

end Modbus.C19Wf

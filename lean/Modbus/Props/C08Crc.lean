import Modbus.Lemmas.CrcDetect
import Modbus.Lemmas.CrcOrbit
/-
C08 (error-detection half) — a valid RTU frame altered by any single-bit error, any error burst up
to 16 bits long, or (frames of at most 256 bytes) any double-bit error fails the CRC comparison of
`rtu::extract_frame` at full length.

`CrcOk f` (Lemmas/CrcDetect.lean) is that comparison for the whole of `f` taken as the frame: the
last two bytes read big-endian equal `crc16` of the rest.  `xorBytes F E` applies the error pattern
`E` to `F`; `errBit E k` is bit `k` of `E` in transmission order (byte `k / 8`, bit `k % 8`, least
significant first), the order in which the reflected CRC consumes the bits.  All theorems hold for
every frame length unless a bound is stated.
-/
namespace Modbus.C08Crc
open Modbus.Crc

def goodFrame : Bytes := [0x11, 0x01, 0x00, 0x01, 0x00, 0x02, 0xEE, 0x9B]
def goodParsed : Rtu.Frame := { slave := 0x11, pdu := [0x01, 0x00, 0x01, 0x00, 0x02] }

/-- (a) the extractor's comparison succeeds iff the register run over the whole frame, CRC bytes
    included, ends at zero -/
theorem crcOk_iff_residue (f : Bytes) : CrcOk f ↔ crcRaw 0xFFFF f = 0 :=
  Crc.crcOk_iff_residue f

example : CrcOk goodFrame := by decide +kernel
example : crcRaw 0xFFFF goodFrame = 0 := by decide +kernel

/-- (b) linearity over equal-length strings -/
theorem crc_linear (M E : Bytes) (h : M.length = E.length) (i : UInt16) :
    crcRaw i (xorBytes M E) = crcRaw i M ^^^ crcRaw 0 E :=
  crcRaw_xorBytes M E h i

example : crcRaw 0xFFFF (xorBytes goodFrame [0, 0, 0x40, 0, 0, 0, 0, 0])
    = crcRaw 0xFFFF goodFrame ^^^ crcRaw 0 [0, 0, 0x40, 0, 0, 0, 0, 0] := by decide +kernel

/-- consequence of (a) and (b): an error pattern on a valid frame goes unnoticed iff the pattern's
    own register value (from start value 0) is zero -/
theorem crcOk_xor_iff (F E : Bytes) (hF : CrcOk F) (hlen : E.length = F.length) :
    CrcOk (xorBytes F E) ↔ crcRaw 0 E = 0 :=
  Crc.crcOk_xor_iff F E hF hlen

/-- (c) burst errors: if the set bits of the error pattern are non-empty and all lie within a
    window of 16 consecutive transmitted bit positions, the corrupted frame fails the comparison -/
theorem crc_detects_burst (F E : Bytes) (hF : CrcOk F) (hlen : E.length = F.length) (p : Nat)
    (hex : ∃ k, k < 8 * E.length ∧ errBit E k = true)
    (hwin : ∀ k, k < 8 * E.length → errBit E k = true → p ≤ k ∧ k < p + 16) :
    ¬ CrcOk (xorBytes F E) := by
  rw [Crc.crcOk_xor_iff F E hF hlen]
  apply crcRaw_zero_ne_zero_of_feed
  apply feed_window_ne_zero _ p
  · intro k hk hb
    rw [messageBits_getElem] at hb
    rw [messageBits_length] at hk
    exact hwin k hk hb
  · obtain ⟨k, hk, hb⟩ := hex
    refine ⟨k, by rw [messageBits_length]; exact hk, ?_⟩
    rw [messageBits_getElem]; exact hb

/-- a 16-bit burst straddling three bytes (bits 20..35) of the 8-byte frame -/
example : ¬ CrcOk (xorBytes goodFrame [0, 0, 0x90, 0xA5, 0x0F, 0, 0, 0]) :=
  crc_detects_burst goodFrame [0, 0, 0x90, 0xA5, 0x0F, 0, 0, 0] (by decide +kernel) rfl 20
    (by decide +kernel) (by decide +kernel)

/-- single-bit errors: exactly one flipped bit, anywhere in the frame (CRC bytes included) -/
theorem crc_detects_single (F E : Bytes) (hF : CrcOk F) (hlen : E.length = F.length) (p : Nat)
    (hp : p < 8 * E.length)
    (hE : ∀ k, k < 8 * E.length → (errBit E k = true ↔ k = p)) :
    ¬ CrcOk (xorBytes F E) := by
  apply crc_detects_burst F E hF hlen p
  · exact ⟨p, hp, (hE p hp).mpr rfl⟩
  · intro k hk hb
    have := (hE k hk).mp hb
    omega

example : ¬ CrcOk (xorBytes goodFrame [0, 0, 0x40, 0, 0, 0, 0, 0]) :=
  crc_detects_single goodFrame [0, 0, 0x40, 0, 0, 0, 0, 0] (by decide +kernel) rfl 22
    (by decide) (by decide +kernel)

/-- (d) double-bit errors: exactly two flipped bits at transmitted positions `p < q` with
    `q - p ≤ 2047` — the round's orbit of 1 does not return to 1 within 2047 steps (one kernel
    computation, `Crc.orbit_2047`) -/
theorem crc_detects_double_dist (F E : Bytes) (hF : CrcOk F) (hlen : E.length = F.length) (p q : Nat)
    (hpq : p < q) (hq : q < 8 * E.length) (hd : q - p ≤ 2047)
    (hE : ∀ k, k < 8 * E.length → (errBit E k = true ↔ (k = p ∨ k = q))) :
    ¬ CrcOk (xorBytes F E) := by
  rw [Crc.crcOk_xor_iff F E hF hlen]
  apply crcRaw_zero_ne_zero_of_feed
  apply feed_two_ne_zero _ p q hpq (by rw [messageBits_length]; exact hq) hd
  intro k hk
  rw [messageBits_getElem]
  rw [messageBits_length] at hk
  exact hE k hk

/-- … in particular every double-bit error in a frame of at most 256 bytes (the RTU maximum) -/
theorem crc_detects_double (F E : Bytes) (hF : CrcOk F) (hlen : E.length = F.length)
    (h256 : F.length ≤ 256) (p q : Nat) (hpq : p < q) (hq : q < 8 * E.length)
    (hE : ∀ k, k < 8 * E.length → (errBit E k = true ↔ (k = p ∨ k = q))) :
    ¬ CrcOk (xorBytes F E) :=
  crc_detects_double_dist F E hF hlen p q hpq hq (by omega) hE

example : ¬ CrcOk (xorBytes goodFrame [0x01, 0, 0, 0, 0, 0, 0, 0x80]) :=
  crc_detects_double goodFrame [0x01, 0, 0, 0, 0, 0, 0, 0x80] (by decide +kernel) rfl (by decide) 0 63
    (by decide) (by decide) (by decide +kernel)

/-- beyond the property's 256-byte bound: two flipped bits at any distance up to 32766 are detected
    (the round's period on 1 is 32767; `Crc.orbit_32766`, sixteen kernel computations of ≤ 2048 steps) -/
theorem crc_detects_double_dist_full (F E : Bytes) (hF : CrcOk F) (hlen : E.length = F.length)
    (p q : Nat) (hpq : p < q) (hq : q < 8 * E.length) (hd : q - p ≤ 32766)
    (hE : ∀ k, k < 8 * E.length → (errBit E k = true ↔ (k = p ∨ k = q))) :
    ¬ CrcOk (xorBytes F E) := by
  rw [Crc.crcOk_xor_iff F E hF hlen]
  apply crcRaw_zero_ne_zero_of_feed
  apply feed_two_ne_zero_of _ p q hpq (by rw [messageBits_length]; exact hq)
    (Lpow_one_ne_one_full _ (by omega) hd)
  intro k hk
  rw [messageBits_getElem]
  rw [messageBits_length] at hk
  exact hE k hk

/-- … hence every double-bit error in a frame of at most 4095 bytes -/
theorem crc_detects_double_4095 (F E : Bytes) (hF : CrcOk F) (hlen : E.length = F.length)
    (h4095 : F.length ≤ 4095) (hE : DoubleBit E) : ¬ CrcOk (xorBytes F E) := by
  obtain ⟨p, q, hpq, hq, h2⟩ := hE
  exact crc_detects_double_dist_full F E hF hlen p q hpq hq (by omega) h2

example : ¬ CrcOk (xorBytes goodFrame [0x01, 0, 0, 0, 0, 0, 0, 0x80]) :=
  crc_detects_double_4095 goodFrame [0x01, 0, 0, 0, 0, 0, 0, 0x80] (by decide +kernel) rfl (by decide)
    ⟨0, 63, by decide, by decide, by decide +kernel⟩

/-! ### every bit position, every pair of positions: concrete error patterns

`bitError n p` is the `n`-byte pattern with only transmitted bit `p` set. -/

/-- flipping any one bit of a valid frame (any length) is detected -/
theorem crc_detects_single_flip (F : Bytes) (hF : CrcOk F) (p : Nat) (hp : p < 8 * F.length) :
    ¬ CrcOk (xorBytes F (bitError F.length p)) := by
  obtain ⟨p', hp', hE⟩ := singleBit_bitError F.length p hp
  exact crc_detects_single F _ hF (by simp) p' hp' hE

/-- flipping any two distinct bits of a valid frame of at most 256 bytes is detected -/
theorem crc_detects_double_flip (F : Bytes) (hF : CrcOk F) (h256 : F.length ≤ 256) (p q : Nat)
    (hpq : p < q) (hq : q < 8 * F.length) :
    ¬ CrcOk (xorBytes F (xorBytes (bitError F.length p) (bitError F.length q))) := by
  obtain ⟨p', q', hpq', hq', hE⟩ := doubleBit_bitError F.length p q hpq hq
  exact crc_detects_double F _ hF (by simp) h256 p' q' hpq' hq' hE

example : ¬ CrcOk (xorBytes goodFrame (bitError goodFrame.length 22)) :=
  crc_detects_single_flip goodFrame (by decide +kernel) 22 (by decide)
example : ¬ CrcOk (xorBytes goodFrame (xorBytes (bitError goodFrame.length 0) (bitError goodFrame.length 63))) :=
  crc_detects_double_flip goodFrame (by decide +kernel) (by decide) 0 63 (by decide) (by decide)
example : xorBytes goodFrame (bitError 8 22) = [0x11, 0x01, 0x40, 0x01, 0x00, 0x02, 0xEE, 0x9B] := by
  decide +kernel
example : xorBytes goodFrame (xorBytes (bitError 8 0) (bitError 8 63))
    = [0x10, 0x01, 0x00, 0x01, 0x00, 0x02, 0xEE, 0x1B] := by decide +kernel

/-! ### the extractor itself

`Rtu.extractFrame F (F.length - 3)` is `rtu::extract_frame` asked for the frame that occupies all of
`F` (PDU length = length − 3).  It returns a frame exactly when `3 ≤ F.length` and `CrcOk F`
(`Crc.extract_full`, `Crc.extract_full_ok`); the corrupted string has the same length, so "the
full-length frame at the original position" is `extractFrame (F ⊕ E) (F.length - 3)`. -/

/-- `CrcOk` is exactly the extractor's verdict at full length -/
theorem extract_full_iff (f : Bytes) :
    (∃ fr, Rtu.extractFrame f (f.length - 3) = .ok (some fr)) ↔
      (3 ≤ f.length ∧ f.length < usizeLimit ∧ CrcOk f) := by
  constructor
  · rintro ⟨fr, h⟩; exact extract_full_ok f fr h
  · rintro ⟨h3, hlt, hok⟩; exact (extract_full f h3 hlt).1 hok

/-- the combined statement of DESIGN.md §6 C08: a frame accepted at full length, hit by a single-bit
    error, a burst of at most 16 bits, or (length ≤ 256) a double-bit error, is rejected with
    `Error::Crc` at full length -/
theorem crc_detects (F E : Bytes) (fr : Rtu.Frame)
    (hF : Rtu.extractFrame F (F.length - 3) = .ok (some fr)) (hlen : E.length = F.length)
    (hE : SingleBit E ∨ Burst16 E ∨ (DoubleBit E ∧ F.length ≤ 256)) :
    ∃ e a, Rtu.extractFrame (xorBytes F E) (F.length - 3) = .err (.crc e a) := by
  obtain ⟨h3, hlt, hok⟩ := extract_full_ok F fr hF
  have hl : (xorBytes F E).length = F.length := by simp [hlen]
  have hbad : ¬ CrcOk (xorBytes F E) := by
    rcases hE with ⟨p, hp, h1⟩ | ⟨hex, p, hwin⟩ | ⟨⟨p, q, hpq, hq, h2⟩, h256⟩
    · exact crc_detects_single F E hok hlen p hp h1
    · exact crc_detects_burst F E hok hlen p hex hwin
    · exact crc_detects_double F E hok hlen h256 p q hpq hq h2
  have := (extract_full (xorBytes F E) (by omega) (by omega)).2 hbad
  rw [hl] at this
  exact this

example : ∃ e a, Rtu.extractFrame (xorBytes goodFrame (bitError 8 22)) (goodFrame.length - 3) = .err (.crc e a) :=
  crc_detects goodFrame (bitError 8 22) goodParsed (by decide +kernel) (by decide)
    (Or.inl (singleBit_bitError 8 22 (by decide)))
example : ∃ e a, Rtu.extractFrame (xorBytes goodFrame (xorBytes (bitError 8 0) (bitError 8 63)))
    (goodFrame.length - 3) = .err (.crc e a) :=
  crc_detects goodFrame _ goodParsed (by decide +kernel) (by decide)
    (Or.inr (Or.inr ⟨doubleBit_bitError 8 0 63 (by decide) (by decide), by decide⟩))
example : Rtu.extractFrame goodFrame (goodFrame.length - 3)
    = .ok (some { slave := 0x11, pdu := [0x01, 0x00, 0x01, 0x00, 0x02] }) := by decide +kernel
example : Rtu.extractFrame (xorBytes goodFrame (bitError 8 22)) (goodFrame.length - 3)
    = .err (.crc 0xEE9B 0xFB5B) := by decide +kernel

end Modbus.C08Crc

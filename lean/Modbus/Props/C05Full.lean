import Modbus.Lemmas.AduCompose
import Modbus.Props.C05
/-
C05 — TCP (MBAP) ADU round-trip, end to end, with NO PDU-level hypothesis left.

Props/C05.lean proves the framing half and takes the PDU-level round trip (C01 / C02) as a hypothesis
for the variable-payload kinds.  Here the two halves are composed, for every value a user can build
through the public constructors (`Request.Built r m`, `BuiltRsp r m`: fixed kinds with every 16-bit
field, payload kinds through `Coils::from_bools` / `Data::from_words` over any target, custom kinds
with any `FunctionCode` value), in the property's own words:

* the encoder succeeds on every buffer of at least PDU length + 7 bytes and reports PDU length + 7;
* those bytes are `Spec.tcpFrame tid uid pdu` where `pdu` is the SPECIFICATION's PDU of the meaning
  (`Spec.reqBytes m` / `Spec.rspBytes m`): transaction id big-endian, protocol id 0, length =
  PDU length + 1 big-endian, unit id, PDU (`tcp_request_frame_fields`, `tcp_response_frame_fields`);
* decoding them returns the same transaction id, the same unit id and a value with the same meaning
  (`Request.sem` / `Response.sem`; coil-read responses rounded up to whole bytes, `RspMeaning.padded`);
* an exception response comes back as that exception, never as a successful response.

Hypotheses that remain, all about the VALUE, none about the codec:
  `m.fits`     the payload's byte count fits the one-byte count field (1..=2040 coils, 1..=127 words);
  `m.InScope` / `InScopeRsp m`   a custom code is not one of the nine (responses: ten, with 0x07) the decoder models as a dedicated
               kind (requests: and is below 0x80);
  `m.Framed`   `True` for the nine standard kinds; for a custom code: code :: data is a complete PDU of
               the specification's length table (responses: and the code is below 0x80);
  `m.MbapLen`  `True` for the standard kinds; custom response: data.length + 2 < 65536.

Open finding D12 (not repaired, pinned by the unedited test-suite): the crate's write-single-coil
response has three bytes, the table says five, so that response kind is excluded
(`tcp_response_end_to_end_partial`); the full statement and its refutation are below.
-/
namespace Modbus.C05Full
open Modbus.AduRT

/-! ### requests -/

/-- **Requests, end to end.**  Every built request whose payload fits, every transaction id (65536),
    every unit id (256), every buffer with room for PDU + 7 bytes: `tcp::server::encode_request` writes
    exactly the MBAP frame of the specification's PDU, and `tcp::server::decode_request` on those bytes
    returns the same transaction id, the same unit id and a request with the same meaning. -/
theorem tcp_request_end_to_end {r : Request} {m : Spec.ReqMeaning}
    (hb : r.Built m) (hf : m.fits) (hs : m.InScope) (hfr : m.Framed)
    (tid : UInt16) (uid : UInt8) (buf : Bytes) (hl : (Spec.reqBytes m).length + 7 ≤ buf.length) :
    ∃ n out r', Tcp.encodeRequest tid uid r buf = .ok (n, out) ∧
      n = (Spec.reqBytes m).length + 7 ∧
      out.take n = Spec.tcpFrame tid uid (Spec.reqBytes m) ∧
      Tcp.decodeRequest (out.take n) = .ok (some (tid, uid, r')) ∧
      r'.sem = some m := by
  obtain ⟨r', hd, hsem⟩ := hb.decode_image hf hs
  have hi := hb.image_eq
  obtain ⟨out, h1, h2, h3, _⟩ := C05.tcp_req_encode_decode tid uid r r' buf (hb.encodable_iff.mpr hf)
    (by rw [hi]; exact hl) (hb.complete hf hfr) hd
  rw [hi] at h1 h2 h3
  exact ⟨_, out, r', h1, rfl, h2, h3, hsem⟩

/-- the same when the decoder is handed the whole output buffer — the frame followed by whatever the
    buffer held beyond it -/
theorem tcp_request_end_to_end_buffer {r : Request} {m : Spec.ReqMeaning}
    (hb : r.Built m) (hf : m.fits) (hs : m.InScope) (hfr : m.Framed)
    (tid : UInt16) (uid : UInt8) (buf : Bytes) (hl : (Spec.reqBytes m).length + 7 ≤ buf.length) :
    ∃ n out r', Tcp.encodeRequest tid uid r buf = .ok (n, out) ∧
      out = Spec.tcpFrame tid uid (Spec.reqBytes m) ++ buf.drop n ∧
      Tcp.decodeRequest out = .ok (some (tid, uid, r')) ∧
      r'.sem = some m := by
  obtain ⟨r', hd, hsem⟩ := hb.decode_image hf hs
  have hi := hb.image_eq
  have he := hb.encodable_iff.mpr hf
  have hl' : r.image.length + 7 ≤ buf.length := by rw [hi]; exact hl
  obtain ⟨out, h1, _, _, h4⟩ := C05.tcp_req_encode_decode tid uid r r' buf he hl' (hb.complete hf hfr) hd
  have h1' := C05.tcp_req_layout tid uid r buf he (C05.tcp_req_complete_length_field _ (hb.complete hf hfr)).2 hl'
  rw [h1'] at h1
  have ho : out = Spec.tcpFrame tid uid r.image ++ buf.drop (r.image.length + 7) := by
    cases h1; rfl
  rw [hi] at ho
  refine ⟨_, out, r', ?_, ho, h4, hsem⟩
  rw [h1', hi, ho]

/-- a buffer shorter than PDU + 7 is refused with `BufferSize` — no partial frame, no panic -/
theorem tcp_request_short_buffer {r : Request} {m : Spec.ReqMeaning}
    (hb : r.Built m) (hf : m.fits)
    (tid : UInt16) (uid : UInt8) (buf : Bytes) (hl : buf.length < (Spec.reqBytes m).length + 7) :
    Tcp.encodeRequest tid uid r buf = .err .bufferSize :=
  C05.tcp_req_layout_short tid uid r buf (hb.encodable_iff.mpr hf) (by rw [hb.image_eq]; exact hl)

/-- the frame of `tcp_request_end_to_end`, field by field: transaction id big-endian, protocol id 0,
    length = PDU length + 1 big-endian (exact: a request PDU has at most 265 bytes), unit id, the
    specification's PDU; PDU length + 7 bytes in all; a well-formed frame of Spec/Frames.lean -/
theorem tcp_request_frame_fields {r : Request} {m : Spec.ReqMeaning}
    (hb : r.Built m) (hf : m.fits) (hfr : m.Framed) (tid : UInt16) (uid : UInt8) :
    Spec.tcpFrame tid uid (Spec.reqBytes m) =
      [UInt8.ofNat (tid.toNat / 256), UInt8.ofNat (tid.toNat % 256), 0, 0,
       UInt8.ofNat (((Spec.reqBytes m).length + 1) / 256), UInt8.ofNat (((Spec.reqBytes m).length + 1) % 256),
       uid] ++ Spec.reqBytes m ∧
    (Spec.tcpFrame tid uid (Spec.reqBytes m)).length = (Spec.reqBytes m).length + 7 ∧
    (Spec.reqBytes m).length ≤ 265 ∧
    Spec.WellFormedTcp .req (Spec.tcpFrame tid uid (Spec.reqBytes m)) := by
  have hc := hb.reqBytes_complete hf hfr
  obtain ⟨h265, hn⟩ := C05.tcp_req_complete_length_field _ hc
  obtain ⟨h1, h2⟩ := C05.tcp_frame_fields tid uid (Spec.reqBytes m) hn
  exact ⟨h1, h2, h265, tid, uid, _, hc, hn, rfl⟩

/-! non-vacuity.  A nine-coil write-multiple-coils request built by `Coils::from_bools` over a dirty
    three-byte target; a 127-word bound; a custom PDU the table knows (0x16, mask write register). -/
example : Coils.fromBools [true, false, true, true, false, false, true, true, true] [0xEE, 0xEE, 0xEE] =
    .ok ⟨[0xCD, 0x01], 9⟩ := by decide +kernel

example : ∃ n out r',
    Tcp.encodeRequest 0xABCD 0x2A (.writeMultipleCoils 5 ⟨[0xCD, 0x01], 9⟩) (List.replicate 16 0xEE) = .ok (n, out) ∧
    n = (Spec.reqBytes (.writeMultipleCoils 5 [true, false, true, true, false, false, true, true, true])).length + 7 ∧
    out.take n = Spec.tcpFrame 0xABCD 0x2A
      (Spec.reqBytes (.writeMultipleCoils 5 [true, false, true, true, false, false, true, true, true])) ∧
    Tcp.decodeRequest (out.take n) = .ok (some (0xABCD, 0x2A, r')) ∧
    r'.sem = some (.writeMultipleCoils 5 [true, false, true, true, false, false, true, true, true]) :=
  tcp_request_end_to_end
    (.writeMultipleCoils 5 [true, false, true, true, false, false, true, true, true] [0xEE, 0xEE, 0xEE] _
      (by decide +kernel))
    ⟨by decide, by decide⟩ trivial trivial 0xABCD 0x2A (List.replicate 16 0xEE) (by decide +kernel)

/-- the same instance evaluated in the kernel: the fifteen bytes, and what the decoder returns for them
    (the target's stale third byte 0xEE is not kept in the value, not transmitted and does not come back) -/
example :
    Tcp.encodeRequest 0xABCD 0x2A (.writeMultipleCoils 5 ⟨[0xCD, 0x01], 9⟩) (List.replicate 16 0xEE) =
      .ok (15, [0xAB, 0xCD, 0, 0, 0, 9, 0x2A, 0x0F, 0, 5, 0, 9, 2, 0xCD, 0x01, 0xEE]) ∧
    Spec.tcpFrame 0xABCD 0x2A
        (Spec.reqBytes (.writeMultipleCoils 5 [true, false, true, true, false, false, true, true, true])) =
      [0xAB, 0xCD, 0, 0, 0, 9, 0x2A, 0x0F, 0, 5, 0, 9, 2, 0xCD, 0x01] ∧
    Tcp.decodeRequest [0xAB, 0xCD, 0, 0, 0, 9, 0x2A, 0x0F, 0, 5, 0, 9, 2, 0xCD, 0x01] =
      .ok (some (0xABCD, 0x2A, .writeMultipleCoils 5 ⟨[0xCD, 0x01], 9⟩)) ∧
    (Request.writeMultipleCoils 5 ⟨[0xCD, 0x01], 9⟩).sem =
      some (.writeMultipleCoils 5 [true, false, true, true, false, false, true, true, true]) := by
  decide +kernel

example : (Spec.ReqMeaning.custom 0x16 [0, 4, 0, 0xF2, 0, 0x25]).InScope ∧
    (Spec.ReqMeaning.custom 0x16 [0, 4, 0, 0xF2, 0, 0x25]).Framed := by
  refine ⟨by decide, ?_⟩
  show Spec.PduComplete .req _
  unfold Spec.PduComplete; decide +kernel

/-! ### responses -/

/-
Full statement — FALSE for the model of the unedited crate (open finding D12):

  theorem tcp_response_end_to_end {r : Response} {m : Spec.RspMeaning}
      (hb : BuiltRsp r m) (hf : m.fits) (hs : InScopeRsp m) (hfr : m.Framed) (hml : m.MbapLen)
      (tid : UInt16) (uid : UInt8) (buf : Bytes) (hl : (Spec.rspBytes m).length + 7 ≤ buf.length) :
      ∃ n out r', Tcp.encodeResponse tid uid (.ok r) buf = .ok (n, out) ∧
        n = (Spec.rspBytes m).length + 7 ∧
        out.take n = Spec.tcpFrame tid uid (Spec.rspBytes m) ∧
        Tcp.decodeResponse (out.take n) = .ok (some (tid, uid, .ok r')) ∧
        r'.sem = some m.padded

Missing from the proved statement: exactly the meanings `.writeSingleCoil a` (hypothesis `hD12`).
For those the crate writes the three bytes 05 hi lo instead of the specification's five, and the
response decoder answers 'incomplete' on the encoder's own output: `tcp_response_end_to_end_fails`.
-/
/-- **Responses, end to end** — every built response kind except write-single-coil. -/
theorem tcp_response_end_to_end_partial {r : Response} {m : Spec.RspMeaning}
    (hb : BuiltRsp r m) (hf : m.fits) (hs : InScopeRsp m) (hfr : m.Framed) (hml : m.MbapLen)
    (hD12 : ∀ a, m ≠ .writeSingleCoil a)
    (tid : UInt16) (uid : UInt8) (buf : Bytes) (hl : (Spec.rspBytes m).length + 7 ≤ buf.length) :
    ∃ n out r', Tcp.encodeResponse tid uid (.ok r) buf = .ok (n, out) ∧
      n = (Spec.rspBytes m).length + 7 ∧
      out.take n = Spec.tcpFrame tid uid (Spec.rspBytes m) ∧
      Tcp.decodeResponse (out.take n) = .ok (some (tid, uid, .ok r')) ∧
      r'.sem = some m.padded := by
  obtain ⟨r', hd, hsem⟩ := hb.decode_image hf hs
  have hi := hb.image_eq hD12
  obtain ⟨out, h1, h2, h3, _⟩ := C05.tcp_rsp_encode_decode tid uid r r' buf (hb.pdu_encodable hf)
    (by rw [hi]; exact hl) (hb.complete hf hD12 hfr) (hb.mbap_len hf hml) (hb.not_exception hfr) hd
  rw [hi] at h1 h2 h3
  exact ⟨_, out, r', h1, rfl, h2, h3, hsem⟩

/-- the same when the decoder is handed the whole output buffer -/
theorem tcp_response_end_to_end_buffer_partial {r : Response} {m : Spec.RspMeaning}
    (hb : BuiltRsp r m) (hf : m.fits) (hs : InScopeRsp m) (hfr : m.Framed) (hml : m.MbapLen)
    (hD12 : ∀ a, m ≠ .writeSingleCoil a)
    (tid : UInt16) (uid : UInt8) (buf : Bytes) (hl : (Spec.rspBytes m).length + 7 ≤ buf.length) :
    ∃ n out r', Tcp.encodeResponse tid uid (.ok r) buf = .ok (n, out) ∧
      out = Spec.tcpFrame tid uid (Spec.rspBytes m) ++ buf.drop n ∧
      Tcp.decodeResponse out = .ok (some (tid, uid, .ok r')) ∧
      r'.sem = some m.padded := by
  obtain ⟨r', hd, hsem⟩ := hb.decode_image hf hs
  have hi := hb.image_eq hD12
  have he := hb.pdu_encodable hf
  have hl' : r.image.length + 7 ≤ buf.length := by rw [hi]; exact hl
  obtain ⟨out, h1, _, _, h4⟩ := C05.tcp_rsp_encode_decode tid uid r r' buf he hl'
    (hb.complete hf hD12 hfr) (hb.mbap_len hf hml) (hb.not_exception hfr) hd
  have h1' : Tcp.encodeResponse tid uid (.ok r) buf =
      .ok (r.image.length + 7, Spec.tcpFrame tid uid r.image ++ buf.drop (r.image.length + 7)) :=
    C05.tcp_rsp_layout tid uid (.ok r) buf he (hb.mbap_len hf hml) hl'
  rw [h1'] at h1
  have ho : out = Spec.tcpFrame tid uid r.image ++ buf.drop (r.image.length + 7) := by
    cases h1; rfl
  rw [hi] at ho
  refine ⟨_, out, r', ?_, ho, h4, hsem⟩
  rw [h1', hi, ho]

/-- a buffer shorter than PDU + 7 is refused with `BufferSize` -/
theorem tcp_response_short_buffer_partial {r : Response} {m : Spec.RspMeaning}
    (hb : BuiltRsp r m) (hf : m.fits) (hD12 : ∀ a, m ≠ .writeSingleCoil a)
    (tid : UInt16) (uid : UInt8) (buf : Bytes) (hl : buf.length < (Spec.rspBytes m).length + 7) :
    Tcp.encodeResponse tid uid (.ok r) buf = .err .bufferSize :=
  C05.tcp_rsp_layout_short tid uid (.ok r) buf (hb.pdu_encodable hf)
    (by show buf.length < r.image.length + 7; rw [hb.image_eq hD12]; exact hl)

/-- the frame of `tcp_response_end_to_end_partial`, field by field -/
theorem tcp_response_frame_fields {r : Response} {m : Spec.RspMeaning}
    (hb : BuiltRsp r m) (hf : m.fits) (hfr : m.Framed) (hml : m.MbapLen)
    (hD12 : ∀ a, m ≠ .writeSingleCoil a) (tid : UInt16) (uid : UInt8) :
    Spec.tcpFrame tid uid (Spec.rspBytes m) =
      [UInt8.ofNat (tid.toNat / 256), UInt8.ofNat (tid.toNat % 256), 0, 0,
       UInt8.ofNat (((Spec.rspBytes m).length + 1) / 256), UInt8.ofNat (((Spec.rspBytes m).length + 1) % 256),
       uid] ++ Spec.rspBytes m ∧
    (Spec.tcpFrame tid uid (Spec.rspBytes m)).length = (Spec.rspBytes m).length + 7 ∧
    Spec.WellFormedTcp .rsp (Spec.tcpFrame tid uid (Spec.rspBytes m)) := by
  have hi := hb.image_eq hD12
  have hc := hb.complete hf hD12 hfr
  have hn := hb.mbap_len hf hml
  rw [hi] at hc hn
  obtain ⟨h1, h2⟩ := C05.tcp_frame_fields tid uid (Spec.rspBytes m) hn
  exact ⟨h1, h2, tid, uid, _, hc, hn, rfl⟩

/-- D12: the full response statement is refuted for the model of the unedited crate — a built
    write-single-coil response is encoded, and the decoder does not return it from those bytes -/
theorem tcp_response_end_to_end_fails :
    ¬ ∀ (r : Response) (m : Spec.RspMeaning), BuiltRsp r m → m.fits → InScopeRsp m → m.Framed → m.MbapLen →
        ∀ (tid : UInt16) (uid : UInt8) (buf : Bytes), (Spec.rspBytes m).length + 7 ≤ buf.length →
        ∃ n out r', Tcp.encodeResponse tid uid (.ok r) buf = .ok (n, out) ∧
          Tcp.decodeResponse (out.take n) = .ok (some (tid, uid, .ok r')) := by
  intro h
  obtain ⟨n, out, r', he, hd⟩ := h _ _ (.writeSingleCoil 0x33) trivial trivial trivial trivial 7 1
    (List.replicate 12 0) (by decide)
  have he' : Tcp.encodeResponse 7 1 (.ok (.writeSingleCoil 0x33)) (List.replicate 12 0) =
      .ok (10, [0, 7, 0, 0, 0, 4, 1, 0x05, 0x00, 0x33, 0, 0]) := by decide +kernel
  rw [he'] at he
  cases he
  have hd' : Tcp.decodeResponse (List.take 10 [0, 7, 0, 0, 0, 4, 1, 0x05, 0x00, 0x33, 0, 0]) = .ok none := by
    decide +kernel
  rw [hd'] at hd
  cases hd

/-! non-vacuity: a three-register read-holding-registers response built by `Data::from_words`, a
    ten-coil read-coils response (the meaning comes back padded to sixteen coils), a custom PDU with
    a 16-bit count (0x18, read FIFO queue) -/
example : Data.fromWords [0x022B, 0x0000, 0x0064] [9, 9, 9, 9, 9, 9, 9, 9] =
    .ok ⟨[0x02, 0x2B, 0x00, 0x00, 0x00, 0x64], 3⟩ := by decide +kernel

example : ∃ n out r',
    Tcp.encodeResponse 0x0102 0x11 (.ok (.readHoldingRegisters ⟨[0x02, 0x2B, 0x00, 0x00, 0x00, 0x64], 3⟩))
      (List.replicate 20 0) = .ok (n, out) ∧
    n = (Spec.rspBytes (.readHoldingRegisters [0x022B, 0x0000, 0x0064])).length + 7 ∧
    out.take n = Spec.tcpFrame 0x0102 0x11 (Spec.rspBytes (.readHoldingRegisters [0x022B, 0x0000, 0x0064])) ∧
    Tcp.decodeResponse (out.take n) = .ok (some (0x0102, 0x11, .ok r')) ∧
    r'.sem = some (Spec.RspMeaning.readHoldingRegisters [0x022B, 0x0000, 0x0064]).padded :=
  tcp_response_end_to_end_partial
    (.readHoldingRegisters (ws := [0x022B, 0x0000, 0x0064]) (t := [9, 9, 9, 9, 9, 9, 9, 9]) (by decide +kernel))
    ⟨by decide, by decide⟩ trivial trivial trivial (fun _ h => by cases h) 0x0102 0x11 (List.replicate 20 0)
    (by decide +kernel)

example :
    Tcp.encodeResponse 0x0102 0x11 (.ok (.readHoldingRegisters ⟨[0x02, 0x2B, 0x00, 0x00, 0x00, 0x64], 3⟩))
      (List.replicate 16 0) =
      .ok (15, [0x01, 0x02, 0, 0, 0, 9, 0x11, 0x03, 0x06, 0x02, 0x2B, 0x00, 0x00, 0x00, 0x64, 0]) ∧
    Tcp.decodeResponse [0x01, 0x02, 0, 0, 0, 9, 0x11, 0x03, 0x06, 0x02, 0x2B, 0x00, 0x00, 0x00, 0x64] =
      .ok (some (0x0102, 0x11, .ok (.readHoldingRegisters ⟨[0x02, 0x2B, 0x00, 0x00, 0x00, 0x64], 3⟩))) := by
  decide +kernel

example : ∃ c, Coils.fromBools [true, false, true, true, false, false, true, true, true, false] [0, 0] = .ok c ∧
    ∃ n out r', Tcp.encodeResponse 1 2 (.ok (.readCoils c)) (List.replicate 11 0) = .ok (n, out) ∧
      n = 11 ∧ out.take n = [0, 1, 0, 0, 0, 5, 2, 0x01, 0x02, 0xCD, 0x01] ∧
      Tcp.decodeResponse (out.take n) = .ok (some (1, 2, .ok r')) ∧
      r'.sem = some (.readCoils [true, false, true, true, false, false, true, true, true, false,
                                 false, false, false, false, false, false]) := by
  refine ⟨⟨[0xCD, 0x01], 10⟩, by decide +kernel, ?_⟩
  obtain ⟨n, out, r', h1, h2, h3, h4, h5⟩ := tcp_response_end_to_end_partial
    (.readCoils (bs := [true, false, true, true, false, false, true, true, true, false]) (t := [0, 0])
      (c := ⟨[0xCD, 0x01], 10⟩) (by decide +kernel))
    ⟨by decide, by decide⟩ trivial trivial trivial (fun _ h => by cases h) 1 2 (List.replicate 11 0)
    (by decide +kernel)
  refine ⟨n, out, r', h1, h2, ?_, h4, ?_⟩
  · rw [h3]; decide +kernel
  · rw [h5]; decide +kernel

example : InScopeRsp (.custom 0x18 [0x00, 0x02, 0xAA, 0xBB]) ∧
    (Spec.RspMeaning.custom 0x18 [0x00, 0x02, 0xAA, 0xBB]).Framed ∧
    (Spec.RspMeaning.custom 0x18 [0x00, 0x02, 0xAA, 0xBB]).MbapLen := by
  refine ⟨?_, ⟨by decide, ?_⟩, ?_⟩
  · show (0x18 : UInt8) ∉ modelledRspCodes
    decide
  rotate_left
  · show [(0x00 : UInt8), 0x02, 0xAA, 0xBB].length + 2 < 65536
    decide
  show Spec.PduComplete .rsp _
  unfold Spec.PduComplete; decide +kernel

/-- **Read Exception Status, end to end** — an instance of `tcp_response_end_to_end_partial` like any
    fixed-layout kind: every status byte, every transaction / unit id, every buffer of at least nine bytes -/
theorem tcp_read_exception_status_end_to_end (s : UInt8) (tid : UInt16) (uid : UInt8) (buf : Bytes)
    (hl : 9 ≤ buf.length) :
    ∃ n out r', Tcp.encodeResponse tid uid (.ok (.readExceptionStatus s)) buf = .ok (n, out) ∧ n = 9 ∧
      out.take n = Spec.tcpFrame tid uid [0x07, s] ∧
      Tcp.decodeResponse (out.take n) = .ok (some (tid, uid, .ok r')) ∧
      r'.sem = some (.readExceptionStatus s) :=
  tcp_response_end_to_end_partial (.readExceptionStatus s) trivial trivial trivial trivial
    (fun _ h => by cases h) tid uid buf hl

example : Tcp.encodeResponse 0x0102 0x11 (.ok (.readExceptionStatus 0x6D)) (List.replicate 9 0) =
      .ok (9, [0x01, 0x02, 0, 0, 0, 3, 0x11, 0x07, 0x6D]) ∧
    Tcp.decodeResponse [0x01, 0x02, 0, 0, 0, 3, 0x11, 0x07, 0x6D] =
      .ok (some (0x0102, 0x11, .ok (.readExceptionStatus 0x6D))) := by
  constructor <;> decide +kernel

/-! ### exception responses -/

/-- **Exception responses, end to end.**  Every `ExceptionResponse` value whose function value is
    1 … 0x2B (whichever `FunctionCode` constructor carries it) and each of the nine exception codes,
    every transaction and unit id, every buffer of at least nine bytes: the encoder writes the MBAP
    frame of the specification's exception PDU (function + 0x80, code), and the decoder returns it as
    an exception — the same ids, the same function value, the same exception code — and never as a
    successful response. -/
theorem tcp_exception_end_to_end (tid : UInt16) (uid : UInt8) (fc : FunctionCode) (k : Exception)
    (buf : Bytes) (h1 : 1 ≤ fc.value) (h2 : fc.value ≤ 0x2B) (hb : 9 ≤ buf.length) :
    ∃ out e', Tcp.encodeResponse tid uid (.error ⟨fc, k⟩) buf = .ok (9, out) ∧
      out.take 9 = Spec.tcpFrame tid uid (Spec.excBytes fc.value k.val) ∧
      k.val ∈ Spec.excCodes ∧
      Tcp.decodeResponse (out.take 9) = .ok (some (tid, uid, .error e')) ∧
      e'.function.value = fc.value ∧ e'.exception = k ∧
      (∀ t u r, Tcp.decodeResponse (out.take 9) ≠ .ok (some (t, u, .ok r))) := by
  obtain ⟨out, he, ht, hd, _, hv⟩ := C05.tcp_exception_encode_decode tid uid ⟨fc, k⟩ buf h1 h2 hb
  refine ⟨out, ⟨FunctionCode.new fc.value, k⟩, he, ht, Rsp.exception_val_mem k, hd, hv, rfl, ?_⟩
  intro t u r h
  rw [hd] at h
  cases h

/-- stated over the bytes: every function value `f` in 1 … 0x2B and every exception code of the
    specification's list — the value `ExceptionResponse { function: FunctionCode::new(f), exception }`
    with that code exists, is encoded as the MBAP frame of `[f + 0x80, code]`, and comes back equal -/
theorem tcp_exception_end_to_end_codes (tid : UInt16) (uid : UInt8) (f code : UInt8) (buf : Bytes)
    (h1 : 1 ≤ f) (h2 : f ≤ 0x2B) (hc : code ∈ Spec.excCodes) (hb : 9 ≤ buf.length) :
    ∃ k : Exception, k.val = code ∧
    ∃ out, Tcp.encodeResponse tid uid (.error ⟨FunctionCode.new f, k⟩) buf = .ok (9, out) ∧
      out.take 9 = Spec.tcpFrame tid uid [f + 0x80, code] ∧
      Tcp.decodeResponse (out.take 9) = .ok (some (tid, uid, .error ⟨FunctionCode.new f, k⟩)) := by
  obtain ⟨k, hk⟩ := Rsp.exception_of_code code hc
  refine ⟨k, hk, ?_⟩
  have hv := value_new f
  obtain ⟨out, he, ht, hd, _, _⟩ := C05.tcp_exception_encode_decode tid uid ⟨FunctionCode.new f, k⟩ buf
    (by show 1 ≤ (FunctionCode.new f).value; rw [hv]; exact h1)
    (by show (FunctionCode.new f).value ≤ 0x2B; rw [hv]; exact h2) hb
  simp only [hv, hk] at ht hd
  exact ⟨out, he, ht, hd⟩

/-- exception 0x83 / 0x02 (read holding registers, illegal data address) -/
example : ∃ out e', Tcp.encodeResponse 1 9 (.error ⟨.readHoldingRegisters, .illegalDataAddress⟩) (List.replicate 9 0) = .ok (9, out) ∧
    out.take 9 = Spec.tcpFrame 1 9 (Spec.excBytes 0x03 0x02) ∧
    (0x02 : UInt8) ∈ Spec.excCodes ∧
    Tcp.decodeResponse (out.take 9) = .ok (some (1, 9, .error e')) ∧
    e'.function.value = 0x03 ∧ e'.exception = .illegalDataAddress ∧
    (∀ t u r, Tcp.decodeResponse (out.take 9) ≠ .ok (some (t, u, .ok r))) :=
  tcp_exception_end_to_end 1 9 .readHoldingRegisters .illegalDataAddress _ (by decide) (by decide) (by decide)

example :
    Tcp.encodeResponse 1 9 (.error ⟨.readHoldingRegisters, .illegalDataAddress⟩) (List.replicate 9 0) =
      .ok (9, [0, 1, 0, 0, 0, 3, 9, 0x83, 0x02]) ∧
    Spec.tcpFrame 1 9 (Spec.excBytes 0x03 0x02) = [0, 1, 0, 0, 0, 3, 9, 0x83, 0x02] ∧
    Tcp.decodeResponse [0, 1, 0, 0, 0, 3, 9, 0x83, 0x02] =
      .ok (some (1, 9, .error ⟨.readHoldingRegisters, .illegalDataAddress⟩)) := by decide +kernel

end Modbus.C05Full

import Modbus.Lemmas.DecodedAdu
import Modbus.Lemmas.AduCompose
import Modbus.Props.C04
import Modbus.Props.C13
/-
C04 — RTU ADU round trip for DECODED values (see Props/C05Dec.lean for the TCP side and for the
motivation: a gateway decodes a PDU on one transport and re-encodes the value for another; decoded
values need not be normal — odd byte counts (quantity = byte count / 2; the decoded register payload holds
the whole registers only), coil quantity = 8 × byte count, surplus payload bytes of a request).

For EVERY byte string `b` and every value `v` with `Response.decode b = .ok v` / `Request.decode b = .ok v`:

* the RTU encoder succeeds on every buffer of at least PDU length + 3 bytes and reports `pduLen + 3`;
* the bytes written are `Spec.rtuFrame slave v.image` = slave id, image, CRC-16/MODBUS low byte first
  (`decoded_rtu_frame_bytes`);
* decoding them (or the whole output buffer) returns the same slave id and a value with the same
  meaning, `v'.sem = v.sem`.

Covered:
* responses `rsp_decoded_rtu_roundtrip_partial`: every decoded value of a standard kind except
  write-single-coil, `v.Frameable` (open finding D12; `rsp_decoded_rtu_roundtrip_fails`);
* requests `req_decoded_rtu_roundtrip_partial`: every decoded standard request whose function code is
  not 0x0F / 0x10 (open finding D4: `rtu::request_pdu_len` reads the byte count of these two at the wrong
  offset; `req_decoded_rtu_roundtrip_fails`).  The D5b region (`WmcShort b`) lies inside function code
  0x0F, so no separate exclusion is needed here;
* custom values: the decoded value is the input verbatim, it frames exactly when the input is a complete
  PDU of the length table (responses: code below 0x80).
-/
namespace Modbus.C04Dec
open Modbus.AduRT Modbus.DecodedAdu

/-- the serial-line frame: slave id, PDU, CRC-16/MODBUS of both (the independent bit-serial definition of
    Spec/Crc.lean), low-order CRC byte first -/
theorem decoded_rtu_frame_bytes (slave : UInt8) (pdu : Bytes) :
    Spec.rtuFrame slave pdu = slave :: pdu ++ Spec.crcWire (slave :: pdu) ∧
    (Spec.rtuFrame slave pdu).length = pdu.length + 3 :=
  ⟨rtuFrame_crcWire slave pdu, Reception.rtuFrame_length slave pdu⟩

/-! ### responses -/

/-
Full statement — FALSE for the model of the unedited crate (open finding D12): the theorem below
without `hk`, for every decoded `v` that is not a custom value.  Missing: exactly
`v = .writeSingleCoil a`; refuted there by `rsp_decoded_rtu_roundtrip_fails`.
-/
/-- **Decoded responses over RTU.**  Every value of a standard kind other than write-single-coil that
    `Response::try_from` returns, every slave id and buffer with room for PDU + 3 bytes. -/
theorem rsp_decoded_rtu_roundtrip_partial (b : Bytes) (v : Response) (h : Response.decode b = .ok v)
    (hk : v.Frameable)
    (slave : UInt8) (buf : Bytes) (hl : v.image.length + 3 ≤ buf.length) :
    ∃ n out v', Rtu.serverEncodeResponse slave (.ok v) buf = .ok (n, out) ∧
      v.pduLen = .ok v.image.length ∧ n = v.image.length + 3 ∧
      out.take n = Spec.rtuFrame slave v.image ∧
      Rtu.clientDecodeResponse (out.take n) = .ok (some (slave, .ok v')) ∧
      Rtu.clientDecodeResponse out = .ok (some (slave, .ok v')) ∧
      v'.sem = v.sem := by
  have hd := Response.decode_inv h
  have he := hd.encodable
  obtain ⟨c, h0, hlt⟩ := rsp_image_first_lt v hk
  obtain ⟨v', hdec, hs⟩ := hd.redecode
  obtain ⟨out, h1, h2, h3, h4⟩ := C04.rtu_rsp_encode_decode slave v v' buf ⟨he, Response.image_pos v he⟩ hl
    (rsp_image_complete v hk he) (exc_decode_err_of_lt _ c h0 hlt) hdec
  exact ⟨_, out, v', h1, Response.pduLen_eq v he, rfl, h2, h3, h4, hs⟩

/-- … and it is the very same value that comes back: a decoded response holds whole registers / whole
    bytes only, so its image decodes to itself (`Response.Decoded.redecode_exact`) -/
theorem rsp_decoded_rtu_roundtrip_exact_partial (b : Bytes) (v : Response) (h : Response.decode b = .ok v)
    (hk : v.Frameable)
    (slave : UInt8) (buf : Bytes) (hl : v.image.length + 3 ≤ buf.length) :
    Response.decode v.image = .ok v ∧
    ∃ n out, Rtu.serverEncodeResponse slave (.ok v) buf = .ok (n, out) ∧
      n = v.image.length + 3 ∧
      out.take n = Spec.rtuFrame slave v.image ∧
      Rtu.clientDecodeResponse (out.take n) = .ok (some (slave, .ok v)) ∧
      Rtu.clientDecodeResponse out = .ok (some (slave, .ok v)) := by
  have hd := Response.decode_inv h
  have he := hd.encodable
  obtain ⟨c, h0, hlt⟩ := rsp_image_first_lt v hk
  have hdec := hd.redecode_exact
  obtain ⟨out, h1, h2, h3, h4⟩ := C04.rtu_rsp_encode_decode slave v v buf ⟨he, Response.image_pos v he⟩ hl
    (rsp_image_complete v hk he) (exc_decode_err_of_lt _ c h0 hlt) hdec
  exact ⟨hdec, _, out, h1, rfl, h2, h3, h4⟩

/-- a 260-byte buffer is always large enough -/
theorem rsp_decoded_rtu_roundtrip_260_partial (b : Bytes) (v : Response) (h : Response.decode b = .ok v)
    (hk : v.Frameable) (slave : UInt8) (buf : Bytes) (hl : 260 ≤ buf.length) :
    ∃ n out v', Rtu.serverEncodeResponse slave (.ok v) buf = .ok (n, out) ∧ n ≤ 260 ∧
      out.take n = Spec.rtuFrame slave v.image ∧
      Rtu.clientDecodeResponse (out.take n) = .ok (some (slave, .ok v')) ∧ v'.sem = v.sem := by
  have h257 := rsp_image_length_le v hk (Response.decode_inv h).encodable
  obtain ⟨n, out, v', h1, _, h3, h4, h5, _, h7⟩ :=
    rsp_decoded_rtu_roundtrip_partial b v h hk slave buf (by omega)
  exact ⟨n, out, v', h1, by omega, h4, h5, h7⟩

/-- a shorter buffer: an error, nothing else -/
theorem rsp_decoded_rtu_short_buffer (b : Bytes) (v : Response) (h : Response.decode b = .ok v)
    (slave : UInt8) (buf : Bytes) (hl : buf.length < v.image.length + 3) :
    Rtu.serverEncodeResponse slave (.ok v) buf = .err .bufferSize := by
  have he := (Response.decode_inv h).encodable
  exact C04.rtu_rsp_layout_short slave (.ok v) buf ⟨he, Response.image_pos v he⟩ hl

/-- the frame written is a well-formed RTU frame of Spec/Frames.lean -/
theorem rsp_decoded_rtu_wellformed (b : Bytes) (v : Response) (h : Response.decode b = .ok v)
    (hk : v.Frameable) (slave : UInt8) :
    Spec.WellFormedRtu .rsp (Spec.rtuFrame slave v.image) :=
  ⟨slave, _, rsp_image_complete v hk (Response.decode_inv h).encodable, rfl⟩

/-- a decoded custom response is the input verbatim; it round-trips when the input is a complete PDU
    of the response table with a code below 0x80 — and then the very same value comes back -/
theorem rsp_decoded_custom_rtu_roundtrip (b : Bytes) (c : FunctionCode) (d : Bytes)
    (h : Response.decode b = .ok (.custom c d))
    (hc : Spec.PduComplete .rsp b) (hlt : c.value < 0x80)
    (slave : UInt8) (buf : Bytes) (hl : b.length + 3 ≤ buf.length) :
    (Response.custom c d).image = b ∧
    ∃ out, Rtu.serverEncodeResponse slave (.ok (.custom c d)) buf = .ok (b.length + 3, out) ∧
      out.take (b.length + 3) = Spec.rtuFrame slave b ∧
      Rtu.clientDecodeResponse (out.take (b.length + 3)) = .ok (some (slave, .ok (.custom c d))) ∧
      Rtu.clientDecodeResponse out = .ok (some (slave, .ok (.custom c d))) := by
  have hi := Response.decode_custom_image h
  refine ⟨hi, ?_⟩
  have hpos : 1 ≤ (Response.custom c d).image.length := by
    show 1 ≤ ([c.value] ++ d).length; simp
  have hx : ∃ e, ExceptionResponse.decode (Response.custom c d).image = .err e :=
    exc_decode_err_of_lt _ c.value rfl hlt
  have := C04.rtu_rsp_encode_decode slave (.custom c d) (.custom c d) buf ⟨trivial, hpos⟩
    (by rw [hi]; exact hl) (by rw [hi]; exact hc) hx (by rw [hi]; exact h)
  rw [hi] at this
  exact this

/-- D12 on a decoded value: `05 00 33` decodes to `WriteSingleCoil(0x33)`; re-encoded for RTU it is not
    decoded again — so `hk` cannot be dropped -/
theorem rsp_decoded_rtu_roundtrip_fails :
    ¬ ∀ (b : Bytes) (v : Response), Response.decode b = .ok v → (∀ c d, v ≠ .custom c d) →
        ∀ (slave : UInt8) (buf : Bytes), v.image.length + 3 ≤ buf.length →
        ∃ n out v', Rtu.serverEncodeResponse slave (.ok v) buf = .ok (n, out) ∧
          Rtu.clientDecodeResponse (out.take n) = .ok (some (slave, .ok v')) := by
  intro hall
  obtain ⟨n, out, v', he, hd⟩ := hall [0x05, 0x00, 0x33] (.writeSingleCoil 0x33) (by decide +kernel)
    (by intro c d hh; cases hh) 0x11 (List.replicate 8 0) (by decide)
  have he' : Rtu.serverEncodeResponse 0x11 (.ok (.writeSingleCoil 0x33)) (List.replicate 8 0) =
      .ok (6, [0x11, 0x05, 0x00, 0x33, 0x55, 0x0C, 0, 0]) := by decide +kernel
  rw [he'] at he
  cases he
  have hd' : Rtu.clientDecodeResponse (List.take 6 [0x11, 0x05, 0x00, 0x33, 0x55, 0x0C, 0, 0]) = .ok none := by
    decide +kernel
  rw [hd'] at hd
  cases hd

/-! non-vacuity: the odd-byte-count register response -/
example : Response.decode [0x03, 0x03, 0xAB, 0xCD, 0xEF] = .ok (.readHoldingRegisters ⟨[0xAB, 0xCD], 1⟩) ∧
    (Response.readHoldingRegisters ⟨[0xAB, 0xCD], 1⟩).Frameable := ⟨by decide +kernel, trivial⟩
example : ∃ n out v', Rtu.serverEncodeResponse 0x11 (.ok (.readHoldingRegisters ⟨[0xAB, 0xCD], 1⟩))
      (List.replicate 10 0x55) = .ok (n, out) ∧ n = 7 ∧
    out.take n = Spec.rtuFrame 0x11 [0x03, 0x02, 0xAB, 0xCD] ∧
    Rtu.clientDecodeResponse (out.take n) = .ok (some (0x11, .ok v')) ∧
    v'.sem = some (.readHoldingRegisters [0xABCD]) := by
  obtain ⟨n, out, v', h1, _, h3, h4, h5, _, h7⟩ := rsp_decoded_rtu_roundtrip_partial
    [0x03, 0x03, 0xAB, 0xCD, 0xEF] (.readHoldingRegisters ⟨[0xAB, 0xCD], 1⟩) (by decide +kernel) trivial
    0x11 (List.replicate 10 0x55) (by decide +kernel)
  refine ⟨n, out, v', h1, by rw [h3]; decide +kernel, ?_, h5, ?_⟩
  · rw [h4]; decide +kernel
  · rw [h7]; decide +kernel
example : Response.decode [0x18, 0x00, 0x02, 0xAA, 0xBB] = .ok (.custom (FunctionCode.new 0x18) [0x00, 0x02, 0xAA, 0xBB]) ∧
    Spec.PduComplete .rsp [0x18, 0x00, 0x02, 0xAA, 0xBB] ∧ (FunctionCode.new 0x18).value < 0x80 := by
  refine ⟨by decide +kernel, ?_, by decide +kernel⟩
  unfold Spec.PduComplete; decide +kernel

/-! ### requests -/

/-- a decoded request whose first wire byte is not 0x0F is outside the D5b region -/
theorem not_wmcShort_of_ne (b : Bytes) (hF : b[0]? ≠ some 0x0F) : ¬ WmcShort b := fun hs => hF hs.1

/-
Full statement — FALSE for the model of the unedited crate (open finding D4): the theorem below
without `hF`, `h10` (and then with `¬ WmcShort b`, D5b, as over TCP).  Missing: exactly the decoded
write-multiple-coils / write-multiple-registers requests; `req_decoded_rtu_roundtrip_fails`.
-/
/-- **Decoded requests over RTU**, function codes 0x0F / 0x10 excluded (D4).  Every other standard
    request `Request::try_from` returns, every slave id and buffer with room for PDU + 3 bytes. -/
theorem req_decoded_rtu_roundtrip_partial (b : Bytes) (v : Request) (h : Request.decode b = .ok v)
    (hk : v.Standard) (hF : b[0]? ≠ some 0x0F) (h10 : b[0]? ≠ some 0x10)
    (slave : UInt8) (buf : Bytes) (hl : v.image.length + 3 ≤ buf.length) :
    ∃ n out v', Rtu.clientEncodeRequest slave v buf = .ok (n, out) ∧
      v.pduLen = .ok v.image.length ∧ n = v.image.length + 3 ∧
      out.take n = Spec.rtuFrame slave v.image ∧
      Rtu.serverDecodeRequest (out.take n) = .ok (some (slave, v')) ∧
      Rtu.serverDecodeRequest out = .ok (some (slave, v')) ∧
      v'.sem = v.sem := by
  obtain ⟨hd, hh⟩ := Request.decode_inv h
  have he := hd.encodable (not_wmcShort_of_ne b hF)
  have hx := hd.dataExact
  have h0 : v.image[0]? = b[0]? := by rw [hh]; exact req_image_head v hk
  obtain ⟨v', hdec, hs⟩ := hd.redecode he
  obtain ⟨out, h1, h2, h3, h4⟩ := C04.rtu_req_encode_decode_partial slave v v' buf he hl
    (req_image_complete v hk he hx) (by rw [h0]; exact hF) (by rw [h0]; exact h10) hdec
  exact ⟨_, out, v', h1, Request.pduLen_eq v he, rfl, h2, h3, h4, hs⟩

/-- the same with the exclusion stated on the value (`Request.RtuFrameable`: the standard kinds other
    than write-multiple-coils / write-multiple-registers) -/
theorem req_decoded_rtu_roundtrip_kind_partial (b : Bytes) (v : Request) (h : Request.decode b = .ok v)
    (hk : v.RtuFrameable)
    (slave : UInt8) (buf : Bytes) (hl : v.image.length + 3 ≤ buf.length) :
    ∃ n out v', Rtu.clientEncodeRequest slave v buf = .ok (n, out) ∧
      v.pduLen = .ok v.image.length ∧ n = v.image.length + 3 ∧
      out.take n = Spec.rtuFrame slave v.image ∧
      Rtu.serverDecodeRequest (out.take n) = .ok (some (slave, v')) ∧
      Rtu.serverDecodeRequest out = .ok (some (slave, v')) ∧
      v'.sem = v.sem := by
  have hst := req_rtuFrameable_standard hk
  have hh := (Request.decode_inv h).2
  have h0 : v.image[0]? = b[0]? := by rw [hh]; exact req_image_head v hst
  obtain ⟨hF, h10⟩ := req_image_first_ne v hk
  rw [h0] at hF h10
  exact req_decoded_rtu_roundtrip_partial b v h hst hF h10 slave buf hl

/-- a 268-byte buffer is always large enough -/
theorem req_decoded_rtu_roundtrip_268_partial (b : Bytes) (v : Request) (h : Request.decode b = .ok v)
    (hk : v.Standard) (hF : b[0]? ≠ some 0x0F) (h10 : b[0]? ≠ some 0x10)
    (slave : UInt8) (buf : Bytes) (hl : 268 ≤ buf.length) :
    ∃ n out v', Rtu.clientEncodeRequest slave v buf = .ok (n, out) ∧ n ≤ 268 ∧
      out.take n = Spec.rtuFrame slave v.image ∧
      Rtu.serverDecodeRequest (out.take n) = .ok (some (slave, v')) ∧ v'.sem = v.sem := by
  obtain ⟨hd, _⟩ := Request.decode_inv h
  have h265 := req_image_length_le v hk (hd.encodable (not_wmcShort_of_ne b hF)) hd.dataExact
  obtain ⟨n, out, v', h1, _, h3, h4, h5, _, h7⟩ :=
    req_decoded_rtu_roundtrip_partial b v h hk hF h10 slave buf (by omega)
  exact ⟨n, out, v', h1, by omega, h4, h5, h7⟩

/-- the encoder itself has no D4: outside the D5b region every decoded request — 0x0F / 0x10 included —
    is written as the RTU frame of its image (it is the request length predictor that fails to find it) -/
theorem req_decoded_rtu_encodes_partial (b : Bytes) (v : Request) (h : Request.decode b = .ok v)
    (hs : ¬ WmcShort b) (slave : UInt8) (buf : Bytes) :
    Rtu.clientEncodeRequest slave v buf =
      if buf.length < v.image.length + 3 then .err .bufferSize
      else .ok (v.image.length + 3, Spec.rtuFrame slave v.image ++ buf.drop (v.image.length + 3)) := by
  have he := (Request.decode_inv h).1.encodable hs
  by_cases hl : buf.length < v.image.length + 3
  · rw [if_pos hl]; exact C04.rtu_req_layout_short slave v buf he hl
  · rw [if_neg hl]; exact C04.rtu_req_layout slave v buf he (by omega)

theorem req_decoded_rtu_wellformed_partial (b : Bytes) (v : Request) (h : Request.decode b = .ok v)
    (hk : v.Standard) (hs : ¬ WmcShort b) (slave : UInt8) :
    Spec.WellFormedRtu .req (Spec.rtuFrame slave v.image) := by
  obtain ⟨hd, _⟩ := Request.decode_inv h
  exact ⟨slave, _, req_image_complete v hk (hd.encodable hs) hd.dataExact, rfl⟩

/-- a decoded custom request is the input verbatim (its code is never 0x0F / 0x10); it round-trips
    when the input is a complete PDU of the request table — and then the very same value comes back -/
theorem req_decoded_custom_rtu_roundtrip (b : Bytes) (c : FunctionCode) (d : Bytes)
    (h : Request.decode b = .ok (.custom c d)) (hc : Spec.PduComplete .req b)
    (slave : UInt8) (buf : Bytes) (hl : b.length + 3 ≤ buf.length) :
    (Request.custom c d).image = b ∧
    ∃ out, Rtu.clientEncodeRequest slave (.custom c d) buf = .ok (b.length + 3, out) ∧
      out.take (b.length + 3) = Spec.rtuFrame slave b ∧
      Rtu.serverDecodeRequest (out.take (b.length + 3)) = .ok (some (slave, .custom c d)) ∧
      Rtu.serverDecodeRequest out = .ok (some (slave, .custom c d)) := by
  have hi := Request.decode_custom_image h
  refine ⟨hi, ?_⟩
  obtain ⟨hd, hh⟩ := Request.decode_inv h
  have hne : b[0]? ≠ some 0x0F ∧ b[0]? ≠ some 0x10 := by
    cases hd with
    | custom fc d hlt ho =>
      rw [hh]
      show some fc ≠ some 0x0F ∧ some fc ≠ some 0x10
      constructor
      · intro e; cases e; exact absurd ho (by decide)
      · intro e; cases e; exact absurd ho (by decide)
  have := C04.rtu_req_encode_decode_partial slave (.custom c d) (.custom c d) buf trivial
    (by rw [hi]; exact hl) (by rw [hi]; exact hc) (by rw [hi]; exact hne.1) (by rw [hi]; exact hne.2)
    (by rw [hi]; exact h)
  rw [hi] at this
  exact this

/-- D4 on a decoded value: a well-formed write-multiple-registers PDU decodes; the value re-encoded for
    RTU is answered 'incomplete' by `rtu::server::decode_request` — `hF` / `h10` cannot be dropped -/
theorem req_decoded_rtu_roundtrip_fails :
    ¬ ∀ (b : Bytes) (v : Request), Request.decode b = .ok v → v.Standard → ¬ WmcShort b →
        ∀ (slave : UInt8) (buf : Bytes), v.image.length + 3 ≤ buf.length →
        ∃ n out v', Rtu.clientEncodeRequest slave v buf = .ok (n, out) ∧
          Rtu.serverDecodeRequest (out.take n) = .ok (some (slave, v')) := by
  intro hall
  obtain ⟨n, out, v', he, hd⟩ := hall [0x10, 0x00, 0x01, 0x00, 0x02, 0x04, 0x00, 0x0A, 0x01, 0x02]
    (.writeMultipleRegisters 1 ⟨[0x00, 0x0A, 0x01, 0x02], 2⟩) (by decide +kernel) trivial (by decide +kernel)
    0x11 (List.replicate 13 0) (by decide +kernel)
  have he' : Rtu.clientEncodeRequest 0x11 (.writeMultipleRegisters 1 ⟨[0x00, 0x0A, 0x01, 0x02], 2⟩)
      (List.replicate 13 0) =
      .ok (13, [0x11, 0x10, 0x00, 0x01, 0x00, 0x02, 0x04, 0x00, 0x0A, 0x01, 0x02, 0xC6, 0xF0]) := by
    decide +kernel
  rw [he'] at he
  cases he
  have hd' : Rtu.serverDecodeRequest
      (List.take 13 [0x11, 0x10, 0x00, 0x01, 0x00, 0x02, 0x04, 0x00, 0x0A, 0x01, 0x02, 0xC6, 0xF0]) = .ok none := by
    decide +kernel
  rw [hd'] at hd
  cases hd

/-! non-vacuity: a read-write-multiple-registers request, and a custom request -/
example : Request.decode [0x17, 0, 1, 0, 1, 0, 2, 0, 1, 2, 0xAB, 0xCD] =
      .ok (.readWriteMultipleRegisters 1 1 2 ⟨[0xAB, 0xCD], 1⟩) ∧
    (Request.readWriteMultipleRegisters 1 1 2 ⟨[0xAB, 0xCD], 1⟩).Standard ∧
    ([0x17, 0, 1, 0, 1, 0, 2, 0, 1, 2, 0xAB, 0xCD] : Bytes)[0]? ≠ some 0x0F ∧
    ([0x17, 0, 1, 0, 1, 0, 2, 0, 1, 2, 0xAB, 0xCD] : Bytes)[0]? ≠ some 0x10 :=
  ⟨by decide +kernel, trivial, by decide, by decide⟩
example : ∃ n out v', Rtu.clientEncodeRequest 0x11 (.readWriteMultipleRegisters 1 1 2 ⟨[0xAB, 0xCD], 1⟩)
      (List.replicate 20 0x55) = .ok (n, out) ∧ n = 15 ∧
    out.take n = Spec.rtuFrame 0x11 [0x17, 0, 1, 0, 1, 0, 2, 0, 1, 2, 0xAB, 0xCD] ∧
    Rtu.serverDecodeRequest (out.take n) = .ok (some (0x11, v')) ∧
    v'.sem = (Request.readWriteMultipleRegisters 1 1 2 ⟨[0xAB, 0xCD], 1⟩).sem := by
  obtain ⟨n, out, v', h1, _, h3, h4, h5, _, h7⟩ := req_decoded_rtu_roundtrip_partial
    [0x17, 0, 1, 0, 1, 0, 2, 0, 1, 2, 0xAB, 0xCD] (.readWriteMultipleRegisters 1 1 2 ⟨[0xAB, 0xCD], 1⟩)
    (by decide +kernel) trivial (by decide) (by decide) 0x11 (List.replicate 20 0x55) (by decide +kernel)
  refine ⟨n, out, v', h1, by rw [h3]; decide +kernel, ?_, h5, h7⟩
  rw [h4]; decide +kernel
example : Request.decode [0x16, 0, 4, 0, 0xF2, 0, 0x25] = .ok (.custom (.custom 0x16) [0, 4, 0, 0xF2, 0, 0x25]) ∧
    Spec.PduComplete .req [0x16, 0, 4, 0, 0xF2, 0, 0x25] := by
  refine ⟨by decide +kernel, ?_⟩
  unfold Spec.PduComplete; decide +kernel

end Modbus.C04Dec

import Modbus.Lemmas.ReqCodec
/-
C19 (request side) — encoding never silently truncates an oversize payload.

For EVERY request constructible through the public constructors (`Request.Built r m`,
Lemmas/ReqCodec.lean): payload containers from `Coils::from_bools` / `Data::from_words` over any
non-empty slice of ANY length (1, …, 127, 128, …, 2040, 2041, …, 65536 and beyond — there is no bound in
any statement below) and any target, and every output buffer (any length, any contents):

  * encoding never panics;
  * it either reports an error, or the bytes it produced ARE the specification's PDU of the payload
    (`Spec.reqBytes m`: quantity field = number of items, byte count = ⌈n/8⌉ or 2n, followed by exactly
    that many payload bytes) and decode to a request with the same meaning;
  * it succeeds only when the payload fits the one-byte count field (`m.fits`: 1..=2040 coils,
    1..=127 words); otherwise the outcome is `Err(BufferSize)` for every buffer.

So a success with a truncated or wrapped count (2048 coils → count `00`, 128 words → count `00`,
65537 words → quantity `00 01`) cannot happen.
-/
namespace Modbus.C19Req

open Spec (ReqMeaning reqBytes)

/-- the whole property in one statement -/
theorem req_no_truncation {r : Request} {m : ReqMeaning} (hb : r.Built m) (buf : Bytes) :
    r.encode buf ≠ .panic ∧
    ∀ n out, r.encode buf = .ok (n, out) →
      m.fits ∧ n = (reqBytes m).length ∧ out.take n = reqBytes m ∧
      (m.InScope → ∃ r', Request.decode (out.take n) = .ok r' ∧ r'.sem = some m) := by
  constructor
  · by_cases hf : m.fits
    · rw [hb.encode_fits hf buf]
      split <;> simp
    · rw [hb.encode_oversize hf buf]
      simp
  · intro n out h
    obtain ⟨hf, hn, _, ht, _⟩ := hb.of_encode_ok h
    refine ⟨hf, hn, ht, ?_⟩
    intro hs
    rw [ht]
    exact Request.decode_reqBytes m hf hs

/-- the outcome of encoding a constructible request is completely determined, for every payload
    size and every buffer -/
theorem req_encode_outcome {r : Request} {m : ReqMeaning} (hb : r.Built m) (buf : Bytes) :
    r.encode buf =
      if m.fits then
        if buf.length < (reqBytes m).length then .err .bufferSize
        else .ok ((reqBytes m).length, reqBytes m ++ buf.drop (reqBytes m).length)
      else .err .bufferSize := by
  by_cases hf : m.fits
  · rw [if_pos hf]; exact hb.encode_fits hf buf
  · rw [if_neg hf]; exact hb.encode_oversize hf buf

/-- a payload too large for the count field is an error for EVERY buffer, however large -/
theorem req_oversize_is_error {r : Request} {m : ReqMeaning} (hb : r.Built m) (hf : ¬ m.fits) (buf : Bytes) :
    ∃ e, r.encode buf = .err e :=
  ⟨_, hb.encode_oversize hf buf⟩

/-- the three payload kinds, with the hypotheses spelled out (no `InScope` side condition) -/
theorem write_multiple_coils_no_truncation (a : UInt16) (bs : List Bool) (t : Bytes) (c : Coils)
    (h : Coils.fromBools bs t = .ok c) (buf : Bytes) :
    (Request.writeMultipleCoils a c).encode buf ≠ .panic ∧
    (2040 < bs.length → (Request.writeMultipleCoils a c).encode buf = .err .bufferSize) ∧
    ∀ n out, (Request.writeMultipleCoils a c).encode buf = .ok (n, out) →
      bs.length ≤ 2040 ∧ out.take n = reqBytes (.writeMultipleCoils a bs) ∧
      ∃ r', Request.decode (out.take n) = .ok r' ∧ r'.sem = some (.writeMultipleCoils a bs) := by
  have hb : (Request.writeMultipleCoils a c).Built (.writeMultipleCoils a bs) := .writeMultipleCoils a bs t c h
  obtain ⟨h1, h2⟩ := req_no_truncation hb buf
  refine ⟨h1, ?_, ?_⟩
  · intro hbig
    apply hb.encode_oversize
    intro hf
    have : (bs.length + 7) / 8 ≤ 255 := hf.2
    omega
  · intro n out he
    obtain ⟨hf, _, ht, hd⟩ := h2 n out he
    have : (bs.length + 7) / 8 ≤ 255 := hf.2
    exact ⟨by omega, ht, hd trivial⟩

theorem write_multiple_registers_no_truncation (a : UInt16) (ws : List UInt16) (t : Bytes) (d : Data)
    (h : Data.fromWords ws t = .ok d) (buf : Bytes) :
    (Request.writeMultipleRegisters a d).encode buf ≠ .panic ∧
    (127 < ws.length → (Request.writeMultipleRegisters a d).encode buf = .err .bufferSize) ∧
    ∀ n out, (Request.writeMultipleRegisters a d).encode buf = .ok (n, out) →
      ws.length ≤ 127 ∧ out.take n = reqBytes (.writeMultipleRegisters a ws) ∧
      ∃ r', Request.decode (out.take n) = .ok r' ∧ r'.sem = some (.writeMultipleRegisters a ws) := by
  have hb : (Request.writeMultipleRegisters a d).Built (.writeMultipleRegisters a ws) :=
    .writeMultipleRegisters a ws t d h
  obtain ⟨h1, h2⟩ := req_no_truncation hb buf
  refine ⟨h1, ?_, ?_⟩
  · intro hbig
    apply hb.encode_oversize
    intro hf
    have : 2 * ws.length ≤ 255 := hf.2
    omega
  · intro n out he
    obtain ⟨hf, _, ht, hd⟩ := h2 n out he
    have : 2 * ws.length ≤ 255 := hf.2
    exact ⟨by omega, ht, hd trivial⟩

theorem read_write_multiple_registers_no_truncation (ra rq wa : UInt16) (ws : List UInt16) (t : Bytes) (d : Data)
    (h : Data.fromWords ws t = .ok d) (buf : Bytes) :
    (Request.readWriteMultipleRegisters ra rq wa d).encode buf ≠ .panic ∧
    (127 < ws.length → (Request.readWriteMultipleRegisters ra rq wa d).encode buf = .err .bufferSize) ∧
    ∀ n out, (Request.readWriteMultipleRegisters ra rq wa d).encode buf = .ok (n, out) →
      ws.length ≤ 127 ∧ out.take n = reqBytes (.readWriteMultipleRegisters ra rq wa ws) ∧
      ∃ r', Request.decode (out.take n) = .ok r' ∧
        r'.sem = some (.readWriteMultipleRegisters ra rq wa ws) := by
  have hb : (Request.readWriteMultipleRegisters ra rq wa d).Built (.readWriteMultipleRegisters ra rq wa ws) :=
    .readWriteMultipleRegisters ra rq wa ws t d h
  obtain ⟨h1, h2⟩ := req_no_truncation hb buf
  refine ⟨h1, ?_, ?_⟩
  · intro hbig
    apply hb.encode_oversize
    intro hf
    have : 2 * ws.length ≤ 255 := hf.2
    omega
  · intro n out he
    obtain ⟨hf, _, ht, hd⟩ := h2 n out he
    have : 2 * ws.length ≤ 255 := hf.2
    exact ⟨by omega, ht, hd trivial⟩

/-! ### "count fields match the payload", read off the specification's bytes

`out.take n = reqBytes m` above already says it; these lemmas spell the fields out: when the payload
fits, the quantity field read big-endian is the number of items, the count byte is ⌈n/8⌉ (resp. 2n),
and exactly that many payload bytes follow. -/

theorem count_fields_coils (a : UInt16) (bs : List Bool) (hf : (ReqMeaning.writeMultipleCoils a bs).fits) :
    ∃ qh ql bc payload, reqBytes (.writeMultipleCoils a bs) = 0x0F :: Spec.hi a :: Spec.lo a :: qh :: ql :: bc :: payload ∧
      (rd16 qh ql).toNat = bs.length ∧ bc.toNat = (bs.length + 7) / 8 ∧ payload.length = (bs.length + 7) / 8 ∧
      payload = Spec.packBits bs := by
  obtain ⟨_, h255⟩ := hf
  refine ⟨Spec.hi (UInt16.ofNat bs.length), Spec.lo (UInt16.ofNat bs.length),
    UInt8.ofNat ((bs.length + 7) / 8), Spec.packBits bs, rfl, ?_, Req.u8_toNat_ofNat_of_le h255, ?_, rfl⟩
  · rw [Req.rd16_hi_lo, Req.u16_toNat_ofNat_of_lt (by omega)]
  · rw [packBits_length]; rfl

theorem count_fields_registers (a : UInt16) (ws : List UInt16) (hf : (ReqMeaning.writeMultipleRegisters a ws).fits) :
    ∃ qh ql bc payload, reqBytes (.writeMultipleRegisters a ws) = 0x10 :: Spec.hi a :: Spec.lo a :: qh :: ql :: bc :: payload ∧
      (rd16 qh ql).toNat = ws.length ∧ bc.toNat = 2 * ws.length ∧ payload.length = 2 * ws.length ∧
      payload = Spec.wordsBE ws := by
  obtain ⟨_, h255⟩ := hf
  refine ⟨Spec.hi (UInt16.ofNat ws.length), Spec.lo (UInt16.ofNat ws.length),
    UInt8.ofNat (2 * ws.length), Spec.wordsBE ws, rfl, ?_, Req.u8_toNat_ofNat_of_le h255, ?_, rfl⟩
  · rw [Req.rd16_hi_lo, Req.u16_toNat_ofNat_of_lt (by omega)]
  · rw [wordsBE_length]; omega

theorem count_fields_read_write (ra rq wa : UInt16) (ws : List UInt16)
    (hf : (ReqMeaning.readWriteMultipleRegisters ra rq wa ws).fits) :
    ∃ qh ql bc payload, reqBytes (.readWriteMultipleRegisters ra rq wa ws) =
        0x17 :: Spec.hi ra :: Spec.lo ra :: Spec.hi rq :: Spec.lo rq :: Spec.hi wa :: Spec.lo wa ::
          qh :: ql :: bc :: payload ∧
      (rd16 qh ql).toNat = ws.length ∧ bc.toNat = 2 * ws.length ∧ payload.length = 2 * ws.length ∧
      payload = Spec.wordsBE ws := by
  obtain ⟨_, h255⟩ := hf
  refine ⟨Spec.hi (UInt16.ofNat ws.length), Spec.lo (UInt16.ofNat ws.length),
    UInt8.ofNat (2 * ws.length), Spec.wordsBE ws, rfl, ?_, Req.u8_toNat_ofNat_of_le h255, ?_, rfl⟩
  · rw [Req.rd16_hi_lo, Req.u16_toNat_ofNat_of_lt (by omega)]
  · rw [wordsBE_length]; omega

/-! ### concrete instances, evaluated in the kernel -/

/-- the hypotheses of the `count_fields_*` lemmas: nine coils, three words -/
example : (ReqMeaning.writeMultipleCoils 7 [true, false, true, true, false, false, true, true, true]).fits ∧
    (ReqMeaning.writeMultipleRegisters 7 [1, 2, 3]).fits ∧
    (ReqMeaning.readWriteMultipleRegisters 7 8 9 [1, 2, 3]).fits := by decide +kernel

/-- 128 words (byte count 256 would wrap to `00`): an error, in a buffer that could hold them -/
example : ∃ d, Data.fromWords (List.replicate 128 0x1234) (List.replicate 256 0) = .ok d ∧
    (Request.writeMultipleRegisters 0 d).encode (List.replicate 300 0) = .err .bufferSize ∧
    (Request.readWriteMultipleRegisters 0 1 2 d).encode (List.replicate 300 0) = .err .bufferSize :=
  ⟨⟨Spec.wordsBE (List.replicate 128 0x1234), 128⟩, by decide +kernel, by decide +kernel, by decide +kernel⟩

/-- 127 words: the largest that fits; count byte `FE`, quantity `00 7F` -/
example : ∃ d, Data.fromWords (List.replicate 127 0x1234) (List.replicate 256 0) = .ok d ∧
    ∃ out, (Request.writeMultipleRegisters 0 d).encode (List.replicate 300 0) = .ok (260, out) ∧
      out.take 6 = [0x10, 0, 0, 0x00, 0x7F, 0xFE] :=
  ⟨⟨Spec.wordsBE (List.replicate 127 0x1234), 127⟩, by decide +kernel,
    Spec.reqBytes (.writeMultipleRegisters 0 (List.replicate 127 0x1234)) ++ List.replicate 40 0,
    by decide +kernel, by decide +kernel⟩

/-- 2048 coils (packed length 256 would wrap to `00`): an error, in a buffer that could hold them.
    (What `from_bools` returns is taken from `C16.from_bools_spec`; evaluating the 2048-step packing loop
    in the kernel takes over a minute.  The encoder's outcome is evaluated.) -/
example : ∃ c, Coils.fromBools (List.replicate 2048 true) (List.replicate 256 0) = .ok c ∧
    (Request.writeMultipleCoils 0 c).encode (List.replicate 300 0) = .err .bufferSize :=
  ⟨_, C16.from_bools_spec _ _ (by decide +kernel) (by decide +kernel), by decide +kernel⟩

/-- 2041 coils, the smallest oversize coil payload; 2040, the largest that fits: count byte `FF`,
    quantity `07 F8` -/
example : ∃ c, Coils.fromBools (List.replicate 2041 true) (List.replicate 256 0) = .ok c ∧
    (Request.writeMultipleCoils 0 c).encode (List.replicate 300 0) = .err .bufferSize :=
  ⟨_, C16.from_bools_spec _ _ (by decide +kernel) (by decide +kernel), by decide +kernel⟩

example : ∃ c, Coils.fromBools (List.replicate 2040 true) (List.replicate 256 0) = .ok c ∧
    ∃ out, (Request.writeMultipleCoils 0 c).encode (List.replicate 300 0) = .ok (261, out) ∧
      out.take 6 = [0x0F, 0, 0, 0x07, 0xF8, 0xFF] := by
  have h := C16.from_bools_spec (List.replicate 2040 true) (List.replicate 256 0) (by decide +kernel)
    (by decide +kernel)
  have hb : (Request.writeMultipleCoils 0 _).Built (.writeMultipleCoils 0 (List.replicate 2040 true)) :=
    .writeMultipleCoils 0 _ _ _ h
  have hlen : (reqBytes (.writeMultipleCoils 0 (List.replicate 2040 true))).length = 261 := by decide +kernel
  refine ⟨_, h, reqBytes (.writeMultipleCoils 0 (List.replicate 2040 true)) ++ (List.replicate 300 0).drop 261, ?_, ?_⟩
  · rw [hb.encode_fits (by decide +kernel), hlen, List.length_replicate, if_neg (by omega)]
  · decide +kernel

/-- the hypotheses of `req_oversize_is_error` for those values, and for 70000 words -/
example : ¬ (ReqMeaning.writeMultipleCoils 0 (List.replicate 2048 true)).fits ∧
    ¬ (ReqMeaning.writeMultipleRegisters 0 (List.replicate 128 0x1234)).fits := by
  decide +kernel

example : ¬ (ReqMeaning.writeMultipleRegisters 0 (List.replicate 70000 0x1234)).fits :=
  fun h => by have := h.2; rw [List.length_replicate] at this; omega

/-- 70000 words (quantity would wrap to 4464, byte count to `C0`): an error for every buffer -/
example (t buf : Bytes) (d : Data) (h : Data.fromWords (List.replicate 70000 0x1234) t = .ok d) :
    (Request.writeMultipleRegisters 0 d).encode buf = .err .bufferSize :=
  (write_multiple_registers_no_truncation 0 _ t d h buf).2.1 (by rw [List.length_replicate]; omega)

end Modbus.C19Req

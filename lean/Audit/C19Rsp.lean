import Modbus.Props.C19Rsp
#print axioms Modbus.C19Rsp.fits_iff_limits
#print axioms Modbus.C19Rsp.fits_fixed
#print axioms Modbus.C19Rsp.rsp_oversize_is_buffer_size
#print axioms Modbus.C19Rsp.rsp_oversize_is_error
#print axioms Modbus.C19Rsp.rsp_pdu_oversize_is_error
#print axioms Modbus.C19Rsp.rsp_never_panics
#print axioms Modbus.C19Rsp.rsp_no_truncation
#print axioms Modbus.C19Rsp.rsp_error_or_exact
#print axioms Modbus.C19Rsp.rsp_count_exact_coils
#print axioms Modbus.C19Rsp.rsp_count_exact_registers
#print axioms Modbus.C19Rsp.oversize_constructible

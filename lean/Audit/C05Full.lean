import Modbus.Props.C05Full
#print axioms Modbus.C05Full.tcp_request_end_to_end
#print axioms Modbus.C05Full.tcp_request_end_to_end_buffer
#print axioms Modbus.C05Full.tcp_request_short_buffer
#print axioms Modbus.C05Full.tcp_request_frame_fields
#print axioms Modbus.C05Full.tcp_response_end_to_end_partial
#print axioms Modbus.C05Full.tcp_response_end_to_end_buffer_partial
#print axioms Modbus.C05Full.tcp_response_short_buffer_partial
#print axioms Modbus.C05Full.tcp_response_frame_fields
#print axioms Modbus.C05Full.tcp_response_end_to_end_fails
#print axioms Modbus.C05Full.tcp_exception_end_to_end
#print axioms Modbus.C05Full.tcp_exception_end_to_end_codes
#print axioms Modbus.C05Full.tcp_read_exception_status_end_to_end

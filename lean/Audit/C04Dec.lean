import Modbus.Props.C04Dec
#print axioms Modbus.C04Dec.decoded_rtu_frame_bytes
#print axioms Modbus.C04Dec.rsp_decoded_rtu_roundtrip_partial
#print axioms Modbus.C04Dec.rsp_decoded_rtu_roundtrip_260_partial
#print axioms Modbus.C04Dec.rsp_decoded_rtu_short_buffer
#print axioms Modbus.C04Dec.rsp_decoded_rtu_wellformed
#print axioms Modbus.C04Dec.rsp_decoded_custom_rtu_roundtrip
#print axioms Modbus.C04Dec.rsp_decoded_rtu_roundtrip_fails
#print axioms Modbus.C04Dec.not_wmcShort_of_ne
#print axioms Modbus.C04Dec.req_decoded_rtu_roundtrip_partial
#print axioms Modbus.C04Dec.req_decoded_rtu_roundtrip_kind_partial
#print axioms Modbus.C04Dec.req_decoded_rtu_roundtrip_268_partial
#print axioms Modbus.C04Dec.req_decoded_rtu_encodes_partial
#print axioms Modbus.C04Dec.req_decoded_rtu_wellformed_partial
#print axioms Modbus.C04Dec.req_decoded_custom_rtu_roundtrip
#print axioms Modbus.C04Dec.req_decoded_rtu_roundtrip_fails
#print axioms Modbus.C04Dec.rsp_decoded_rtu_roundtrip_exact_partial

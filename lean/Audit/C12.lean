import Modbus.Props.C12
#print axioms Modbus.C12.EncSpec.property
#print axioms Modbus.C12.request
#print axioms Modbus.C12.requestPdu
#print axioms Modbus.C12.response
#print axioms Modbus.C12.exceptionResponse
#print axioms Modbus.C12.responsePdu
#print axioms Modbus.C12.rtuRequest
#print axioms Modbus.C12.rtuResponse
#print axioms Modbus.C12.tcpRequest
#print axioms Modbus.C12.tcpResponse
#print axioms Modbus.C12.rtu_size
#print axioms Modbus.C12.tcp_size

import Modbus.Props.C01
#print axioms Modbus.C01.req_roundtrip
#print axioms Modbus.C01.req_encode_ok
#print axioms Modbus.C01.req_pdu_len_ok
#print axioms Modbus.C01.req_pdu_roundtrip
#print axioms Modbus.C01.req_never_other
#print axioms Modbus.C01.req_high_custom_refused
#print axioms Modbus.C01.req_decode_image_exact
#print axioms Modbus.C01.req_roundtrip_exact

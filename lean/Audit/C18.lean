import Modbus.Props.C18
#print axioms Modbus.C18.value_new
#print axioms Modbus.C18.value_custom
#print axioms Modbus.C18.new_standard
#print axioms Modbus.C18.new_other
#print axioms Modbus.C18.req_fc_first_byte
#print axioms Modbus.C18.rsp_fc_first_byte
#print axioms Modbus.C18.exception_table
#print axioms Modbus.C18.exception_roundtrip
#print axioms Modbus.C18.exception_vals
#print axioms Modbus.C18.coil_value
#print axioms Modbus.C18.bool_to_coil
#print axioms Modbus.C18.coil_roundtrip
#print axioms Modbus.C18.fc_first_byte_coverage
#print axioms Modbus.C18.unimplemented_kinds_have_code_but_no_encoding

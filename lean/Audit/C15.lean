import Modbus.Props.C15
#print axioms Modbus.C15.agrees_iff
#print axioms Modbus.C15.rtu_rsp_len_eq_spec'
#print axioms Modbus.C15.rtu_rsp_len_eq_spec
#print axioms Modbus.C15.tcp_rsp_len_eq_spec'
#print axioms Modbus.C15.tcp_rsp_len_eq_spec
#print axioms Modbus.C15.tcp_req_len_eq_spec'
#print axioms Modbus.C15.tcp_req_len_eq_spec
#print axioms Modbus.C15.rtu_req_len_eq_spec_partial'
#print axioms Modbus.C15.rtu_req_len_eq_spec_partial
#print axioms Modbus.C15.rtu_req_len_defect
#print axioms Modbus.C15.rtu_req_len_defect'
#print axioms Modbus.C15.rtu_req_len_defect_witness
#print axioms Modbus.C15.predict_depends_only
#print axioms Modbus.C15.rtu_rsp_len_depends_only
#print axioms Modbus.C15.tcp_rsp_len_depends_only
#print axioms Modbus.C15.tcp_req_len_depends_only

import Modbus.Props.C09
#print axioms Modbus.C09.rd16_eq_zero
#print axioms Modbus.C09.tcp_extract_sound
#print axioms Modbus.C09.tcp_extract_sound'
#print axioms Modbus.C09.tcp_extract_len
#print axioms Modbus.C09.tcp_attemptReq_sound
#print axioms Modbus.C09.tcp_attemptRsp_sound
#print axioms Modbus.C09.tcp_scan_sound_of
#print axioms Modbus.C09.tcp_scan_sound_req
#print axioms Modbus.C09.tcp_scan_sound_rsp
#print axioms Modbus.C09.tcp_scan_extract_req
#print axioms Modbus.C09.tcp_scan_extract_rsp
#print axioms Modbus.C09.tcp_no_frame_bad_header_req
#print axioms Modbus.C09.tcp_no_frame_bad_header_rsp
#print axioms Modbus.C09.tcp_decode_request_of_scan
#print axioms Modbus.C09.tcp_decode_response_of_scan
#print axioms Modbus.C09.tcp_decode_request_sound
#print axioms Modbus.C09.tcp_decode_response_sound

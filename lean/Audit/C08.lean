import Modbus.Props.C08
#print axioms Modbus.C08.rtu_extract_sound
#print axioms Modbus.C08.rtu_extract_sound'
#print axioms Modbus.C08.rtu_extract_len
#print axioms Modbus.C08.rtu_attemptReq_sound
#print axioms Modbus.C08.rtu_attemptRsp_sound
#print axioms Modbus.C08.rtu_scan_sound_of
#print axioms Modbus.C08.rtu_scan_sound_req
#print axioms Modbus.C08.rtu_scan_sound_rsp
#print axioms Modbus.C08.rtu_scan_extract_req
#print axioms Modbus.C08.rtu_scan_extract_rsp
#print axioms Modbus.C08.rtu_no_frame_without_crc_req
#print axioms Modbus.C08.rtu_no_frame_without_crc_rsp
#print axioms Modbus.C08.rtu_no_extract_without_crc
#print axioms Modbus.C08.rtu_server_decode_of_scan
#print axioms Modbus.C08.rtu_client_decode_of_scan
#print axioms Modbus.C08.rtu_server_decode_sound
#print axioms Modbus.C08.rtu_client_decode_sound

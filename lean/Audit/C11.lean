import Modbus.Props.C11
#print axioms Modbus.C11.drain_spec
#print axioms Modbus.C11.peel_stream
#print axioms Modbus.C11.peel_append
#print axioms Modbus.C11.reassembly
#print axioms Modbus.C11.reassembly_all_chunkings
#print axioms Modbus.C11.tcp_req_reassembly
#print axioms Modbus.C11.tcp_rsp_reassembly
#print axioms Modbus.C11.rtu_rsp_reassembly
#print axioms Modbus.C11.rtu_req_reassembly_partial
#print axioms Modbus.C11.rtu_req_stream_defect_witness

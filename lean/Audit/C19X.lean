import Modbus.Props.C19X
#print axioms Modbus.C19X.wordsOf_spec
#print axioms Modbus.C19X.rsp_register_data_shape
#print axioms Modbus.C19X.wmr_of_words
#print axioms Modbus.C19X.rwmr_of_words
#print axioms Modbus.C19X.rsp_data_reusable_in_request
#print axioms Modbus.C19X.rsp_data_reusable_in_rw_request
#print axioms Modbus.C19X.rsp_data_reuse_counts_match

import Modbus.Props.C05Wf
#print axioms Modbus.C05Wf.tcp_request_wf
#print axioms Modbus.C05Wf.tcp_response_wf_partial
#print axioms Modbus.C05Wf.transplant_value

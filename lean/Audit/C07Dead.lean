import Modbus.Props.C07Dead
#print axioms Modbus.C07Dead.decode_ok_of_predG
#print axioms Modbus.C07Dead.rsp_decode_ok_of_predicted
#print axioms Modbus.C07Dead.rtu_rsp_pdu_decodes
#print axioms Modbus.C07Dead.rtu_rsp_pdu_stage_ok
#print axioms Modbus.C07Dead.rtu_client_errors_come_from_scanner
#print axioms Modbus.C07Dead.tcp_rsp_pdu_decodes
#print axioms Modbus.C07Dead.tcp_rsp_pdu_stage_ok
#print axioms Modbus.C07Dead.tcp_server_errors_come_from_scanner
#print axioms Modbus.C07Dead.tcp_extract_recheck_dead
#print axioms Modbus.C07Dead.request_encode_len
#print axioms Modbus.C07Dead.response_encode_len
#print axioms Modbus.C07Dead.responsePdu_encode_len
#print axioms Modbus.C07Dead.tcp_encode_post_check_dead_req
#print axioms Modbus.C07Dead.tcp_encode_post_check_dead_rsp

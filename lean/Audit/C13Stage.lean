import Modbus.Props.C13Stage
#print axioms Modbus.C13Stage.req_stage_of_predReq
#print axioms Modbus.C13Stage.tcp_req_pdu_stage
#print axioms Modbus.C13Stage.tcp_req_pdu_stage_ok_simple
#print axioms Modbus.C13Stage.tcp_server_request_errors
#print axioms Modbus.C13Stage.rtu_req_pdu_stage
#print axioms Modbus.C13Stage.rtu_req_pdu_stage_ok_simple
#print axioms Modbus.C13Stage.rtu_server_request_errors
#print axioms Modbus.C13Stage.tcp_req_pdu_stage_iff
#print axioms Modbus.C13Stage.rtu_req_pdu_stage_iff

import Modbus.Props.C03Req
#print axioms Modbus.C03Req.req_image_conforms
#print axioms Modbus.C03Req.req_conforms
#print axioms Modbus.C03Req.req_encode_conforms
#print axioms Modbus.C03Req.req_pdu_encode_conforms
#print axioms Modbus.C03Req.req_pdu_len_conforms
#print axioms Modbus.C03Req.req_encode_ok_conforms
#print axioms Modbus.C03Req.req_decodes_spec
#print axioms Modbus.C03Req.req_decodes_spec_trailing
#print axioms Modbus.C03Req.req_decodes_spec_refuses_high
#print axioms Modbus.C03Req.req_decodes_bad_coil_value
#print axioms Modbus.C03Req.req_conforms_any
#print axioms Modbus.C03Req.coils_wire_conforms
#print axioms Modbus.Coils.copyBytes_eq_packBits
#print axioms Modbus.Coils.Backed.wire_eq_packBits
#print axioms Modbus.bitOf_maskLow

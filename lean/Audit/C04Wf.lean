import Modbus.Props.C04Wf
#print axioms Modbus.C04Wf.rtu_request_wf_encode
#print axioms Modbus.C04Wf.rtu_request_wf_partial
#print axioms Modbus.C04Wf.rtu_response_wf_partial
#print axioms Modbus.C04Wf.transplant_value

import Modbus.Props.C06
#print axioms Modbus.C06.crc_eq_spec_from
#print axioms Modbus.C06.crc_eq_spec
#print axioms Modbus.C06.crc16_eq_spec_swapped
#print axioms Modbus.C06.crc_wire_low_first
#print axioms Modbus.C06.crc_residue
#print axioms Modbus.C06.crc_residue_spec
#print axioms Modbus.C06.crc_check_value
#print axioms Modbus.C06.crc_check_value_model
#print axioms Modbus.C06.crc_rocksoft
#print axioms Modbus.C06.crc_eq_rocksoft

import Modbus.Model.Fast
#print axioms Modbus.Fast.packCoils_eq_fast
#print axioms Modbus.Fast.Coils.fromBools_eq_fast
#print axioms Modbus.Fast.Coils.iter_eq_fast
#print axioms Modbus.Fast.unpackCoils_eq_fast
#print axioms Modbus.Fast.Data.get_eq_fast
#print axioms Modbus.Fast.Data.iter_eq_fast
#print axioms Modbus.Fast.Coils.getAll_eq_fast
#print axioms Modbus.Fast.Data.getAll_eq_fast

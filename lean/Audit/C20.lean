import Modbus.Props.C20
#print axioms Modbus.C20.cfg_consistent
#print axioms Modbus.C20.cfg_consistent_documented
#print axioms Modbus.C20.no_unsafe_no_std

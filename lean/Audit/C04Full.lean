import Modbus.Props.C04Full
#print axioms Modbus.C04Full.rtu_frame_crc
#print axioms Modbus.C04Full.rtu_request_end_to_end_partial
#print axioms Modbus.C04Full.rtu_request_end_to_end_buffer_partial
#print axioms Modbus.C04Full.rtu_request_encode
#print axioms Modbus.C04Full.rtu_request_short_buffer
#print axioms Modbus.C04Full.rtu_request_well_formed
#print axioms Modbus.C04Full.rtu_request_end_to_end_fails
#print axioms Modbus.C04Full.rtu_request_end_to_end_fails_coils
#print axioms Modbus.C04Full.rtu_response_end_to_end_partial
#print axioms Modbus.C04Full.rtu_response_end_to_end_buffer_partial
#print axioms Modbus.C04Full.rtu_response_short_buffer_partial
#print axioms Modbus.C04Full.rtu_response_well_formed
#print axioms Modbus.C04Full.rtu_response_end_to_end_fails
#print axioms Modbus.C04Full.rtu_exception_end_to_end
#print axioms Modbus.C04Full.rtu_exception_end_to_end_codes
#print axioms Modbus.C04Full.rtu_read_exception_status_end_to_end

import Modbus.Lemmas.CfgCheck
open Modbus.Gen.Cfg
/- prints, for every feature subset, the model's verdict (used by tools/c20.py for the correspondence with cargo) -/
#eval (subsets featureCount).map fun s => (s, consistent s)
#eval (untranslatable, factsOk, noStdAttribute, unsafeTokens, stdAllocMentionsOutsideTests)
#eval ((uses.filter fun u => (u.2.eval [2]) && !(defined [2] u.1)).map (·.1))

import Modbus.Props.C03Rsp
#print axioms Modbus.C03Rsp.rsp_conforms_partial
#print axioms Modbus.C03Rsp.rsp_encode_conforms_partial
#print axioms Modbus.C03Rsp.rsp_pdu_encode_conforms_partial
#print axioms Modbus.C03Rsp.rsp_write_single_coil_defect_witness
#print axioms Modbus.C03Rsp.rsp_write_single_coil_defect
#print axioms Modbus.C03Rsp.rsp_write_single_coil_encode
#print axioms Modbus.C03Rsp.exc_conforms
#print axioms Modbus.C03Rsp.exc_encode_conforms
#print axioms Modbus.C03Rsp.exc_code_defined
#print axioms Modbus.C03Rsp.exc_code_complete
#print axioms Modbus.C03Rsp.rsp_decodes_spec
#print axioms Modbus.C03Rsp.rsp_decodes_spec_write_single_coil
#print axioms Modbus.C03Rsp.rsp_decodes_own_write_single_coil
#print axioms Modbus.C03Rsp.rsp_decodes_spec_coils
#print axioms Modbus.C03Rsp.exc_decodes_spec
#print axioms Modbus.C03Rsp.exc_decodes_only_spec

import Modbus.Props.C19Req
#print axioms Modbus.C19Req.req_no_truncation
#print axioms Modbus.C19Req.req_encode_outcome
#print axioms Modbus.C19Req.req_oversize_is_error
#print axioms Modbus.C19Req.write_multiple_coils_no_truncation
#print axioms Modbus.C19Req.write_multiple_registers_no_truncation
#print axioms Modbus.C19Req.read_write_multiple_registers_no_truncation
#print axioms Modbus.C19Req.count_fields_coils
#print axioms Modbus.C19Req.count_fields_registers
#print axioms Modbus.C19Req.count_fields_read_write

import Modbus.Props.C08Crc
#print axioms Modbus.C08Crc.crcOk_iff_residue
#print axioms Modbus.C08Crc.crc_linear
#print axioms Modbus.C08Crc.crcOk_xor_iff
#print axioms Modbus.C08Crc.crc_detects_burst
#print axioms Modbus.C08Crc.crc_detects_single
#print axioms Modbus.C08Crc.crc_detects_double_dist
#print axioms Modbus.C08Crc.crc_detects_double
#print axioms Modbus.C08Crc.crc_detects_single_flip
#print axioms Modbus.C08Crc.crc_detects_double_flip
#print axioms Modbus.C08Crc.crc_detects
#print axioms Modbus.C08Crc.extract_full_iff
#print axioms Modbus.C08Crc.crc_detects_double_dist_full
#print axioms Modbus.C08Crc.crc_detects_double_4095

import Modbus.Props.C12Wf
#print axioms Modbus.C12Wf.rtu_encodeAdu_of_refusal
#print axioms Modbus.C12Wf.tcp_encodeAdu_of_refusal
#print axioms Modbus.C12Wf.adu_encoders_refuse_oversize
#print axioms Modbus.C12Wf.adu_encoders_total
#print axioms Modbus.C12Wf.adu_encoders_fitting
#print axioms Modbus.C12Wf.req_refusal
#print axioms Modbus.C12Wf.rsp_refusal
#print axioms Modbus.C12Wf.encSpec_ne_panic

import Modbus.Model.Basic
import Modbus.Model.Frame
import Modbus.Model.Codec
import Modbus.Model.Scan
import Modbus.Model.Crc
import Modbus.Model.Rtu
import Modbus.Model.Tcp
import Modbus.Model.Receiver
import Modbus.Model.Fast
import Modbus.Spec.Wire
import Modbus.Spec.Crc
import Modbus.Spec.Lengths
/-
Line-protocol driver for the model (DESIGN.md §3.1).  One operation per input line, one
canonical result line per operation.  Imports the model and `Model/Fast.lean` (linear implementations PROVED equal to the model's
functions and substituted by `@[csimp]`; core-only, no Mathlib) so it links as a `lean_exe`.  Text after " # " on a result line is commentary and never compared.
-/
open Modbus

namespace Drv

/-! ### hex, numbers, fills -/

def hexDigit (n : Nat) : Char :=
  if n < 10 then Char.ofNat (48 + n) else Char.ofNat (55 + n)

def hexByte (b : UInt8) : String :=
  String.ofList [hexDigit (b.toNat / 16), hexDigit (b.toNat % 16)]

def hexOf (bs : Bytes) : String :=
  if bs.isEmpty then "-" else String.ofList (bs.foldr (fun b acc => hexDigit (b.toNat / 16) :: hexDigit (b.toNat % 16) :: acc) [])

def hex16 (w : UInt16) : String :=
  String.ofList [hexDigit (w.toNat / 4096), hexDigit (w.toNat / 256 % 16), hexDigit (w.toNat / 16 % 16), hexDigit (w.toNat % 16)]

def hexVal (c : Char) : Option Nat :=
  if '0' ≤ c ∧ c ≤ '9' then some (c.toNat - 48)
  else if 'A' ≤ c ∧ c ≤ 'F' then some (c.toNat - 55)
  else if 'a' ≤ c ∧ c ≤ 'f' then some (c.toNat - 87)
  else none

def parseHexChars : List Char → List UInt8 → Option Bytes
  | [], acc => some acc.reverse
  | [_], _ => none
  | a :: b :: rest, acc =>
    match hexVal a, hexVal b with
    | some x, some y => parseHexChars rest (UInt8.ofNat (x * 16 + y) :: acc)
    | _, _ => none

def parseHex (s : String) : Option Bytes :=
  if s == "-" then some [] else parseHexChars s.toList []

def parseU8 (s : String) : Option UInt8 :=
  match s.toNat? with
  | some n => if n < 256 then some (UInt8.ofNat n) else none
  | none => none

def parseU16 (s : String) : Option UInt16 :=
  match s.toNat? with
  | some n => if n < 65536 then some (UInt16.ofNat n) else none
  | none => none

/-- fill token: `xx` constant byte, `xxr` the pattern `(xx + 29*i) mod 256` -/
def mkFill (tok : String) (len : Nat) : Option Bytes :=
  let cs := tok.toList
  match cs with
  | [a, b] => (parseHexChars [a, b] []).bind fun bs => bs.head?.map fun x => List.replicate len x
  | [a, b, 'r'] => (parseHexChars [a, b] []).bind fun bs => bs.head?.map fun x =>
      (List.range len).map fun i => UInt8.ofNat (x.toNat + 29 * i)
  | _ => none

def parseBits (s : String) : Option (List Bool) :=
  match s.toList with
  | 'B' :: rest => rest.mapM fun c => if c == '1' then some true else if c == '0' then some false else none
  | _ => none

def parseWordsChars : List Char → List UInt16 → Option (List UInt16)
  | [], acc => some acc.reverse
  | a :: b :: c :: d :: rest, acc =>
    match hexVal a, hexVal b, hexVal c, hexVal d with
    | some w, some x, some y, some z =>
      let v := UInt16.ofNat (w * 4096 + x * 256 + y * 16 + z)
      match rest with
      | [] => some (v :: acc).reverse
      | ',' :: rest' => parseWordsChars rest' (v :: acc)
      | _ => none
    | _, _, _, _ => none
  | _, _ => none

def parseWords (s : String) : Option (List UInt16) :=
  match s.toList with
  | 'W' :: rest => parseWordsChars rest []
  | _ => none

def parseIdxList (s : String) : Option (List Nat) :=
  if s == "-" then some [] else (s.splitOn ",").mapM (·.toNat?)

/-! ### canonical printing (what the public API lets a user observe) -/

def fcName : FunctionCode → String
  | .readCoils => "RC" | .readDiscreteInputs => "RDI" | .writeSingleCoil => "WSC"
  | .writeSingleRegister => "WSR" | .readHoldingRegisters => "RHR" | .readInputRegisters => "RIR"
  | .writeMultipleCoils => "WMC" | .writeMultipleRegisters => "WMR" | .maskWriteRegister => "MWR"
  | .readWriteMultipleRegisters => "RWM" | .readExceptionStatus => "RES" | .diagnostics => "DIA"
  | .getCommEventCounter => "GCC" | .getCommEventLog => "GCL" | .reportServerId => "RSI"
  | .custom c => "X" ++ hexByte c

def excIdx : Exception → Nat
  | .illegalFunction => 0 | .illegalDataAddress => 1 | .illegalDataValue => 2
  | .serverDeviceFailure => 3 | .acknowledge => 4 | .serverDeviceBusy => 5
  | .memoryParityError => 6 | .gatewayPathUnavailable => 7 | .gatewayTargetDevice => 8

def excOfIdx : Nat → Option Exception
  | 0 => some .illegalFunction | 1 => some .illegalDataAddress | 2 => some .illegalDataValue
  | 3 => some .serverDeviceFailure | 4 => some .acknowledge | 5 => some .serverDeviceBusy
  | 6 => some .memoryParityError | 7 => some .gatewayPathUnavailable | 8 => some .gatewayTargetDevice
  | _ => none

def coilChar : Res (Option Bool) → Char
  | .ok (some true) => '1' | .ok (some false) => '0' | .ok none => '-' | _ => '!'

def wordStr : Res (Option UInt16) → String
  | .ok (some w) => hex16 w | .ok none => "-" | _ => "!"

/-- `c<len>:<get(0) … get(len-1)>` -/
def coilsStr (c : Coils) : String :=
  "c" ++ toString c.len ++ ":" ++ String.ofList (c.getAll.map coilChar)

/-- `d<len>:<get(0),…,get(len-1)>` -/
def dataStr (d : Data) : String :=
  "d" ++ toString d.len ++ ":" ++ ",".intercalate (d.getAll.map wordStr)

def b01 (b : Bool) : String := if b then "1" else "0"

def bitsStr (l : List Bool) : String := "B" ++ String.ofList (l.map fun x => if x then '1' else '0')

def reqStr : Request → String
  | .readCoils a q => s!"RC {a} {q}"
  | .readDiscreteInputs a q => s!"RDI {a} {q}"
  | .writeSingleCoil a c => s!"WSC {a} {b01 c}"
  | .writeMultipleCoils a c => s!"WMC {a} {coilsStr c}"
  | .readInputRegisters a q => s!"RIR {a} {q}"
  | .readHoldingRegisters a q => s!"RHR {a} {q}"
  | .writeSingleRegister a w => s!"WSR {a} {w}"
  | .writeMultipleRegisters a d => s!"WMR {a} {dataStr d}"
  | .readWriteMultipleRegisters ra rq wa d => s!"RWM {ra} {rq} {wa} {dataStr d}"
  | .readExceptionStatus => "RES"
  | .diagnostics s d => s!"DIA {s} {dataStr d}"
  | .getCommEventCounter => "GCC"
  | .getCommEventLog => "GCL"
  | .reportServerId => "RSI"
  | .custom fc d => s!"CUS {fcName fc} {hexOf d}"

def rspStr : Response → String
  | .readCoils c => s!"RC {coilsStr c}"
  | .readDiscreteInputs c => s!"RDI {coilsStr c}"
  | .writeSingleCoil a => s!"WSC {a}"
  | .writeMultipleCoils a q => s!"WMC {a} {q}"
  | .readInputRegisters d => s!"RIR {dataStr d}"
  | .readHoldingRegisters d => s!"RHR {dataStr d}"
  | .writeSingleRegister a w => s!"WSR {a} {w}"
  | .writeMultipleRegisters a q => s!"WMR {a} {q}"
  | .readWriteMultipleRegisters d => s!"RWM {dataStr d}"
  | .readExceptionStatus s => s!"RES {s}"
  | .diagnostics d => s!"DIA {dataStr d}"
  | .getCommEventCounter s e => s!"GCC {s} {e}"
  | .getCommEventLog s e m ev => s!"GCL {s} {e} {m} {hexOf ev}"
  | .reportServerId i r => s!"RSI {hexOf i} {b01 r}"
  | .custom fc d => s!"CUS {fcName fc} {hexOf d}"

def excStr (e : ExceptionResponse) : String := s!"EXC {fcName e.function} {excIdx e.exception}"

def pduStr : ResponsePdu → String
  | .ok r => rspStr r
  | .error e => excStr e

/-- errors with their payloads, in the notation of Rust's derived `Debug` -/
def errStr : Error → String
  | .coilValue v => s!"ERR CoilValue({v.toNat})"
  | .bufferSize => "ERR BufferSize"
  | .fnCode c => s!"ERR FnCode({c.toNat})"
  | .exceptionCode c => s!"ERR ExceptionCode({c.toNat})"
  | .exceptionFnCode c => s!"ERR ExceptionFnCode({c.toNat})"
  | .crc a b => s!"ERR Crc({a.toNat}, {b.toNat})"
  | .byteCount c => s!"ERR ByteCount({c.toNat})"
  | .lengthMismatch a b => s!"ERR LengthMismatch({a}, {b})"
  | .protocolNotModbus p => s!"ERR ProtocolNotModbus({p.toNat})"

def rawHex (b : Bytes) : String := if b.isEmpty then "-" else hexOf b

/-- the raw bytes of every container in the value (what Rust's derived `Debug` / `==` observe) -/
def reqRaw : Request → String
  | .writeMultipleCoils _ c => rawHex c.data
  | .writeMultipleRegisters _ d | .readWriteMultipleRegisters _ _ _ d | .diagnostics _ d => rawHex d.data
  | _ => "none"

def rspRaw : Response → String
  | .readCoils c | .readDiscreteInputs c => rawHex c.data
  | .readInputRegisters d | .readHoldingRegisters d | .readWriteMultipleRegisters d | .diagnostics d => rawHex d.data
  | _ => "none"

def resStr {α} (f : α → String) : Res α → String
  | .ok a => "OK " ++ f a
  | .err e => errStr e
  | .panic => "PANIC"

def encStr : Res (Nat × Bytes) → String
  | .ok (n, b) => s!"OK {n} {hexOf b}"
  | .err e => errStr e
  | .panic => "PANIC"

/-! ### value specifications (constructor arguments) -/

inductive Spec (α : Type) where
  | val (a : α) (rest : List String)
  | specErr          -- a public constructor refused the arguments
  | bad              -- unparsable line

def mkCoils (bits t f : String) : Option (Res Coils) := do
  let bs ← parseBits bits
  let tl ← t.toNat?
  let tgt ← mkFill f tl
  pure (Coils.fromBools bs tgt)

def mkData (ws t f : String) : Option (Res Data) := do
  let w ← parseWords ws
  let tl ← t.toNat?
  let tgt ← mkFill f tl
  pure (Data.fromWords w tgt)

def fcSpec (s : String) : Option FunctionCode :=
  match s.toList with
  | 'N' :: rest => (parseHexChars rest []).bind fun b => b.head?.map FunctionCode.new
  | 'C' :: rest => (parseHexChars rest []).bind fun b => b.head?.map FunctionCode.custom
  | _ => none

def liftC {α β} (o : Option (Res α)) (k : α → β) (rest : List String) : Spec β :=
  match o with
  | none => .bad
  | some (.ok a) => .val (k a) rest
  | some _ => .specErr

def optSpec {α} (o : Option α) (rest : List String) : Spec α :=
  match o with
  | some a => .val a rest
  | none => .bad

/-- a container taken from a decoded PDU: `P<hex>` = response bytes, `Q<hex>` = request bytes -/
def srcCoils (s : String) : Option (Option Coils) :=
  match s.toList with
  | 'P' :: h => (parseHexChars h []).map fun b => match Response.decode b with
      | .ok (.readCoils c) | .ok (.readDiscreteInputs c) => some c
      | _ => none
  | 'Q' :: h => (parseHexChars h []).map fun b => match Request.decode b with
      | .ok (.writeMultipleCoils _ c) => some c
      | _ => none
  | _ => none

def srcData (s : String) : Option (Option Data) :=
  match s.toList with
  | 'P' :: h => (parseHexChars h []).map fun b => match Response.decode b with
      | .ok (.readHoldingRegisters d) | .ok (.readInputRegisters d) | .ok (.readWriteMultipleRegisters d) => some d
      | _ => none
  | 'Q' :: h => (parseHexChars h []).map fun b => match Request.decode b with
      | .ok (.writeMultipleRegisters _ d) | .ok (.readWriteMultipleRegisters _ _ _ d) => some d
      | _ => none
  | _ => none

def liftS {α β} (o : Option (Option α)) (k : α → β) (rest : List String) : Spec β :=
  match o with
  | none => .bad
  | some (some a) => .val (k a) rest
  | some none => .specErr

def reqSpec : List String → Spec Request
  | "RC" :: a :: q :: r => optSpec (do pure (.readCoils (← parseU16 a) (← parseU16 q))) r
  | "RDI" :: a :: q :: r => optSpec (do pure (.readDiscreteInputs (← parseU16 a) (← parseU16 q))) r
  | "RIR" :: a :: q :: r => optSpec (do pure (.readInputRegisters (← parseU16 a) (← parseU16 q))) r
  | "RHR" :: a :: q :: r => optSpec (do pure (.readHoldingRegisters (← parseU16 a) (← parseU16 q))) r
  | "WSR" :: a :: q :: r => optSpec (do pure (.writeSingleRegister (← parseU16 a) (← parseU16 q))) r
  | "WSC" :: a :: c :: r => optSpec (do pure (.writeSingleCoil (← parseU16 a) (c == "1"))) r
  | "WMC" :: a :: b :: t :: f :: r =>
    match parseU16 a with
    | some a => liftC (mkCoils b t f) (Request.writeMultipleCoils a) r
    | none => .bad
  | "WMR" :: a :: w :: t :: f :: r =>
    match parseU16 a with
    | some a => liftC (mkData w t f) (Request.writeMultipleRegisters a) r
    | none => .bad
  | "RWM" :: ra :: rq :: wa :: w :: t :: f :: r =>
    match parseU16 ra, parseU16 rq, parseU16 wa with
    | some ra, some rq, some wa => liftC (mkData w t f) (Request.readWriteMultipleRegisters ra rq wa) r
    | _, _, _ => .bad
  | "RES" :: r => .val .readExceptionStatus r
  | "DIA" :: s :: w :: t :: f :: r =>
    match parseU16 s with
    | some s => liftC (mkData w t f) (Request.diagnostics s) r
    | none => .bad
  | "GCC" :: r => .val .getCommEventCounter r
  | "GCL" :: r => .val .getCommEventLog r
  | "RSI" :: r => .val .reportServerId r
  | "CUS" :: fc :: h :: r => optSpec (do pure (.custom (← fcSpec fc) (← parseHex h))) r
  | "DEC" :: h :: r =>
    match parseHex h with
    | some b => match Request.decode b with
      | .ok v => .val v r
      | _ => .specErr
    | none => .bad
  | "WMRX" :: a :: h :: r =>
    match parseU16 a, parseHex h with
    | some a, some b => match Response.decode b with
      | .ok (.readHoldingRegisters d) | .ok (.readInputRegisters d) | .ok (.readWriteMultipleRegisters d) =>
        .val (.writeMultipleRegisters a d) r
      | _ => .specErr
    | _, _ => .bad
  | "RWMX" :: ra :: rq :: wa :: h :: r =>
    match parseU16 ra, parseU16 rq, parseU16 wa, parseHex h with
    | some ra, some rq, some wa, some b => match Response.decode b with
      | .ok (.readHoldingRegisters d) | .ok (.readInputRegisters d) | .ok (.readWriteMultipleRegisters d) =>
        .val (.readWriteMultipleRegisters ra rq wa d) r
      | _ => .specErr
    | _, _, _, _ => .bad
  | "WMCS" :: a :: src :: r =>
    match parseU16 a with
    | some a => liftS (srcCoils src) (Request.writeMultipleCoils a) r
    | none => .bad
  | "WMRS" :: a :: src :: r =>
    match parseU16 a with
    | some a => liftS (srcData src) (Request.writeMultipleRegisters a) r
    | none => .bad
  | "RWMS" :: ra :: rq :: wa :: src :: r =>
    match parseU16 ra, parseU16 rq, parseU16 wa with
    | some ra, some rq, some wa => liftS (srcData src) (Request.readWriteMultipleRegisters ra rq wa) r
    | _, _, _ => .bad
  | _ => .bad

def rspSpec : List String → Spec Response
  | "RC" :: b :: t :: f :: r => liftC (mkCoils b t f) Response.readCoils r
  | "RDI" :: b :: t :: f :: r => liftC (mkCoils b t f) Response.readDiscreteInputs r
  | "WSC" :: a :: r => optSpec (do pure (.writeSingleCoil (← parseU16 a))) r
  | "WMC" :: a :: q :: r => optSpec (do pure (.writeMultipleCoils (← parseU16 a) (← parseU16 q))) r
  | "RIR" :: w :: t :: f :: r => liftC (mkData w t f) Response.readInputRegisters r
  | "RHR" :: w :: t :: f :: r => liftC (mkData w t f) Response.readHoldingRegisters r
  | "WSR" :: a :: q :: r => optSpec (do pure (.writeSingleRegister (← parseU16 a) (← parseU16 q))) r
  | "WMR" :: a :: q :: r => optSpec (do pure (.writeMultipleRegisters (← parseU16 a) (← parseU16 q))) r
  | "RWM" :: w :: t :: f :: r => liftC (mkData w t f) Response.readWriteMultipleRegisters r
  | "RES" :: b :: r => optSpec (do pure (.readExceptionStatus (← parseU8 b))) r
  | "DIA" :: w :: t :: f :: r => liftC (mkData w t f) Response.diagnostics r
  | "GCC" :: s :: e :: r => optSpec (do pure (.getCommEventCounter (← parseU16 s) (← parseU16 e))) r
  | "GCL" :: s :: e :: m :: h :: r =>
    optSpec (do pure (.getCommEventLog (← parseU16 s) (← parseU16 e) (← parseU16 m) (← parseHex h))) r
  | "RSI" :: h :: b :: r => optSpec (do pure (.reportServerId (← parseHex h) (b == "1"))) r
  | "CUS" :: fc :: h :: r => optSpec (do pure (.custom (← fcSpec fc) (← parseHex h))) r
  | "DEC" :: h :: r =>
    match parseHex h with
    | some b => match Response.decode b with
      | .ok v => .val v r
      | _ => .specErr
    | none => .bad
  | "RCS" :: src :: r => liftS (srcCoils src) Response.readCoils r
  | "RDIS" :: src :: r => liftS (srcCoils src) Response.readDiscreteInputs r
  | "RIRS" :: src :: r => liftS (srcData src) Response.readInputRegisters r
  | "RHRS" :: src :: r => liftS (srcData src) Response.readHoldingRegisters r
  | "RWMS" :: src :: r => liftS (srcData src) Response.readWriteMultipleRegisters r
  | _ => .bad

def excSpec : List String → Spec ExceptionResponse
  | "EXC" :: fc :: k :: r =>
    optSpec (do
      let f ← fcSpec fc
      let e ← excOfIdx (← k.toNat?)
      pure { function := f, exception := e }) r
  | _ => .bad

def pduSpec (toks : List String) : Spec ResponsePdu :=
  match toks with
  | "EXC" :: _ =>
    match excSpec toks with
    | .val e r => .val (.error e) r
    | .specErr => .specErr
    | .bad => .bad
  | _ =>
    match rspSpec toks with
    | .val v r => .val (.ok v) r
    | .specErr => .specErr
    | .bad => .bad

def withBuf (rest : List String) (k : Bytes → String) : String :=
  match rest with
  | [l, f] =>
    match l.toNat? with
    | some len => match mkFill f len with
      | some buf => k buf
      | none => "BADOP"
    | none => "BADOP"
  | _ => "BADOP"

/-! ### "use" of a decoded value (C13) -/

def extraIdx (len : Nat) : List Nat := [len, len + 1, 255, 256, 65535, 65536, 18446744073709551615]

def iterStr {α} (r : Res (List α)) : String :=
  match r with
  | .ok l => toString l.length
  | _ => "!"

def plStr : Res Nat → String
  | .ok n => toString n
  | _ => "!"

def encBufLen : Res Nat → Nat
  | .ok n => n + 2
  | _ => 302

def reqUse (v : Request) : String :=
  let gx := match v with
    | .writeMultipleCoils _ c => String.ofList ((extraIdx c.len).map fun i => coilChar (c.get i)) ++ " it=" ++ iterStr c.iter
    | .writeMultipleRegisters _ d | .readWriteMultipleRegisters _ _ _ d | .diagnostics _ d =>
      ",".intercalate ((extraIdx d.len).map fun i => wordStr (d.get i)) ++ " it=" ++ iterStr d.iter
    | _ => "- it=-"
  let pl := v.pduLen
  let e := v.encode (List.replicate (encBufLen pl) 0xEE)
  let re := match e with
    | .ok (n, out) => resStr reqStr (Request.decode (out.take n))
    | _ => "-"
  s!"OK {reqStr v} pl={plStr pl} gx={gx} enc={encStr e} re={re}"

def rspUse (v : Response) : String :=
  let gx := match v with
    | .readCoils c | .readDiscreteInputs c => String.ofList ((extraIdx c.len).map fun i => coilChar (c.get i)) ++ " it=" ++ iterStr c.iter
    | .readInputRegisters d | .readHoldingRegisters d | .readWriteMultipleRegisters d | .diagnostics d =>
      ",".intercalate ((extraIdx d.len).map fun i => wordStr (d.get i)) ++ " it=" ++ iterStr d.iter
    | _ => "- it=-"
  let pl := v.pduLen
  let e := v.encode (List.replicate (encBufLen pl) 0xEE)
  let re := match e with
    | .ok (n, out) => resStr rspStr (Response.decode (out.take n))
    | _ => "-"
  s!"OK {rspStr v} pl={plStr pl} gx={gx} enc={encStr e} re={re}"

/-! ### ADU helpers -/

def lenStr : Res (Option Nat) → String
  | .ok (some n) => s!"SOME {n}"
  | .ok none => "NONE"
  | .err e => errStr e
  | .panic => "PANIC"

def rtuFrameStr (f : Rtu.Frame) : String := s!"{f.slave} {hexOf f.pdu}"
def tcpFrameStr (f : Tcp.Frame) : String := s!"{f.transactionId} {f.unitId} {hexOf f.pdu}"

def optFrameStr {F} (p : F → String) : Res (Option F) → String
  | .ok (some f) => "FRAME " ++ p f
  | .ok none => "NONE"
  | .err e => errStr e
  | .panic => "PANIC"

def scanStr {F} (p : F → String) : Res (Option (F × Loc)) → String
  | .ok (some (f, loc)) => s!"FRAME {p f} {loc.start} {loc.size}"
  | .ok none => "NONE"
  | .err e => errStr e
  | .panic => "PANIC"

def aduStr {α} (p : α → String) : Res (Option α) → String
  | .ok (some a) => "OK " ++ p a
  | .ok none => "NONE"
  | .err e => errStr e
  | .panic => "PANIC"

/-! ### the receive loop (C11) -/

def recvStr {F} (p : F → String) (scanf : Bytes → Res (Option (F × Loc))) (chunks : List Bytes) : String :=
  let st := chunks.foldl (Receiver.recv scanf) { buf := [], out := [], fault := false }
  s!"frames={st.out.length} [{";".intercalate (st.out.map p)}] buf={hexOf st.buf} fault={b01 st.fault}"

def parseChunks (s : String) : Option (List Bytes) :=
  if s == "" then some [] else (s.splitOn ",").mapM parseHex

/-! ### the independent specification (Spec/*.lean), for the tie with the harness's Rust reference -/

def fcByte (s : String) : Option UInt8 :=
  match s.toList with
  | _ :: rest => (parseHexChars rest []).bind fun b => b.head?
  | _ => none

def reqMeaningOf : List String → Option Spec.ReqMeaning
  | "RC" :: a :: q :: _ => do pure (.readCoils (← parseU16 a) (← parseU16 q))
  | "RDI" :: a :: q :: _ => do pure (.readDiscreteInputs (← parseU16 a) (← parseU16 q))
  | "RHR" :: a :: q :: _ => do pure (.readHoldingRegisters (← parseU16 a) (← parseU16 q))
  | "RIR" :: a :: q :: _ => do pure (.readInputRegisters (← parseU16 a) (← parseU16 q))
  | "WSR" :: a :: q :: _ => do pure (.writeSingleRegister (← parseU16 a) (← parseU16 q))
  | "WSC" :: a :: c :: _ => do pure (.writeSingleCoil (← parseU16 a) (c == "1"))
  | "WMC" :: a :: b :: _ => do pure (.writeMultipleCoils (← parseU16 a) (← parseBits b))
  | "WMR" :: a :: w :: _ => do pure (.writeMultipleRegisters (← parseU16 a) (← parseWords w))
  | "RWM" :: ra :: rq :: wa :: w :: _ => do
      pure (.readWriteMultipleRegisters (← parseU16 ra) (← parseU16 rq) (← parseU16 wa) (← parseWords w))
  | "CUS" :: fc :: h :: _ => do pure (.custom (← fcByte fc) (← parseHex h))
  | _ => none

def rspBytesOf : List String → Option Bytes
  | "RC" :: b :: _ => do pure (Spec.rspBytes (.readCoils (← parseBits b)))
  | "RDI" :: b :: _ => do pure (Spec.rspBytes (.readDiscreteInputs (← parseBits b)))
  | "RHR" :: w :: _ => do pure (Spec.rspBytes (.readHoldingRegisters (← parseWords w)))
  | "RIR" :: w :: _ => do pure (Spec.rspBytes (.readInputRegisters (← parseWords w)))
  | "RWM" :: w :: _ => do pure (Spec.rspBytes (.readWriteMultipleRegisters (← parseWords w)))
  | "WSC" :: a :: _ => do pure (Spec.rspBytes (.writeSingleCoil (← parseU16 a)))
  | "WSR" :: a :: q :: _ => do pure (Spec.rspBytes (.writeSingleRegister (← parseU16 a) (← parseU16 q)))
  | "WMC" :: a :: q :: _ => do pure (Spec.rspBytes (.writeMultipleCoils (← parseU16 a) (← parseU16 q)))
  | "WMR" :: a :: q :: _ => do pure (Spec.rspBytes (.writeMultipleRegisters (← parseU16 a) (← parseU16 q)))
  | "CUS" :: fc :: h :: _ => do pure (Spec.rspBytes (.custom (← fcByte fc) (← parseHex h)))
  | "RES" :: x :: _ => do pure (Spec.rspBytes (.readExceptionStatus (← parseU8 x)))
  | "EXC" :: fc :: k :: _ => do
      let e ← excOfIdx (← k.toNat?)
      pure (Spec.excBytes (← fcByte fc) e.val)
  | _ => none

def predStr : Spec.Pred → String
  | .len n => s!"SOME {n}"
  | .incomplete => "NONE"
  | .reject => "ERR"

/-! ### dispatch -/

def gets {α} (idxs : List Nat) (g : Nat → String) (_ : α) : String := ",".intercalate (idxs.map g)

def step (toks : List String) : String :=
  match toks with
  | ["reqdec", h] => match parseHex h with
    | some b => resStr (fun v => s!"{reqStr v} raw={reqRaw v}") (Request.decode b) | none => "BADOP"
  | ["rspdec", h] => match parseHex h with
    | some b => resStr (fun v => s!"{rspStr v} raw={rspRaw v}") (Response.decode b) | none => "BADOP"
  | ["excdec", h] => match parseHex h with
    | some b => resStr excStr (ExceptionResponse.decode b) | none => "BADOP"
  | ["requse", h] => match parseHex h with
    | some b => match Request.decode b with
      | .ok v => reqUse v | .err e => errStr e | .panic => "PANIC"
    | none => "BADOP"
  | ["rspuse", h] => match parseHex h with
    | some b => match Response.decode b with
      | .ok v => rspUse v | .err e => errStr e | .panic => "PANIC"
    | none => "BADOP"
  | "reqenc" :: rest => match reqSpec rest with
    | .val v r => withBuf r fun buf => encStr (v.encode buf)
    | .specErr => "SPECERR" | .bad => "BADOP"
  | "rspenc" :: rest => match rspSpec rest with
    | .val v r => withBuf r fun buf => encStr (v.encode buf)
    | .specErr => "SPECERR" | .bad => "BADOP"
  | "excenc" :: rest => match excSpec rest with
    | .val v r => withBuf r fun buf => encStr (v.encode buf)
    | .specErr => "SPECERR" | .bad => "BADOP"
  | "excinto" :: rest => match excSpec rest with
    | .val v _ => (match v.toBytes with | .ok (a, b) => hexOf [a, b] | _ => "PANIC")
    | .specErr => "SPECERR" | .bad => "BADOP"
  | "reqlen" :: rest => match reqSpec rest with
    | .val v _ => (match v.pduLen with | .ok n => toString n | _ => "PANIC")
    | .specErr => "SPECERR" | .bad => "BADOP"
  | "rsplen" :: rest => match rspSpec rest with
    | .val v _ => (match v.pduLen with | .ok n => toString n | _ => "PANIC")
    | .specErr => "SPECERR" | .bad => "BADOP"
  | "pduenc" :: rest => match pduSpec rest with
    | .val v r => withBuf r fun buf => encStr (v.encode buf)
    | .specErr => "SPECERR" | .bad => "BADOP"
  | "rpduenc" :: rest => match reqSpec rest with
    | .val v r => withBuf r fun buf => encStr (RequestPdu.encode v buf)
    | .specErr => "SPECERR" | .bad => "BADOP"
  | ["rtulen", d, h] => match parseHex h with
    | some b => lenStr (if d == "req" then Rtu.requestPduLen b else Rtu.responsePduLen b) | none => "BADOP"
  | ["tcplen", d, h] => match parseHex h with
    | some b => lenStr (if d == "req" then Tcp.requestPduLen b else Tcp.responsePduLen b) | none => "BADOP"
  | ["rtuext", n, h] => match n.toNat?, parseHex h with
    | some n, some b => optFrameStr rtuFrameStr (Rtu.extractFrame b n) | _, _ => "BADOP"
  | ["tcpext", n, h] => match n.toNat?, parseHex h with
    | some n, some b => optFrameStr tcpFrameStr (Tcp.extractFrame b n) | _, _ => "BADOP"
  | ["rtuscan", d, h] => match parseHex h with
    | some b => scanStr rtuFrameStr (if d == "req" then Rtu.decodeReq b else Rtu.decodeRsp b) | none => "BADOP"
  | ["tcpscan", d, h] => match parseHex h with
    | some b => scanStr tcpFrameStr (if d == "req" then Tcp.decodeReq b else Tcp.decodeRsp b) | none => "BADOP"
  | ["rtudec", d, h] => match parseHex h with
    | some b =>
      if d == "req" then aduStr (fun (p : UInt8 × Request) => s!"{p.1} {reqStr p.2}") (Rtu.serverDecodeRequest b)
      else aduStr (fun (p : UInt8 × ResponsePdu) => s!"{p.1} {pduStr p.2}") (Rtu.clientDecodeResponse b)
    | none => "BADOP"
  | ["tcpdec", d, h] => match parseHex h with
    | some b =>
      if d == "req" then aduStr (fun (p : UInt16 × UInt8 × Request) => s!"{p.1} {p.2.1} {reqStr p.2.2}") (Tcp.decodeRequest b)
      else aduStr (fun (p : UInt16 × UInt8 × ResponsePdu) => s!"{p.1} {p.2.1} {pduStr p.2.2}") (Tcp.decodeResponse b)
    | none => "BADOP"
  | "rtuenc" :: "req" :: s :: rest => match parseU8 s, reqSpec rest with
    | some s, .val v r => withBuf r fun buf => encStr (Rtu.clientEncodeRequest s v buf)
    | some _, .specErr => "SPECERR" | _, _ => "BADOP"
  | "rtuenc" :: "rsp" :: s :: rest => match parseU8 s, pduSpec rest with
    | some s, .val v r => withBuf r fun buf => encStr (Rtu.serverEncodeResponse s v buf)
    | some _, .specErr => "SPECERR" | _, _ => "BADOP"
  | "tcpenc" :: "req" :: t :: u :: rest => match parseU16 t, parseU8 u, reqSpec rest with
    | some t, some u, .val v r => withBuf r fun buf => encStr (Tcp.encodeRequest t u v buf)
    | some _, some _, .specErr => "SPECERR" | _, _, _ => "BADOP"
  | "tcpenc" :: "rsp" :: t :: u :: rest => match parseU16 t, parseU8 u, pduSpec rest with
    | some t, some u, .val v r => withBuf r fun buf => encStr (Tcp.encodeResponse t u v buf)
    | some _, some _, .specErr => "SPECERR" | _, _, _ => "BADOP"
  | ["crc", h] => match parseHex h with
    | some b => hex16 (crc16 b) | none => "BADOP"
  | ["pack", bits, t, f] => match parseBits bits, t.toNat? with
    | some bs, some tl => match mkFill f tl with
      | some tgt => encStr (packCoils bs tgt) | none => "BADOP"
    | _, _ => "BADOP"
  | ["unpack", h, c, o] => match parseHex h, parseU16 c, o.toNat? with
    | some b, some c, some o =>
      resStr bitsStr
        (unpackCoils b c (List.replicate o false))
    | _, _, _ => "BADOP"
  | ["unpack", h, c, o, "T"] => match parseHex h, parseU16 c, o.toNat? with
    | some b, some c, some o =>
      resStr bitsStr
        (unpackCoils b c (List.replicate o true))
    | _, _, _ => "BADOP"
  | ["packedlen", n] => match n.toNat? with
    | some n => (match packedCoilsLenPub n with | .ok v => toString v | _ => "PANIC") | none => "BADOP"
  | ["frombools", bits, t, f, is] => match mkCoils bits t f, parseIdxList is with
    | some r, some idxs =>
      resStr (fun (c : Coils) =>
        s!"{c.len} {c.packedLen} {b01 c.isEmpty} {coilsStr c} gx={String.ofList (idxs.map fun i => coilChar (c.get i))} it={match c.iter with | .ok l => bitsStr l | _ => "!"} nx={String.ofList (idxs.map fun i => coilChar (c.get i))} n1={String.ofList (idxs.map fun i => coilChar (c.get (i + 1)))} raw={rawHex c.data}") r
    | _, _ => "BADOP"
  | ["fromwords", ws, t, f, is] => match mkData ws t f, parseIdxList is with
    | some r, some idxs =>
      resStr (fun (d : Data) =>
        s!"{d.len} {b01 d.isEmpty} {dataStr d} gx={",".intercalate (idxs.map fun i => wordStr (d.get i))} it={match d.iter with | .ok l => "W" ++ ",".intercalate (l.map hex16) | _ => "!"} nx={",".intercalate (idxs.map fun i => wordStr (d.get i))} n1={",".intercalate (idxs.map fun i => wordStr (d.get (i + 1)))} raw={rawHex d.data}") r
    | _, _ => "BADOP"
  | ["fcnew", b] => match parseU8 b with
    | some b => s!"{fcName (FunctionCode.new b)} {(FunctionCode.new b).value}" | none => "BADOP"
  | ["fcval", s] => match fcSpec s with
    | some fc => s!"{fcName fc} {fc.value}" | none => "BADOP"
  | ["exctry", b] => match parseU8 b with
    | some b => resStr (fun (e : Exception) => s!"{excIdx e} {e.val}") (Exception.tryFrom b) | none => "BADOP"
  | ["c2b", v] => match parseU16 v with
    | some v => resStr b01 (u16CoilToBool v) | none => "BADOP"
  | ["b2c", b] => toString (boolToU16Coil (b == "1"))
  | "fcof" :: "req" :: rest => match reqSpec rest with
    | .val v _ => s!"{fcName v.fc} {v.fc.value}" | .specErr => "SPECERR" | .bad => "BADOP"
  | "fcof" :: "rsp" :: rest => match rspSpec rest with
    | .val v _ => s!"{fcName v.fc} {v.fc.value}" | .specErr => "SPECERR" | .bad => "BADOP"
  | "specreq" :: rest => match reqMeaningOf rest with
    | some m => hexOf (Spec.reqBytes m) | none => "NA"
  | "specrsp" :: rest => match rspBytesOf rest with
    | some b => hexOf b | none => "NA"
  | ["speccrc", h] => match parseHex h with
    | some b => hexOf (Spec.crcWire b) | none => "BADOP"
  | ["speclen", d, hdr, h] => match hdr.toNat?, parseHex h with
    | some k, some b => predStr (Spec.predict k (if d == "req" then .req else .rsp) b) | _, _ => "BADOP"
  | ["specpack", bits] => match parseBits bits with
    | some bs => hexOf (Spec.packBits bs) | none => "BADOP"
  | ["recv", tr, d, cs] => match parseChunks cs with
    | some chunks =>
      if tr == "rtu" then recvStr rtuFrameStr (if d == "req" then Rtu.decodeReq else Rtu.decodeRsp) chunks
      else recvStr tcpFrameStr (if d == "req" then Tcp.decodeReq else Tcp.decodeRsp) chunks
    | none => "BADOP"
  | _ => "BADOP"

partial def loop (h : IO.FS.Stream) (out : IO.FS.Stream) : IO Unit := do
  let line ← h.getLine
  if line.isEmpty then return ()
  let toks := (line.trimAscii.toString.splitOn " ").filter (· ≠ "")
  if toks.isEmpty || (toks.head?.map (·.startsWith "#")).getD false then
    out.putStrLn "SKIP"
  else
    out.putStrLn (step toks)
  loop h out

end Drv

def main : IO Unit := do
  let out ← IO.getStdout
  Drv.loop (← IO.getStdin) out

import Modbus.Model.Basic
import Modbus.Model.Frame
import Modbus.Model.Codec
import Modbus.Model.Scan
import Modbus.Model.Crc
import Modbus.Model.Rtu
import Modbus.Model.Tcp
import Modbus.Model.Receiver

//! Reference statements of the Modbus wire formats, written independently of the crate
//! (and of the Lean model): used only by the oracles, i.e. by the search for a failing input.

/// abstract meaning of a request
#[derive(Clone, Debug, PartialEq)]
pub enum ReqM {
    Simple(u8, u16, u16), // 01 02 03 04 06: address, quantity/value
    Wsc(u16, bool),
    Wmc(u16, Vec<bool>),
    Wmr(u16, Vec<u16>),
    Rwm(u16, u16, u16, Vec<u16>),
    Custom(u8, Vec<u8>),
}

/// abstract meaning of a response
#[derive(Clone, Debug, PartialEq)]
pub enum RspM {
    Coils(u8, Vec<bool>), // 01 02
    Wsc(u16),             // 05 (the crate's value carries the address only)
    Pair(u8, u16, u16),   // 06 0F 10
    Regs(u8, Vec<u16>),   // 03 04 17
    Custom(u8, Vec<u8>),
    Res(u8),              // 07: read exception status (serial line only), one status byte
    Exc(u8, u8),          // function (< 0x80), exception code
}

fn w(v: u16) -> [u8; 2] {
    [(v / 256) as u8, (v % 256) as u8]
}

/// coils packed least-significant-bit first, zero padding
pub fn pack_bits(bits: &[bool]) -> Vec<u8> {
    let n = bits.len();
    let mut out = vec![];
    let mut k = 0;
    while k * 8 < n {
        let mut byte = 0u32;
        for j in 0..8 {
            if 8 * k + j < n && bits[8 * k + j] {
                byte += 1 << j;
            }
        }
        out.push(byte as u8);
        k += 1;
    }
    out
}

pub fn words_be(ws: &[u16]) -> Vec<u8> {
    ws.iter().flat_map(|x| w(*x)).collect()
}

/// Modbus Application Protocol v1.1b3 §6: request PDUs
pub fn req_bytes(m: &ReqM) -> Vec<u8> {
    let mut o = vec![];
    match m {
        ReqM::Simple(fc, a, q) => {
            o.push(*fc);
            o.extend(w(*a));
            o.extend(w(*q));
        }
        ReqM::Wsc(a, s) => {
            o.push(0x05);
            o.extend(w(*a));
            o.extend(if *s { [0xFF, 0x00] } else { [0x00, 0x00] });
        }
        ReqM::Wmc(a, bits) => {
            let p = pack_bits(bits);
            o.push(0x0F);
            o.extend(w(*a));
            o.extend(w(bits.len() as u16));
            o.push(p.len() as u8);
            o.extend(p);
        }
        ReqM::Wmr(a, ws) => {
            o.push(0x10);
            o.extend(w(*a));
            o.extend(w(ws.len() as u16));
            o.push((2 * ws.len()) as u8);
            o.extend(words_be(ws));
        }
        ReqM::Rwm(ra, rq, wa, ws) => {
            o.push(0x17);
            o.extend(w(*ra));
            o.extend(w(*rq));
            o.extend(w(*wa));
            o.extend(w(ws.len() as u16));
            o.push((2 * ws.len()) as u8);
            o.extend(words_be(ws));
        }
        ReqM::Custom(c, d) => {
            o.push(*c);
            o.extend(d);
        }
    }
    o
}

/// does the byte-count field of this request fit its one-byte slot
pub fn req_fits(m: &ReqM) -> bool {
    match m {
        ReqM::Wmc(_, b) => !b.is_empty() && (b.len() + 7) / 8 <= 255 && b.len() <= 65535,
        ReqM::Wmr(_, ws) | ReqM::Rwm(_, _, _, ws) => !ws.is_empty() && ws.len() * 2 <= 255,
        _ => true,
    }
}

/// does the byte count fit its one-byte field (an empty payload has count 0, which fits)
pub fn req_count_fits(m: &ReqM) -> bool {
    match m {
        ReqM::Wmc(_, b) => (b.len() + 7) / 8 <= 255 && b.len() <= 65535,
        ReqM::Wmr(_, ws) | ReqM::Rwm(_, _, _, ws) => ws.len() * 2 <= 255,
        _ => true,
    }
}

/// response PDUs; `Wsc` is the spec's five-byte echo whose value field the crate cannot express
pub fn rsp_bytes(m: &RspM) -> Vec<u8> {
    let mut o = vec![];
    match m {
        RspM::Coils(fc, bits) => {
            let p = pack_bits(bits);
            o.push(*fc);
            o.push(p.len() as u8);
            o.extend(p);
        }
        RspM::Wsc(a) => {
            o.push(0x05);
            o.extend(w(*a));
            o.extend([0xFF, 0x00]);
        }
        RspM::Pair(fc, a, q) => {
            o.push(*fc);
            o.extend(w(*a));
            o.extend(w(*q));
        }
        RspM::Regs(fc, ws) => {
            o.push(*fc);
            o.push((2 * ws.len()) as u8);
            o.extend(words_be(ws));
        }
        RspM::Custom(c, d) => {
            o.push(*c);
            o.extend(d);
        }
        RspM::Res(x) => {
            o.push(0x07);
            o.push(*x);
        }
        RspM::Exc(f, k) => {
            o.push(f + 0x80);
            o.push(*k);
        }
    }
    o
}

pub fn rsp_fits(m: &RspM) -> bool {
    match m {
        RspM::Coils(_, b) => !b.is_empty() && (b.len() + 7) / 8 <= 255,
        RspM::Regs(_, ws) => !ws.is_empty() && ws.len() * 2 <= 255,
        _ => true,
    }
}

/// does the byte count fit its one-byte field (an empty payload has count 0, which fits)
pub fn rsp_count_fits(m: &RspM) -> bool {
    match m {
        RspM::Coils(_, b) => (b.len() + 7) / 8 <= 255,
        RspM::Regs(_, ws) => ws.len() * 2 <= 255,
        _ => true,
    }
}

fn reflect(mut v: u32, bits: u32) -> u32 {
    let mut r = 0;
    for _ in 0..bits {
        r = (r << 1) | (v & 1);
        v >>= 1;
    }
    r
}

/// CRC-16/MODBUS from its catalogue parameters (width 16, poly 0x8005, init 0xFFFF, refin, refout,
/// xorout 0), computed with a left-shifting register — a different algorithm from the crate's
pub fn crc_modbus(data: &[u8]) -> u16 {
    let mut reg: u32 = 0xFFFF;
    for b in data {
        let x = reflect(*b as u32, 8);
        reg ^= x << 8;
        for _ in 0..8 {
            reg = if reg & 0x8000 != 0 { ((reg << 1) ^ 0x8005) & 0xFFFF } else { (reg << 1) & 0xFFFF };
        }
    }
    reflect(reg, 16) as u16
}

/// the two CRC bytes in wire order (low-order byte first)
pub fn crc_wire(data: &[u8]) -> [u8; 2] {
    let c = crc_modbus(data);
    [(c & 0xFF) as u8, (c >> 8) as u8]
}

#[derive(Clone, Copy, PartialEq, Debug)]
pub enum Dir {
    Req,
    Rsp,
}

/// PDU length by function code and direction, from the spec's layouts:
/// Ok(Some(n)) known, Ok(None) count byte not yet present, Err unknown function
pub fn pdu_len_rule(dir: Dir, pdu: &[u8]) -> Result<Option<usize>, ()> {
    if pdu.is_empty() {
        return Ok(None);
    }
    let fc = pdu[0];
    let at = |i: usize| pdu.get(i).map(|x| *x as usize);
    match dir {
        Dir::Req => match fc {
            1..=6 => Ok(Some(5)),
            0x07 | 0x0B | 0x0C | 0x11 => Ok(Some(1)),
            0x0F | 0x10 => Ok(at(5).map(|c| 6 + c)),
            0x16 => Ok(Some(7)),
            0x17 => Ok(at(9).map(|c| 10 + c)),
            0x18 => Ok(Some(3)),
            _ => Err(()),
        },
        Dir::Rsp => match fc {
            1..=4 | 0x0C | 0x17 => Ok(at(1).map(|c| 2 + c)),
            5 | 6 | 0x0B | 0x0F | 0x10 => Ok(Some(5)),
            7 => Ok(Some(2)),
            0x16 => Ok(Some(7)),
            0x18 => Ok(match (at(1), at(2)) {
                (Some(h), Some(l)) => Some(3 + h * 256 + l),
                _ => None,
            }),
            0x81..=0xAB => Ok(Some(2)),
            _ => Err(()),
        },
    }
}

/// the predictor the spec implies for an ADU buffer whose PDU starts at `hdr`
pub fn predict(hdr: usize, dir: Dir, buf: &[u8]) -> Result<Option<usize>, ()> {
    if buf.len() < hdr + 1 {
        return Ok(None);
    }
    pdu_len_rule(dir, &buf[hdr..])
}

pub fn rtu_frame(slave: u8, pdu: &[u8]) -> Vec<u8> {
    let mut f = vec![slave];
    f.extend_from_slice(pdu);
    let c = crc_wire(&f);
    f.extend(c);
    f
}

pub fn tcp_frame(tid: u16, uid: u8, pdu: &[u8]) -> Vec<u8> {
    let mut f = vec![];
    f.extend(w(tid));
    f.extend([0, 0]);
    f.extend(w((pdu.len() + 1) as u16));
    f.push(uid);
    f.extend_from_slice(pdu);
    f
}

#[derive(PartialEq, Debug, Clone, Copy)]
pub enum At {
    /// a complete well-formed frame of this total size starts here
    Frame(usize),
    /// more bytes could still make a frame start here
    Incomplete,
    /// no frame can start here
    Rejected,
}

/// what the specification says about a frame starting at the front of `buf`
pub fn frame_at(tr: &str, dir: Dir, buf: &[u8]) -> At {
    if tr == "rtu" {
        match predict(1, dir, buf) {
            Err(()) => At::Rejected,
            Ok(None) => At::Incomplete,
            Ok(Some(n)) => {
                if buf.len() < n + 3 {
                    At::Incomplete
                } else if crc_wire(&buf[..n + 1]) == [buf[n + 1], buf[n + 2]] {
                    At::Frame(n + 3)
                } else {
                    At::Rejected
                }
            }
        }
    } else {
        // the MBAP header is refutable as soon as its bytes are there: no further byte can make a frame start
        // here once the protocol identifier is seen to be non-zero or the length field contradicts the PDU length
        if buf.len() >= 4 && (buf[2] != 0 || buf[3] != 0) {
            return At::Rejected;
        }
        // KNOWN RESIDUE (DESIGN.md section 5, C14 readings): while the PDU length is not yet determined the
        // length field is not judged, although some values (0, 1) can belong to no frame; in this corner the
        // reference follows the crate, which compares the field only against a predicted length
        match predict(7, dir, buf) {
            Err(()) => At::Rejected,
            Ok(None) => At::Incomplete,
            Ok(Some(n)) => {
                if buf.len() >= 6 && (buf[4] as usize) * 256 + buf[5] as usize != n + 1 {
                    At::Rejected
                } else if buf.len() < n + 7 {
                    At::Incomplete
                } else {
                    At::Frame(n + 7)
                }
            }
        }
    }
}

/// is `f` exactly one well-formed frame
pub fn well_formed(tr: &str, dir: Dir, f: &[u8]) -> bool {
    frame_at(tr, dir, f) == At::Frame(f.len())
}

//! value specifications (constructor arguments) and canonical printing through the public API
use crate::util::*;
use modbus_core::*;

#[derive(Clone, Debug)]
pub enum ReqSpec {
    Simple(&'static str, u16, u16), // RC RDI RIR RHR WSR
    Wsc(u16, bool),
    Wmc(u16, Vec<bool>, usize, String),
    Wmr(u16, Vec<u16>, usize, String),
    Rwm(u16, u16, u16, Vec<u16>, usize, String),
    Res,
    Dia(u16, Vec<u16>, usize, String),
    Gcc,
    Gcl,
    Rsi,
    Cus(FunctionCode, u8, Vec<u8>),
    Dec(Vec<u8>),
    /// WriteMultipleRegisters / ReadWriteMultipleRegisters around a `Data` taken from a DECODED response
    WmrX(u16, Vec<u8>),
    RwmX(u16, u16, u16, Vec<u8>),
    /// write requests around a container taken from ANY decoded PDU (see `Src`)
    WmcS(u16, Src),
    WmrS(u16, Src),
    RwmS(u16, u16, u16, Src),
}

/// a container taken from a decoded PDU: `P<hex>` = response bytes, `Q<hex>` = request bytes
/// (the containers are `Copy` and the enum variants public, so any of them can be placed in any variant)
#[derive(Clone, Debug)]
pub struct Src(pub char, pub Vec<u8>);

pub fn parse_src(s: &str) -> Option<Src> {
    let c = s.chars().next()?;
    if c != 'P' && c != 'Q' {
        return None;
    }
    Some(Src(c, parse_hex(s.get(1..)?)?))
}

pub fn src_coils(s: &Src) -> Option<Coils<'_>> {
    if s.0 == 'P' {
        match Response::try_from(&s.1[..]) {
            Ok(Response::ReadCoils(c)) | Ok(Response::ReadDiscreteInputs(c)) => Some(c),
            _ => None,
        }
    } else {
        match Request::try_from(&s.1[..]) {
            Ok(Request::WriteMultipleCoils(_, c)) => Some(c),
            _ => None,
        }
    }
}

pub fn src_data(s: &Src) -> Option<Data<'_>> {
    if s.0 == 'P' {
        match Response::try_from(&s.1[..]) {
            Ok(Response::ReadHoldingRegisters(d)) | Ok(Response::ReadInputRegisters(d)) | Ok(Response::ReadWriteMultipleRegisters(d)) => Some(d),
            _ => None,
        }
    } else {
        match Request::try_from(&s.1[..]) {
            Ok(Request::WriteMultipleRegisters(_, d)) | Ok(Request::ReadWriteMultipleRegisters(_, _, _, d)) => Some(d),
            _ => None,
        }
    }
}

#[derive(Clone, Debug)]
pub enum RspSpec {
    Coils(&'static str, Vec<bool>, usize, String), // RC RDI
    Wsc(u16),
    Pair(&'static str, u16, u16),                  // WMC WSR WMR
    Regs(&'static str, Vec<u16>, usize, String),   // RIR RHR RWM DIA
    Res(u8),
    Gcc(u16, u16),
    Gcl(u16, u16, u16, Vec<u8>),
    Rsi(Vec<u8>, bool),
    Cus(FunctionCode, u8, Vec<u8>),
    Dec(Vec<u8>),
    /// read responses around a container taken from any decoded PDU
    CoilsS(&'static str, Src), // RC RDI
    RegsS(&'static str, Src),  // RIR RHR RWM
}

#[derive(Clone, Debug)]
pub enum PduSpec {
    Rsp(RspSpec),
    Exc(FunctionCode, u8, usize),
}

pub fn fc_spec2(s: &str) -> Option<(FunctionCode, u8)> {
    let b = parse_hex(s.get(1..)?)?;
    if b.len() != 1 {
        return None;
    }
    match s.as_bytes()[0] {
        b'N' => Some((FunctionCode::new(b[0]), b[0])),
        b'C' => Some((FunctionCode::Custom(b[0]), b[0])),
        _ => None,
    }
}

pub fn fc_spec(s: &str) -> Option<FunctionCode> {
    fc_spec2(s).map(|x| x.0)
}

pub fn fc_spec_str(new: bool, b: u8) -> String {
    format!("{}{:02X}", if new { 'N' } else { 'C' }, b)
}

pub fn exc_of_idx(i: usize) -> Option<Exception> {
    use Exception::*;
    Some(match i {
        0 => IllegalFunction,
        1 => IllegalDataAddress,
        2 => IllegalDataValue,
        3 => ServerDeviceFailure,
        4 => Acknowledge,
        5 => ServerDeviceBusy,
        6 => MemoryParityError,
        7 => GatewayPathUnavailable,
        8 => GatewayTargetDevice,
        _ => return None,
    })
}

pub fn exc_idx(e: Exception) -> usize {
    use Exception::*;
    match e {
        IllegalFunction => 0,
        IllegalDataAddress => 1,
        IllegalDataValue => 2,
        ServerDeviceFailure => 3,
        Acknowledge => 4,
        ServerDeviceBusy => 5,
        MemoryParityError => 6,
        GatewayPathUnavailable => 7,
        GatewayTargetDevice => 8,
    }
}

fn simple_name(s: &str) -> Option<&'static str> {
    Some(match s {
        "RC" => "RC",
        "RDI" => "RDI",
        "RIR" => "RIR",
        "RHR" => "RHR",
        "WSR" => "WSR",
        "WMC" => "WMC",
        "WMR" => "WMR",
        "RWM" => "RWM",
        "DIA" => "DIA",
        _ => return None,
    })
}

/// parse a request spec from the front of `t`; returns the spec and the remaining tokens
pub fn parse_req<'a>(t: &'a [&'a str]) -> Option<(ReqSpec, &'a [&'a str])> {
    let k = *t.first()?;
    let u = |i: usize| -> Option<u16> { t.get(i)?.parse::<u16>().ok() };
    Some(match k {
        "RC" | "RDI" | "RIR" | "RHR" | "WSR" => (ReqSpec::Simple(simple_name(k)?, u(1)?, u(2)?), t.get(3..)?),
        "WSC" => (ReqSpec::Wsc(u(1)?, *t.get(2)? == "1"), t.get(3..)?),
        "WMC" => (
            ReqSpec::Wmc(u(1)?, parse_bits(t.get(2)?)?, t.get(3)?.parse().ok()?, t.get(4)?.to_string()),
            t.get(5..)?,
        ),
        "WMR" => (
            ReqSpec::Wmr(u(1)?, parse_words(t.get(2)?)?, t.get(3)?.parse().ok()?, t.get(4)?.to_string()),
            t.get(5..)?,
        ),
        "RWM" => (
            ReqSpec::Rwm(u(1)?, u(2)?, u(3)?, parse_words(t.get(4)?)?, t.get(5)?.parse().ok()?, t.get(6)?.to_string()),
            t.get(7..)?,
        ),
        "RES" => (ReqSpec::Res, t.get(1..)?),
        "DIA" => (
            ReqSpec::Dia(u(1)?, parse_words(t.get(2)?)?, t.get(3)?.parse().ok()?, t.get(4)?.to_string()),
            t.get(5..)?,
        ),
        "GCC" => (ReqSpec::Gcc, t.get(1..)?),
        "GCL" => (ReqSpec::Gcl, t.get(1..)?),
        "RSI" => (ReqSpec::Rsi, t.get(1..)?),
        "CUS" => {
            let (fc, b) = fc_spec2(t.get(1)?)?;
            (ReqSpec::Cus(fc, b, parse_hex(t.get(2)?)?), t.get(3..)?)
        }
        "DEC" => (ReqSpec::Dec(parse_hex(t.get(1)?)?), t.get(2..)?),
        "WMRX" => (ReqSpec::WmrX(u(1)?, parse_hex(t.get(2)?)?), t.get(3..)?),
        "RWMX" => (ReqSpec::RwmX(u(1)?, u(2)?, u(3)?, parse_hex(t.get(4)?)?), t.get(5..)?),
        "WMCS" => (ReqSpec::WmcS(u(1)?, parse_src(t.get(2)?)?), t.get(3..)?),
        "WMRS" => (ReqSpec::WmrS(u(1)?, parse_src(t.get(2)?)?), t.get(3..)?),
        "RWMS" => (ReqSpec::RwmS(u(1)?, u(2)?, u(3)?, parse_src(t.get(4)?)?), t.get(5..)?),
        _ => return None,
    })
}

pub fn parse_rsp<'a>(t: &'a [&'a str]) -> Option<(RspSpec, &'a [&'a str])> {
    let k = *t.first()?;
    let u = |i: usize| -> Option<u16> { t.get(i)?.parse::<u16>().ok() };
    Some(match k {
        "RC" | "RDI" => (
            RspSpec::Coils(simple_name(k)?, parse_bits(t.get(1)?)?, t.get(2)?.parse().ok()?, t.get(3)?.to_string()),
            t.get(4..)?,
        ),
        "WSC" => (RspSpec::Wsc(u(1)?), t.get(2..)?),
        "WMC" | "WSR" | "WMR" => (RspSpec::Pair(simple_name(k)?, u(1)?, u(2)?), t.get(3..)?),
        "RIR" | "RHR" | "RWM" | "DIA" => (
            RspSpec::Regs(simple_name(k)?, parse_words(t.get(1)?)?, t.get(2)?.parse().ok()?, t.get(3)?.to_string()),
            t.get(4..)?,
        ),
        "RES" => (RspSpec::Res(t.get(1)?.parse().ok()?), t.get(2..)?),
        "GCC" => (RspSpec::Gcc(u(1)?, u(2)?), t.get(3..)?),
        "GCL" => (RspSpec::Gcl(u(1)?, u(2)?, u(3)?, parse_hex(t.get(4)?)?), t.get(5..)?),
        "RSI" => (RspSpec::Rsi(parse_hex(t.get(1)?)?, *t.get(2)? == "1"), t.get(3..)?),
        "CUS" => {
            let (fc, b) = fc_spec2(t.get(1)?)?;
            (RspSpec::Cus(fc, b, parse_hex(t.get(2)?)?), t.get(3..)?)
        }
        "DEC" => (RspSpec::Dec(parse_hex(t.get(1)?)?), t.get(2..)?),
        "RCS" => (RspSpec::CoilsS("RC", parse_src(t.get(1)?)?), t.get(2..)?),
        "RDIS" => (RspSpec::CoilsS("RDI", parse_src(t.get(1)?)?), t.get(2..)?),
        "RIRS" => (RspSpec::RegsS("RIR", parse_src(t.get(1)?)?), t.get(2..)?),
        "RHRS" => (RspSpec::RegsS("RHR", parse_src(t.get(1)?)?), t.get(2..)?),
        "RWMS" => (RspSpec::RegsS("RWM", parse_src(t.get(1)?)?), t.get(2..)?),
        _ => return None,
    })
}

pub fn parse_pdu<'a>(t: &'a [&'a str]) -> Option<(PduSpec, &'a [&'a str])> {
    if *t.first()? == "EXC" {
        let (fc, b) = fc_spec2(t.get(1)?)?;
        let k: usize = t.get(2)?.parse().ok()?;
        exc_of_idx(k)?;
        Some((PduSpec::Exc(fc, b, k), t.get(3..)?))
    } else {
        let (r, rest) = parse_rsp(t)?;
        Some((PduSpec::Rsp(r), rest))
    }
}

/// build the crate value described by `spec` (through the public constructors) and hand it to `k`;
/// `None` = a constructor refused the arguments
pub fn with_req<R>(spec: &ReqSpec, k: impl for<'a> FnOnce(Option<Request<'a>>) -> R) -> R {
    match spec {
        ReqSpec::Simple(n, a, q) => k(Some(match *n {
            "RC" => Request::ReadCoils(*a, *q),
            "RDI" => Request::ReadDiscreteInputs(*a, *q),
            "RIR" => Request::ReadInputRegisters(*a, *q),
            "RHR" => Request::ReadHoldingRegisters(*a, *q),
            _ => Request::WriteSingleRegister(*a, *q),
        })),
        ReqSpec::Wsc(a, c) => k(Some(Request::WriteSingleCoil(*a, *c))),
        ReqSpec::Wmc(a, bits, t, f) => {
            let mut tgt = mk_fill(f, *t).expect("fill");
            match Coils::from_bools(bits, &mut tgt) {
                Ok(c) => k(Some(Request::WriteMultipleCoils(*a, c))),
                Err(_) => k(None),
            }
        }
        ReqSpec::Wmr(a, ws, t, f) => {
            let mut tgt = mk_fill(f, *t).expect("fill");
            match Data::from_words(ws, &mut tgt) {
                Ok(d) => k(Some(Request::WriteMultipleRegisters(*a, d))),
                Err(_) => k(None),
            }
        }
        ReqSpec::Rwm(ra, rq, wa, ws, t, f) => {
            let mut tgt = mk_fill(f, *t).expect("fill");
            match Data::from_words(ws, &mut tgt) {
                Ok(d) => k(Some(Request::ReadWriteMultipleRegisters(*ra, *rq, *wa, d))),
                Err(_) => k(None),
            }
        }
        ReqSpec::Res => k(Some(Request::ReadExceptionStatus)),
        ReqSpec::Dia(s, ws, t, f) => {
            let mut tgt = mk_fill(f, *t).expect("fill");
            match Data::from_words(ws, &mut tgt) {
                Ok(d) => k(Some(Request::Diagnostics(*s, d))),
                Err(_) => k(None),
            }
        }
        ReqSpec::Gcc => k(Some(Request::GetCommEventCounter)),
        ReqSpec::Gcl => k(Some(Request::GetCommEventLog)),
        ReqSpec::Rsi => k(Some(Request::ReportServerId)),
        ReqSpec::Cus(fc, _, d) => k(Some(Request::Custom(*fc, d))),
        ReqSpec::Dec(b) => match Request::try_from(&b[..]) {
            Ok(v) => k(Some(v)),
            Err(_) => k(None),
        },
        ReqSpec::WmrX(a, b) => match Response::try_from(&b[..]) {
            Ok(Response::ReadHoldingRegisters(d)) | Ok(Response::ReadInputRegisters(d)) | Ok(Response::ReadWriteMultipleRegisters(d)) => {
                k(Some(Request::WriteMultipleRegisters(*a, d)))
            }
            _ => k(None),
        },
        ReqSpec::RwmX(ra, rq, wa, b) => match Response::try_from(&b[..]) {
            Ok(Response::ReadHoldingRegisters(d)) | Ok(Response::ReadInputRegisters(d)) | Ok(Response::ReadWriteMultipleRegisters(d)) => {
                k(Some(Request::ReadWriteMultipleRegisters(*ra, *rq, *wa, d)))
            }
            _ => k(None),
        },
        ReqSpec::WmcS(a, s) => k(src_coils(s).map(|c| Request::WriteMultipleCoils(*a, c))),
        ReqSpec::WmrS(a, s) => k(src_data(s).map(|d| Request::WriteMultipleRegisters(*a, d))),
        ReqSpec::RwmS(ra, rq, wa, s) => k(src_data(s).map(|d| Request::ReadWriteMultipleRegisters(*ra, *rq, *wa, d))),
    }
}

pub fn with_rsp<R>(spec: &RspSpec, k: impl for<'a> FnOnce(Option<Response<'a>>) -> R) -> R {
    match spec {
        RspSpec::Coils(n, bits, t, f) => {
            let mut tgt = mk_fill(f, *t).expect("fill");
            match Coils::from_bools(bits, &mut tgt) {
                Ok(c) => k(Some(if *n == "RC" { Response::ReadCoils(c) } else { Response::ReadDiscreteInputs(c) })),
                Err(_) => k(None),
            }
        }
        RspSpec::Wsc(a) => k(Some(Response::WriteSingleCoil(*a))),
        RspSpec::Pair(n, a, q) => k(Some(match *n {
            "WMC" => Response::WriteMultipleCoils(*a, *q),
            "WSR" => Response::WriteSingleRegister(*a, *q),
            _ => Response::WriteMultipleRegisters(*a, *q),
        })),
        RspSpec::Regs(n, ws, t, f) => {
            let mut tgt = mk_fill(f, *t).expect("fill");
            match Data::from_words(ws, &mut tgt) {
                Ok(d) => k(Some(match *n {
                    "RIR" => Response::ReadInputRegisters(d),
                    "RHR" => Response::ReadHoldingRegisters(d),
                    "RWM" => Response::ReadWriteMultipleRegisters(d),
                    _ => Response::Diagnostics(d),
                })),
                Err(_) => k(None),
            }
        }
        RspSpec::Res(b) => k(Some(Response::ReadExceptionStatus(*b))),
        RspSpec::Gcc(s, e) => k(Some(Response::GetCommEventCounter(*s, *e))),
        RspSpec::Gcl(s, e, m, ev) => k(Some(Response::GetCommEventLog(*s, *e, *m, ev))),
        RspSpec::Rsi(i, r) => k(Some(Response::ReportServerId(i, *r))),
        RspSpec::Cus(fc, _, d) => k(Some(Response::Custom(*fc, d))),
        RspSpec::Dec(b) => match Response::try_from(&b[..]) {
            Ok(v) => k(Some(v)),
            Err(_) => k(None),
        },
        RspSpec::CoilsS(n, s) => k(src_coils(s).map(|c| if *n == "RC" { Response::ReadCoils(c) } else { Response::ReadDiscreteInputs(c) })),
        RspSpec::RegsS(n, s) => k(src_data(s).map(|d| match *n {
            "RIR" => Response::ReadInputRegisters(d),
            "RHR" => Response::ReadHoldingRegisters(d),
            _ => Response::ReadWriteMultipleRegisters(d),
        })),
    }
}

pub fn with_pdu<R>(spec: &PduSpec, k: impl for<'a> FnOnce(Option<ResponsePdu<'a>>) -> R) -> R {
    match spec {
        PduSpec::Rsp(r) => with_rsp(r, |v| k(v.map(|x| ResponsePdu(Ok(x))))),
        PduSpec::Exc(fc, _, i) => k(Some(ResponsePdu(Err(ExceptionResponse {
            function: *fc,
            exception: exc_of_idx(*i).unwrap(),
        })))),
    }
}

/* ---------- canonical printing: only what the public API lets a user observe ---------- */

pub fn fc_name(fc: FunctionCode) -> String {
    use FunctionCode::*;
    match fc {
        ReadCoils => "RC".into(),
        ReadDiscreteInputs => "RDI".into(),
        WriteSingleCoil => "WSC".into(),
        WriteSingleRegister => "WSR".into(),
        ReadHoldingRegisters => "RHR".into(),
        ReadInputRegisters => "RIR".into(),
        WriteMultipleCoils => "WMC".into(),
        WriteMultipleRegisters => "WMR".into(),
        MaskWriteRegister => "MWR".into(),
        ReadWriteMultipleRegisters => "RWM".into(),
        ReadExceptionStatus => "RES".into(),
        Diagnostics => "DIA".into(),
        GetCommEventCounter => "GCC".into(),
        GetCommEventLog => "GCL".into(),
        ReportServerId => "RSI".into(),
        Custom(c) => format!("X{:02X}", c),
    }
}

pub fn coil_char(c: &Coils, i: usize) -> char {
    match catch(|| c.get(i)) {
        Some(Some(true)) => '1',
        Some(Some(false)) => '0',
        Some(None) => '-',
        None => '!',
    }
}

pub fn word_str(d: &Data, i: usize) -> String {
    match catch(|| d.get(i)) {
        Some(Some(w)) => format!("{:04X}", w),
        Some(None) => "-".into(),
        None => "!".into(),
    }
}

pub fn coils_str(c: &Coils) -> String {
    let n = c.len();
    let mut s = format!("c{}:", n);
    for i in 0..n {
        s.push(coil_char(c, i));
    }
    s
}

pub fn data_str(d: &Data) -> String {
    let n = d.len();
    format!("d{}:{}", n, (0..n).map(|i| word_str(d, i)).collect::<Vec<_>>().join(","))
}

pub fn b01(b: bool) -> &'static str {
    if b {
        "1"
    } else {
        "0"
    }
}

pub fn req_str(r: &Request) -> String {
    match r {
        Request::ReadCoils(a, q) => format!("RC {a} {q}"),
        Request::ReadDiscreteInputs(a, q) => format!("RDI {a} {q}"),
        Request::WriteSingleCoil(a, c) => format!("WSC {a} {}", b01(*c)),
        Request::WriteMultipleCoils(a, c) => format!("WMC {a} {}", coils_str(c)),
        Request::ReadInputRegisters(a, q) => format!("RIR {a} {q}"),
        Request::ReadHoldingRegisters(a, q) => format!("RHR {a} {q}"),
        Request::WriteSingleRegister(a, w) => format!("WSR {a} {w}"),
        Request::WriteMultipleRegisters(a, d) => format!("WMR {a} {}", data_str(d)),
        Request::ReadWriteMultipleRegisters(ra, rq, wa, d) => format!("RWM {ra} {rq} {wa} {}", data_str(d)),
        Request::ReadExceptionStatus => "RES".into(),
        Request::Diagnostics(s, d) => format!("DIA {s} {}", data_str(d)),
        Request::GetCommEventCounter => "GCC".into(),
        Request::GetCommEventLog => "GCL".into(),
        Request::ReportServerId => "RSI".into(),
        Request::Custom(fc, d) => format!("CUS {} {}", fc_name(*fc), hex_of(d)),
    }
}

pub fn rsp_str(r: &Response) -> String {
    match r {
        Response::ReadCoils(c) => format!("RC {}", coils_str(c)),
        Response::ReadDiscreteInputs(c) => format!("RDI {}", coils_str(c)),
        Response::WriteSingleCoil(a) => format!("WSC {a}"),
        Response::WriteMultipleCoils(a, q) => format!("WMC {a} {q}"),
        Response::ReadInputRegisters(d) => format!("RIR {}", data_str(d)),
        Response::ReadHoldingRegisters(d) => format!("RHR {}", data_str(d)),
        Response::WriteSingleRegister(a, w) => format!("WSR {a} {w}"),
        Response::WriteMultipleRegisters(a, q) => format!("WMR {a} {q}"),
        Response::ReadWriteMultipleRegisters(d) => format!("RWM {}", data_str(d)),
        Response::ReadExceptionStatus(s) => format!("RES {s}"),
        Response::Diagnostics(d) => format!("DIA {}", data_str(d)),
        Response::GetCommEventCounter(s, e) => format!("GCC {s} {e}"),
        Response::GetCommEventLog(s, e, m, ev) => format!("GCL {s} {e} {m} {}", hex_of(ev)),
        Response::ReportServerId(i, r) => format!("RSI {} {}", hex_of(i), b01(*r)),
        Response::Custom(fc, d) => format!("CUS {} {}", fc_name(*fc), hex_of(d)),
    }
}

pub fn exc_str(e: &ExceptionResponse) -> String {
    format!("EXC {} {}", fc_name(e.function), exc_idx(e.exception))
}

pub fn pdu_str(p: &ResponsePdu) -> String {
    match &p.0 {
        Ok(r) => rsp_str(r),
        Err(e) => exc_str(e),
    }
}

//! primitive operations of the line protocol, executed against the real crate
use crate::spec::*;
use crate::util::*;
use modbus_core::*;

/// errors are compared with their payloads: `ERR Crc(4660, 22136)`, `ERR ByteCount(5)`, `ERR BufferSize`
fn res_str<T, E: core::fmt::Debug>(r: Option<Result<T, E>>, f: impl FnOnce(&T) -> String) -> String {
    match r {
        Some(Ok(v)) => format!("OK {}", f(&v)),
        Some(Err(e)) => format!("ERR {e:?}"),
        None => "PANIC".into(),
    }
}

/// the raw bytes every `Coils` / `Data` inside `v` holds, read off the derived `Debug` output (the only public
/// window on them besides `==`): `Coils { data: [1, 2], quantity: 9 }` -> `0102`
pub fn raw_of<T: core::fmt::Debug>(v: &T) -> String {
    let d = format!("{v:?}");
    let mut out = vec![];
    let mut rest = &d[..];
    while let Some(i) = rest.find("data: [") {
        let body = &rest[i + 7..];
        let j = body.find(']').unwrap_or(body.len());
        let bytes: Vec<u8> = body[..j].split(',').filter_map(|x| x.trim().parse::<u8>().ok()).collect();
        out.push(if bytes.is_empty() { "-".to_string() } else { hex_of(&bytes) });
        rest = &body[j..];
    }
    if out.is_empty() { "none".into() } else { out.join("/") }
}

fn enc_str(r: Option<Result<usize, Error>>, buf: &[u8]) -> String {
    match r {
        Some(Ok(n)) => format!("OK {} {}", n, hex_of(buf)),
        Some(Err(e)) => format!("ERR {e:?}"),
        None => "PANIC".into(),
    }
}

fn with_buf(rest: &[&str], k: impl FnOnce(&mut [u8]) -> String) -> String {
    if rest.len() != 2 {
        return "BADOP".into();
    }
    let Ok(len) = rest[0].parse::<usize>() else { return "BADOP".into() };
    let Some(mut buf) = mk_fill(rest[1], len) else { return "BADOP".into() };
    k(&mut buf)
}

pub const USIZE_MAX: usize = usize::MAX;

fn extra_idx(len: usize) -> Vec<usize> {
    vec![len, len.wrapping_add(1), 255, 256, 65535, 65536, USIZE_MAX]
}

fn coils_use(c: &Coils) -> String {
    let gx: String = extra_idx(c.len()).into_iter().map(|i| coil_char(c, i)).collect();
    let it = match catch(|| c.into_iter().take(c.len() + 2).count()) {
        Some(n) => n.to_string(),
        None => "!".into(),
    };
    format!("{gx} it={it}")
}

fn data_use(d: &Data) -> String {
    let gx = extra_idx(d.len()).into_iter().map(|i| word_str(d, i)).collect::<Vec<_>>().join(",");
    let it = match catch(|| d.into_iter().take(d.len() + 2).count()) {
        Some(n) => n.to_string(),
        None => "!".into(),
    };
    format!("{gx} it={it}")
}

pub fn req_use(v: &Request) -> String {
    let gx = match v {
        Request::WriteMultipleCoils(_, c) => coils_use(c),
        Request::WriteMultipleRegisters(_, d)
        | Request::ReadWriteMultipleRegisters(_, _, _, d)
        | Request::Diagnostics(_, d) => data_use(d),
        _ => "- it=-".into(),
    };
    let pl = catch(|| v.pdu_len());
    let mut buf = vec![0xEEu8; pl.map(|n| n + 2).unwrap_or(302)];
    let e = catch(|| v.encode(&mut buf));
    let re = match e {
        Some(Ok(n)) => res_str(catch(|| Request::try_from(&buf[..n])), req_str),
        _ => "-".into(),
    };
    format!(
        "OK {} pl={} gx={} enc={} re={}",
        req_str(v),
        pl.map(|n| n.to_string()).unwrap_or("!".into()),
        gx,
        enc_str(e, &buf),
        re
    )
}

pub fn rsp_use(v: &Response) -> String {
    let gx = match v {
        Response::ReadCoils(c) | Response::ReadDiscreteInputs(c) => coils_use(c),
        Response::ReadInputRegisters(d)
        | Response::ReadHoldingRegisters(d)
        | Response::ReadWriteMultipleRegisters(d)
        | Response::Diagnostics(d) => data_use(d),
        _ => "- it=-".into(),
    };
    let pl = catch(|| v.pdu_len());
    let mut buf = vec![0xEEu8; pl.map(|n| n + 2).unwrap_or(302)];
    let e = catch(|| v.encode(&mut buf));
    let re = match e {
        Some(Ok(n)) => res_str(catch(|| Response::try_from(&buf[..n])), rsp_str),
        _ => "-".into(),
    };
    format!(
        "OK {} pl={} gx={} enc={} re={}",
        rsp_str(v),
        pl.map(|n| n.to_string()).unwrap_or("!".into()),
        gx,
        enc_str(e, &buf),
        re
    )
}

fn len_str(r: Option<Result<Option<usize>, Error>>) -> String {
    match r {
        Some(Ok(Some(n))) => format!("SOME {n}"),
        Some(Ok(None)) => "NONE".into(),
        Some(Err(e)) => format!("ERR {e:?}"),
        None => "PANIC".into(),
    }
}

pub fn rtu_frame_str(f: &rtu::DecodedFrame) -> String {
    format!("{} {}", f.slave, hex_of(f.pdu))
}
pub fn tcp_frame_str(f: &tcp::DecodedFrame) -> String {
    format!("{} {} {}", f.transaction_id, f.unit_id, hex_of(f.pdu))
}

fn opt_str<T>(r: Option<Result<Option<T>, Error>>, head: &str, f: impl FnOnce(&T) -> String) -> String {
    match r {
        Some(Ok(Some(v))) => format!("{head} {}", f(&v)),
        Some(Ok(None)) => "NONE".into(),
        Some(Err(e)) => format!("ERR {e:?}"),
        None => "PANIC".into(),
    }
}

pub fn dtype(d: &str) -> DecoderType {
    if d == "req" {
        DecoderType::Request
    } else {
        DecoderType::Response
    }
}

/// the caller-side receive loop of property C11 around the crate's scanner
pub fn recv_loop(tr: &str, d: &str, chunks: &[Vec<u8>]) -> (Vec<String>, Vec<u8>, bool) {
    let mut buf: Vec<u8> = vec![];
    let mut out: Vec<String> = vec![];
    let mut fault = false;
    for c in chunks {
        buf.extend_from_slice(c);
        loop {
            if buf.is_empty() {
                break;
            }
            let step: Option<Result<Option<(String, usize)>, Error>> = if tr == "rtu" {
                catch(|| rtu::decode(dtype(d), &buf).map(|o| o.map(|(f, l)| (rtu_frame_str(&f), l.start + l.size))))
            } else {
                catch(|| tcp::decode(dtype(d), &buf).map(|o| o.map(|(f, l)| (tcp_frame_str(&f), l.start + l.size))))
            };
            match step {
                Some(Ok(Some((s, n)))) => {
                    if n == 0 {
                        fault = true;
                        break;
                    }
                    out.push(s);
                    let n = n.min(buf.len());
                    buf.drain(..n);
                }
                Some(Ok(None)) => break,
                _ => {
                    fault = true;
                    break;
                }
            }
        }
    }
    (out, buf, fault)
}

pub fn run_line(line: &str) -> String {
    let toks: Vec<&str> = line.split_whitespace().collect();
    if toks.is_empty() || toks[0].starts_with('#') {
        return "SKIP".into();
    }
    match catch(|| step(&toks)) {
        Some(s) => s,
        None => "PANIC".into(),
    }
}

fn step(t: &[&str]) -> String {
    let bad = || "BADOP".to_string();
    match t[0] {
        "reqdec" if t.len() == 2 => {
            let Some(b) = parse_hex(t[1]) else { return bad() };
            res_str(catch(|| Request::try_from(&b[..])), |v| format!("{} raw={}", req_str(v), raw_of(v)))
        }
        "rspdec" if t.len() == 2 => {
            let Some(b) = parse_hex(t[1]) else { return bad() };
            res_str(catch(|| Response::try_from(&b[..])), |v| format!("{} raw={}", rsp_str(v), raw_of(v)))
        }
        "excdec" if t.len() == 2 => {
            let Some(b) = parse_hex(t[1]) else { return bad() };
            res_str(catch(|| ExceptionResponse::try_from(&b[..])), exc_str)
        }
        "requse" if t.len() == 2 => {
            let Some(b) = parse_hex(t[1]) else { return bad() };
            match catch(|| Request::try_from(&b[..])) {
                Some(Ok(v)) => req_use(&v),
                Some(Err(e)) => format!("ERR {e:?}"),
                None => "PANIC".into(),
            }
        }
        "rspuse" if t.len() == 2 => {
            let Some(b) = parse_hex(t[1]) else { return bad() };
            match catch(|| Response::try_from(&b[..])) {
                Some(Ok(v)) => rsp_use(&v),
                Some(Err(e)) => format!("ERR {e:?}"),
                None => "PANIC".into(),
            }
        }
        "reqenc" | "rpduenc" => {
            let Some((spec, rest)) = parse_req(&t[1..]) else { return bad() };
            let pdu = t[0] == "rpduenc";
            with_req(&spec, |v| match v {
                None => "SPECERR".into(),
                Some(v) => with_buf(rest, |buf| {
                    let r = if pdu { catch(|| RequestPdu(v).encode(buf)) } else { catch(|| v.encode(buf)) };
                    enc_str(r, buf)
                }),
            })
        }
        "rspenc" => {
            let Some((spec, rest)) = parse_rsp(&t[1..]) else { return bad() };
            with_rsp(&spec, |v| match v {
                None => "SPECERR".into(),
                Some(v) => with_buf(rest, |buf| {
                    let r = catch(|| v.encode(buf));
                    enc_str(r, buf)
                }),
            })
        }
        "excenc" => {
            let Some((PduSpec::Exc(fc, _, k), rest)) = parse_pdu(&t[1..]) else { return bad() };
            let e = ExceptionResponse { function: fc, exception: exc_of_idx(k).unwrap() };
            with_buf(rest, |buf| {
                let r = catch(|| e.encode(buf));
                enc_str(r, buf)
            })
        }
        // `<[u8; 2]>::from(ExceptionResponse)` called directly
        "excinto" => {
            let Some((PduSpec::Exc(fc, _, k), _)) = parse_pdu(&t[1..]) else { return bad() };
            let e = ExceptionResponse { function: fc, exception: exc_of_idx(k).unwrap() };
            match catch(|| <[u8; 2]>::from(e)) {
                Some(b) => hex_of(&b),
                None => "PANIC".into(),
            }
        }
        // `pdu_len()` of a constructed value
        "reqlen" => {
            let Some((spec, _)) = parse_req(&t[1..]) else { return bad() };
            with_req(&spec, |v| match v {
                None => "SPECERR".into(),
                Some(v) => catch(|| v.pdu_len()).map(|n| n.to_string()).unwrap_or("PANIC".into()),
            })
        }
        "rsplen" => {
            let Some((spec, _)) = parse_rsp(&t[1..]) else { return bad() };
            with_rsp(&spec, |v| match v {
                None => "SPECERR".into(),
                Some(v) => catch(|| v.pdu_len()).map(|n| n.to_string()).unwrap_or("PANIC".into()),
            })
        }
        "pduenc" => {
            let Some((spec, rest)) = parse_pdu(&t[1..]) else { return bad() };
            with_pdu(&spec, |v| match v {
                None => "SPECERR".into(),
                Some(v) => with_buf(rest, |buf| {
                    let r = catch(|| v.encode(buf));
                    enc_str(r, buf)
                }),
            })
        }
        "rtulen" | "tcplen" if t.len() == 3 => {
            let Some(b) = parse_hex(t[2]) else { return bad() };
            let r = match (t[0], t[1]) {
                ("rtulen", "req") => catch(|| rtu::request_pdu_len(&b)),
                ("rtulen", _) => catch(|| rtu::response_pdu_len(&b)),
                ("tcplen", "req") => catch(|| tcp::request_pdu_len(&b)),
                _ => catch(|| tcp::response_pdu_len(&b)),
            };
            len_str(r)
        }
        "rtuext" if t.len() == 3 => {
            let (Ok(n), Some(b)) = (t[1].parse::<usize>(), parse_hex(t[2])) else { return bad() };
            opt_str(catch(|| rtu::extract_frame(&b, n)), "FRAME", rtu_frame_str)
        }
        "tcpext" if t.len() == 3 => {
            let (Ok(n), Some(b)) = (t[1].parse::<usize>(), parse_hex(t[2])) else { return bad() };
            opt_str(catch(|| tcp::extract_frame(&b, n)), "FRAME", tcp_frame_str)
        }
        "rtuscan" if t.len() == 3 => {
            let Some(b) = parse_hex(t[2]) else { return bad() };
            opt_str(catch(|| rtu::decode(dtype(t[1]), &b)), "FRAME", |(f, l)| {
                format!("{} {} {}", rtu_frame_str(f), l.start, l.size)
            })
        }
        "tcpscan" if t.len() == 3 => {
            let Some(b) = parse_hex(t[2]) else { return bad() };
            opt_str(catch(|| tcp::decode(dtype(t[1]), &b)), "FRAME", |(f, l)| {
                format!("{} {} {}", tcp_frame_str(f), l.start, l.size)
            })
        }
        "rtudec" if t.len() == 3 => {
            let Some(b) = parse_hex(t[2]) else { return bad() };
            if t[1] == "req" {
                opt_str(catch(|| rtu::server::decode_request(&b)), "OK", |a| {
                    format!("{} {}", a.hdr.slave, req_str(&a.pdu.0))
                })
            } else {
                opt_str(catch(|| rtu::client::decode_response(&b)), "OK", |a| {
                    format!("{} {}", a.hdr.slave, pdu_str(&a.pdu))
                })
            }
        }
        "tcpdec" if t.len() == 3 => {
            let Some(b) = parse_hex(t[2]) else { return bad() };
            if t[1] == "req" {
                opt_str(catch(|| tcp::server::decode_request(&b)), "OK", |a| {
                    format!("{} {} {}", a.hdr.transaction_id, a.hdr.unit_id, req_str(&a.pdu.0))
                })
            } else {
                opt_str(catch(|| tcp::server::decode_response(&b)), "OK", |a| {
                    format!("{} {} {}", a.hdr.transaction_id, a.hdr.unit_id, pdu_str(&a.pdu))
                })
            }
        }
        "rtuenc" if t.len() > 3 => {
            let Ok(slave) = t[2].parse::<u8>() else { return bad() };
            let hdr = rtu::Header { slave };
            if t[1] == "req" {
                let Some((spec, rest)) = parse_req(&t[3..]) else { return bad() };
                with_req(&spec, |v| match v {
                    None => "SPECERR".into(),
                    Some(v) => with_buf(rest, |buf| {
                        let adu = rtu::RequestAdu { hdr, pdu: RequestPdu(v) };
                        let r = catch(|| rtu::client::encode_request(adu, buf));
                        enc_str(r, buf)
                    }),
                })
            } else {
                let Some((spec, rest)) = parse_pdu(&t[3..]) else { return bad() };
                with_pdu(&spec, |v| match v {
                    None => "SPECERR".into(),
                    Some(v) => with_buf(rest, |buf| {
                        let adu = rtu::ResponseAdu { hdr, pdu: v };
                        let r = catch(|| rtu::server::encode_response(adu, buf));
                        enc_str(r, buf)
                    }),
                })
            }
        }
        "tcpenc" if t.len() > 4 => {
            let (Ok(tid), Ok(uid)) = (t[2].parse::<u16>(), t[3].parse::<u8>()) else { return bad() };
            let hdr = tcp::Header { transaction_id: tid, unit_id: uid };
            if t[1] == "req" {
                let Some((spec, rest)) = parse_req(&t[4..]) else { return bad() };
                with_req(&spec, |v| match v {
                    None => "SPECERR".into(),
                    Some(v) => with_buf(rest, |buf| {
                        let adu = tcp::RequestAdu { hdr, pdu: RequestPdu(v) };
                        let r = catch(|| tcp::server::encode_request(adu, buf));
                        enc_str(r, buf)
                    }),
                })
            } else {
                let Some((spec, rest)) = parse_pdu(&t[4..]) else { return bad() };
                with_pdu(&spec, |v| match v {
                    None => "SPECERR".into(),
                    Some(v) => with_buf(rest, |buf| {
                        let adu = tcp::ResponseAdu { hdr, pdu: v };
                        let r = catch(|| tcp::server::encode_response(adu, buf));
                        enc_str(r, buf)
                    }),
                })
            }
        }
        "crc" if t.len() == 2 => {
            let Some(b) = parse_hex(t[1]) else { return bad() };
            match catch(|| rtu::crc16(&b)) {
                Some(c) => format!("{:04X}", c),
                None => "PANIC".into(),
            }
        }
        "pack" if t.len() == 4 => {
            let (Some(bits), Ok(tl)) = (parse_bits(t[1]), t[2].parse::<usize>()) else { return bad() };
            let Some(mut tgt) = mk_fill(t[3], tl) else { return bad() };
            let r = catch(|| pack_coils(&bits, &mut tgt));
            enc_str(r, &tgt)
        }
        "unpack" if t.len() == 4 || t.len() == 5 => {
            let (Some(b), Ok(c), Ok(o)) = (parse_hex(t[1]), t[2].parse::<u16>(), t[3].parse::<usize>()) else {
                return bad();
            };
            // optional 5th token `T`: the destination previously held `true` everywhere
            let mut out = vec![t.len() == 5 && t[4] == "T"; o];
            match catch(|| unpack_coils(&b, c, &mut out)) {
                Some(Ok(())) => format!("OK {}", bits_str(&out)),
                Some(Err(e)) => format!("ERR {e:?}"),
                None => "PANIC".into(),
            }
        }
        "packedlen" if t.len() == 2 => {
            let Ok(n) = t[1].parse::<usize>() else { return bad() };
            match catch(|| packed_coils_len(n)) {
                Some(v) => v.to_string(),
                None => "PANIC".into(),
            }
        }
        "frombools" if t.len() == 5 => {
            let (Some(bits), Ok(tl), Some(idxs)) = (parse_bits(t[1]), t[2].parse::<usize>(), parse_idx_list(t[4])) else {
                return bad();
            };
            let Some(mut tgt) = mk_fill(t[3], tl) else { return bad() };
            match catch(|| Coils::from_bools(&bits, &mut tgt)) {
                Some(Ok(c)) => {
                    let gx: String = idxs.iter().map(|i| coil_char(&c, *i)).collect();
                    let it = match catch(|| c.into_iter().take(c.len() + 2).collect::<Vec<bool>>()) {
                        Some(l) => bits_str(&l),
                        None => "!".into(),
                    };
                    // iterator adaptors: nth(i) on a fresh iterator, and nth(i) after one item was consumed
                    let nx: String = idxs
                        .iter()
                        .map(|i| match catch(|| c.into_iter().nth(*i)) {
                            Some(Some(true)) => '1',
                            Some(Some(false)) => '0',
                            Some(None) => '-',
                            None => '!',
                        })
                        .collect();
                    let n1: String = idxs
                        .iter()
                        .map(|i| {
                            match catch(|| {
                                let mut it = c.into_iter();
                                it.next();
                                it.nth(*i)
                            }) {
                                Some(Some(true)) => '1',
                                Some(Some(false)) => '0',
                                Some(None) => '-',
                                None => '!',
                            }
                        })
                        .collect();
                    format!(
                        "OK {} {} {} {} gx={} it={} nx={} n1={} raw={}",
                        c.len(),
                        c.packed_len(),
                        b01(c.is_empty()),
                        coils_str(&c),
                        gx,
                        it,
                        nx,
                        n1,
                        raw_of(&c)
                    )
                }
                Some(Err(e)) => format!("ERR {e:?}"),
                None => "PANIC".into(),
            }
        }
        "fromwords" if t.len() == 5 => {
            let (Some(ws), Ok(tl), Some(idxs)) = (parse_words(t[1]), t[2].parse::<usize>(), parse_idx_list(t[4])) else {
                return bad();
            };
            let Some(mut tgt) = mk_fill(t[3], tl) else { return bad() };
            match catch(|| Data::from_words(&ws, &mut tgt)) {
                Some(Ok(d)) => {
                    let gx = idxs.iter().map(|i| word_str(&d, *i)).collect::<Vec<_>>().join(",");
                    let it = match catch(|| d.into_iter().take(d.len() + 2).collect::<Vec<u16>>()) {
                        Some(l) => words_str(&l),
                        None => "!".into(),
                    };
                    let nx = idxs
                        .iter()
                        .map(|i| match catch(|| d.into_iter().nth(*i)) {
                            Some(Some(w)) => format!("{:04X}", w),
                            Some(None) => "-".into(),
                            None => "!".to_string(),
                        })
                        .collect::<Vec<_>>()
                        .join(",");
                    let n1 = idxs
                        .iter()
                        .map(|i| {
                            match catch(|| {
                                let mut it = d.into_iter();
                                it.next();
                                it.nth(*i)
                            }) {
                                Some(Some(w)) => format!("{:04X}", w),
                                Some(None) => "-".into(),
                                None => "!".to_string(),
                            }
                        })
                        .collect::<Vec<_>>()
                        .join(",");
                    format!("OK {} {} {} gx={} it={} nx={} n1={} raw={}", d.len(), b01(d.is_empty()), data_str(&d), gx, it, nx, n1, raw_of(&d))
                }
                Some(Err(e)) => format!("ERR {e:?}"),
                None => "PANIC".into(),
            }
        }
        "fcnew" if t.len() == 2 => {
            let Ok(b) = t[1].parse::<u8>() else { return bad() };
            let fc = FunctionCode::new(b);
            format!("{} {}", fc_name(fc), fc.value())
        }
        "fcval" if t.len() == 2 => {
            let Some(fc) = fc_spec(t[1]) else { return bad() };
            format!("{} {}", fc_name(fc), fc.value())
        }
        "exctry" if t.len() == 2 => {
            let Ok(b) = t[1].parse::<u8>() else { return bad() };
            res_str(catch(|| Exception::try_from(b)), |e| format!("{} {}", exc_idx(*e), *e as u8))
        }
        "c2b" if t.len() == 2 => {
            let Ok(v) = t[1].parse::<u16>() else { return bad() };
            res_str(catch(|| u16_coil_to_bool(v)), |b| b01(*b).to_string())
        }
        "b2c" if t.len() == 2 => bool_to_u16_coil(t[1] == "1").to_string(),
        "fcof" if t.len() > 2 => {
            if t[1] == "req" {
                let Some((spec, _)) = parse_req(&t[2..]) else { return bad() };
                with_req(&spec, |v| match v {
                    None => "SPECERR".into(),
                    Some(v) => {
                        let fc = FunctionCode::from(v);
                        format!("{} {}", fc_name(fc), fc.value())
                    }
                })
            } else {
                let Some((spec, _)) = parse_rsp(&t[2..]) else { return bad() };
                with_rsp(&spec, |v| match v {
                    None => "SPECERR".into(),
                    Some(v) => {
                        let fc = FunctionCode::from(v);
                        format!("{} {}", fc_name(fc), fc.value())
                    }
                })
            }
        }
        // the harness's Rust reference, for the tie with the Lean specification (Spec/*.lean)
        "specreq" => {
            let Some((spec, _)) = parse_req(&t[1..]) else { return bad() };
            match crate::oracle::req_meaning(&spec) {
                Some(m) => hex_of(&crate::refimpl::req_bytes(&m)),
                None => "NA".into(),
            }
        }
        "specrsp" => {
            let Some((spec, _)) = parse_pdu(&t[1..]) else { return bad() };
            match crate::oracle::rsp_meaning(&spec) {
                Some(m) => hex_of(&crate::refimpl::rsp_bytes(&m)),
                None => "NA".into(),
            }
        }
        "speccrc" if t.len() == 2 => {
            let Some(b) = parse_hex(t[1]) else { return bad() };
            hex_of(&crate::refimpl::crc_wire(&b))
        }
        "speclen" if t.len() == 4 => {
            let (Ok(hdr), Some(b)) = (t[2].parse::<usize>(), parse_hex(t[3])) else { return bad() };
            let d = if t[1] == "req" { crate::refimpl::Dir::Req } else { crate::refimpl::Dir::Rsp };
            match crate::refimpl::predict(hdr, d, &b) {
                Ok(Some(n)) => format!("SOME {n}"),
                Ok(None) => "NONE".into(),
                Err(()) => "ERR".into(),
            }
        }
        "specpack" if t.len() == 2 => {
            let Some(bits) = parse_bits(t[1]) else { return bad() };
            hex_of(&crate::refimpl::pack_bits(&bits))
        }
        "recv" if t.len() == 3 || t.len() == 4 => {
            let cs = if t.len() == 4 { t[3] } else { "" };
            let chunks: Option<Vec<Vec<u8>>> =
                if cs.is_empty() { Some(vec![]) } else { cs.split(',').map(parse_hex).collect() };
            let Some(chunks) = chunks else { return bad() };
            let (out, buf, fault) = recv_loop(t[1], t[2], &chunks);
            format!("frames={} [{}] buf={} fault={}", out.len(), out.join(";"), hex_of(&buf), b01(fault))
        }
        _ => bad(),
    }
}

//! Case generators: one ops file per property (primitive ops for the model/code correspondence,
//! `#@` lines for the property oracle).  Every random choice derives from one SplitMix64 state.
use crate::refimpl::*;
use crate::util::*;
use std::io::Write;

const MODELLED: [u8; 9] = [1, 2, 3, 4, 5, 6, 0x0F, 0x10, 0x17];

fn fill_tok(r: &mut Rng) -> String {
    match r.below(5) {
        0 => "00".into(),
        1 => "FF".into(),
        2 => format!("{:02X}r", r.u8()),
        3 => "A5".into(),
        _ => format!("{:02X}", r.u8()),
    }
}

fn coil_count(r: &mut Rng) -> usize {
    const B: [usize; 18] = [1, 2, 7, 8, 9, 15, 16, 17, 24, 63, 64, 65, 255, 256, 257, 2033, 2039, 2040];
    match r.below(3) {
        0 => *r.pick(&B),
        1 => 1 + r.below(40),
        _ => 1 + r.below(2040),
    }
}

fn word_count(r: &mut Rng) -> usize {
    const B: [usize; 9] = [1, 2, 3, 123, 124, 125, 126, 127, 64];
    match r.below(3) {
        0 => *r.pick(&B),
        1 => 1 + r.below(10),
        _ => 1 + r.below(127),
    }
}

fn bits(r: &mut Rng, n: usize) -> Vec<bool> {
    match r.below(4) {
        0 => vec![true; n],
        1 => vec![false; n],
        _ => (0..n).map(|_| r.bool()).collect(),
    }
}

fn words(r: &mut Rng, n: usize) -> Vec<u16> {
    (0..n).map(|_| r.addr()).collect()
}

fn target_len(r: &mut Rng, need: usize) -> usize {
    need + *r.pick(&[0usize, 0, 0, 1, 2, 9, 40]) + if r.below(8) == 0 { need } else { 0 }
}

/// a request meaning within Modbus limits (or just beyond when `over`) with its constructor spec
fn gen_req(r: &mut Rng, over: bool) -> (ReqM, String) {
    match r.below(12) {
        0..=4 => {
            let (fc, n) = *r.pick(&[(1u8, "RC"), (2, "RDI"), (3, "RHR"), (4, "RIR"), (6, "WSR")]);
            let (a, q) = (r.addr(), r.addr());
            (ReqM::Simple(fc, a, q), format!("{n} {a} {q}"))
        }
        5 => {
            let (a, c) = (r.addr(), r.bool());
            (ReqM::Wsc(a, c), format!("WSC {a} {}", c as u8))
        }
        6 | 7 => {
            let n = if over { 2041 + r.below(60) } else { coil_count(r) };
            let b = bits(r, n);
            let a = r.addr();
            let t = target_len(r, (n + 7) / 8);
            (ReqM::Wmc(a, b.clone()), format!("WMC {a} {} {t} {}", bits_str(&b), fill_tok(r)))
        }
        8 => {
            let n = if over { 128 + r.below(10) } else { word_count(r) };
            let w = words(r, n);
            let a = r.addr();
            let t = target_len(r, 2 * n);
            (ReqM::Wmr(a, w.clone()), format!("WMR {a} {} {t} {}", words_str(&w), fill_tok(r)))
        }
        9 => {
            let n = if over { 128 + r.below(10) } else { word_count(r) };
            let w = words(r, n);
            let (ra, rq, wa) = (r.addr(), r.addr(), r.addr());
            let t = target_len(r, 2 * n);
            (ReqM::Rwm(ra, rq, wa, w.clone()), format!("RWM {ra} {rq} {wa} {} {t} {}", words_str(&w), fill_tok(r)))
        }
        _ => {
            let mut c = r.u8() & 0x7F;
            while MODELLED.contains(&c) {
                c = r.u8() & 0x7F;
            }
            let n = *r.pick(&[0usize, 1, 2, 5, 17, 252]);
            let d = r.bytes(n);
            let new = r.bool();
            (ReqM::Custom(c, d.clone()), format!("CUS {}{:02X} {}", if new { 'N' } else { 'C' }, c, hex_of(&d)))
        }
    }
}

fn gen_rsp(r: &mut Rng, over: bool) -> (RspM, String) {
    match r.below(12) {
        0 | 1 => {
            let (fc, n) = *r.pick(&[(1u8, "RC"), (2, "RDI")]);
            let k = if over { 2041 + r.below(60) } else { coil_count(r) };
            let b = bits(r, k);
            let t = target_len(r, (k + 7) / 8);
            (RspM::Coils(fc, b.clone()), format!("{n} {} {t} {}", bits_str(&b), fill_tok(r)))
        }
        2 => {
            let a = r.addr();
            (RspM::Wsc(a), format!("WSC {a}"))
        }
        3 | 4 => {
            let (fc, n) = *r.pick(&[(6u8, "WSR"), (0x0F, "WMC"), (0x10, "WMR")]);
            let (a, q) = (r.addr(), r.addr());
            (RspM::Pair(fc, a, q), format!("{n} {a} {q}"))
        }
        5..=7 => {
            let (fc, n) = *r.pick(&[(3u8, "RHR"), (4, "RIR"), (0x17, "RWM")]);
            let k = if over { 128 + r.below(10) } else { word_count(r) };
            let w = words(r, k);
            let t = target_len(r, 2 * k);
            (RspM::Regs(fc, w.clone()), format!("{n} {} {t} {}", words_str(&w), fill_tok(r)))
        }
        8 | 9 => {
            let f = r.u8() & 0x7F;
            let k = r.below(9);
            let code = [1u8, 2, 3, 4, 5, 6, 8, 10, 11][k];
            (RspM::Exc(f, code), format!("EXC {}{:02X} {k}", if r.bool() { 'N' } else { 'C' }, f))
        }
        _ => {
            let mut c = r.u8();
            while MODELLED.contains(&c) {
                c = r.u8();
            }
            let n = *r.pick(&[0usize, 1, 2, 5, 17, 252]);
            let d = r.bytes(n);
            (RspM::Custom(c, d.clone()), format!("CUS {}{:02X} {}", if r.bool() { 'N' } else { 'C' }, c, hex_of(&d)))
        }
    }
}

/// the PDU the crate produces for a response meaning (Wsc: its own 3-byte form)
fn crate_rsp_len(m: &RspM) -> usize {
    match m {
        RspM::Wsc(_) => 3,
        _ => rsp_bytes(m).len(),
    }
}

/// a frameable PDU for `dir`: standard kinds, plus the other function codes the predictors know
fn gen_frame_pdu(r: &mut Rng, dir: Dir) -> Vec<u8> {
    if r.below(24) == 0 {
        // the largest legal PDUs (250..=253 bytes): the 256-byte RTU frame limit is a boundary of its own
        return match dir {
            Dir::Req => {
                let bc = *r.pick(&[240usize, 242, 244, 246]);
                let mut p = vec![0x10, r.u8(), r.u8(), 0, (bc / 2) as u8, bc as u8];
                p.extend(r.bytes(bc));
                p
            }
            Dir::Rsp => {
                let bc = *r.pick(&[248usize, 249, 250, 251]);
                let mut p = vec![*r.pick(&[1u8, 2, 3, 4, 0x17]), bc as u8];
                p.extend(r.bytes(bc));
                p
            }
        };
    }
    if r.below(4) == 0 {
        // codes known to the predictors but not to the PDU codec
        match dir {
            Dir::Req => {
                let (fc, n) = *r.pick(&[(7u8, 1usize), (0x0B, 1), (0x0C, 1), (0x11, 1), (0x16, 7), (0x18, 3)]);
                let mut p = vec![fc];
                p.extend(r.bytes(n - 1));
                p
            }
            Dir::Rsp => match r.below(4) {
                0 => {
                    let (fc, n) = *r.pick(&[(7u8, 2usize), (0x0B, 5), (0x16, 7)]);
                    let mut p = vec![fc];
                    p.extend(r.bytes(n - 1));
                    p
                }
                1 => {
                    let c = r.below(20);
                    let mut p = vec![0x0C, c as u8];
                    p.extend(r.bytes(c));
                    p
                }
                2 => {
                    let c = r.below(40);
                    let mut p = vec![0x18, 0, c as u8];
                    p.extend(r.bytes(c));
                    p
                }
                _ => {
                    let f = 1 + r.below(0x2B) as u8;
                    vec![f + 0x80, [1u8, 2, 3, 4, 5, 6, 8, 10, 11][r.below(9)]]
                }
            },
        }
    } else {
        loop {
            let p = match dir {
                Dir::Req => req_bytes(&gen_req(r, false).0),
                Dir::Rsp => rsp_bytes(&gen_rsp(r, false).0),
            };
            // keep RTU frames within 256 bytes and only PDUs the length rule recognises as complete
            if p.len() <= 253 && matches!(pdu_len_rule(dir, &p), Ok(Some(n)) if n == p.len()) {
                return p;
            }
        }
    }
}

/// a frame whose payload itself contains a complete well-formed frame of the same transport and direction
/// (plus a few more bytes): resynchronising inside an unfinished frame would report the embedded one
fn gen_nested_frame(r: &mut Rng, tr: &str, dir: Dir) -> Vec<u8> {
    if tr == "rtu" && dir == Dir::Req && r.bool() {
        // a 0x17 request whose HEADER fields spell a CRC-valid 4-byte request frame (slave, 1-byte PDU, CRC)
        let inner = rtu_frame(r.u8(), &[*r.pick(&[0x07u8, 0x0B, 0x0C, 0x11])]);
        let n = 1 + r.below(4);
        let mut p = vec![0x17u8];
        if r.bool() { p.extend(&inner); p.extend([r.u8(), r.u8()]); } else { p.extend([r.u8(), r.u8()]); p.extend(&inner); }
        p.extend([0, n as u8, (2 * n) as u8]);
        p.extend(r.bytes(2 * n));
        return rtu_frame(r.u8(), &p);
    }
    let inner = loop {
        let p = gen_frame_pdu(r, dir);
        if p.len() <= 24 { break if tr == "rtu" { rtu_frame(r.u8(), &p) } else { tcp_frame(r.u16(), r.u8(), &p) }; }
    };
    let mut data = r.rbytes(0, 3);
    data.extend(&inner);
    data.extend(r.rbytes(1, 4));
    if data.len() % 2 == 1 { data.push(r.u8()); }
    let bc = data.len();
    let pdu = match dir {
        Dir::Req => { let mut p = vec![0x17, 0, 1, 0, 2, r.u8(), r.u8(), 0, (bc / 2) as u8, bc as u8]; p.extend(&data); p }
        Dir::Rsp => { let mut p = vec![*r.pick(&[3u8, 4, 0x17]), bc as u8]; p.extend(&data); p }
    };
    if tr == "rtu" { rtu_frame(r.u8(), &pdu) } else { tcp_frame(r.u16(), r.u8(), &pdu) }
}

fn gen_frame(r: &mut Rng, tr: &str, dir: Dir) -> Vec<u8> {
    if r.below(12) == 0 {
        return gen_nested_frame(r, tr, dir);
    }
    if tr == "tcp" && r.below(30) == 0 {
        // MBAP has no 256-byte limit: PDUs with the largest byte counts (254..=265 bytes)
        let p = match dir {
            Dir::Req => match r.below(3) {
                0 => { let bc = *r.pick(&[250usize, 252, 254]); let mut p = vec![0x10, r.u8(), r.u8(), 0, (bc / 2) as u8, bc as u8]; p.extend(r.bytes(bc)); p }
                1 => { let bc = *r.pick(&[251usize, 253, 255]); let q = bc * 8; let mut p = vec![0x0F, r.u8(), r.u8(), (q >> 8) as u8, q as u8, bc as u8]; p.extend(r.bytes(bc)); p }
                _ => { let bc = *r.pick(&[246usize, 248, 250, 252, 254]); let mut p = vec![0x17, 0, 1, 0, 2, r.u8(), r.u8(), 0, (bc / 2) as u8, bc as u8]; p.extend(r.bytes(bc)); p }
            },
            Dir::Rsp => if r.bool() {
                let bc = *r.pick(&[252usize, 253, 254, 255]); let mut p = vec![*r.pick(&[1u8, 2, 3, 4, 0x17]), bc as u8]; p.extend(r.bytes(bc)); p
            } else {
                // read-FIFO-queue style response (0x18) whose two-byte count has an extreme low byte
                let c = *r.pick(&[0x00FDusize, 0x00FF, 0x01FD, 0x01FE, 0x01FF, 0x0100, 0x03FD]); let mut p = vec![0x18u8, (c >> 8) as u8, c as u8]; p.extend(r.bytes(c)); p
            }
        };
        return tcp_frame(r.u16(), r.u8(), &p);
    }
    let mut p = gen_frame_pdu(r, dir);
    if r.below(16) == 0 && p.len() >= 3 && p[0] < 0x80 {
        // leading bytes that coincide: slave / unit id == function code == the byte after it
        let fc = p[0];
        let ok = match (dir, fc) { (Dir::Req, 1..=6) | (Dir::Req, 0x0F) | (Dir::Req, 0x10) | (Dir::Req, 0x17) => true, (Dir::Rsp, 5) | (Dir::Rsp, 6) | (Dir::Rsp, 0x0F) | (Dir::Rsp, 0x10) => true, _ => false };
        if ok { p[1] = fc; }
        return if tr == "rtu" { rtu_frame(fc, &p) } else { tcp_frame((fc as u16) << 8 | fc as u16, fc, &p) };
    }
    if tr == "rtu" {
        rtu_frame(r.u8(), &p)
    } else {
        tcp_frame(r.u16(), r.u8(), &p)
    }
}

fn dname(d: Dir) -> &'static str {
    if d == Dir::Req {
        "req"
    } else {
        "rsp"
    }
}

/// byte strings that stress the decoders: truncations, field corruption, random, CRC-valid garbage
fn malformed(r: &mut Rng) -> Vec<u8> {
    match r.below(10) {
        0 => r.rbytes(0, 12),
        1 => {
            let n = r.below(40);
            r.bytes(n)
        }
        2 => {
            let n = *r.pick(&[255usize, 256, 257, 258, 300, 520, 600]);
            if r.bool() { vec![r.u8(); n] } else { r.bytes(n) }
        }
        3 | 4 => {
            // truncation / extension of a valid PDU
            let mut p = if r.bool() { req_bytes(&gen_req(r, false).0) } else { rsp_bytes(&gen_rsp(r, false).0) };
            let k = r.below(p.len() + 1);
            p.truncate(k);
            p
        }
        5 | 6 => {
            // single-field corruption of a valid PDU
            let mut p = if r.bool() { req_bytes(&gen_req(r, false).0) } else { rsp_bytes(&gen_rsp(r, false).0) };
            let i = r.below(p.len().min(11));
            p[i] = match r.below(4) { 0 => 0, 1 => 0xFF, 2 => p[i].wrapping_add(1), _ => r.u8() };
            p
        }
        7 => {
            // valid frame, truncated
            let tr = if r.bool() { "rtu" } else { "tcp" };
            let d = if r.bool() { Dir::Req } else { Dir::Rsp };
            let mut f = gen_frame(r, tr, d);
            let k = r.below(f.len() + 1);
            f.truncate(k);
            f
        }
        8 => {
            // CRC-valid / MBAP-valid frame around a malformed PDU
            let d = if r.bool() { Dir::Req } else { Dir::Rsp };
            let mut p = gen_frame_pdu(r, d);
            if p.len() > 1 {
                let i = 1 + r.below(p.len() - 1);
                p[i] = r.u8();
            }
            if r.bool() { rtu_frame(r.u8(), &p) } else { tcp_frame(r.u16(), r.u8(), &p) }
        }
        _ => {
            // function-code byte at the position each predictor looks at
            let mut b = r.rbytes(8, 12);
            let fc = *r.pick(&[0x0Fu8, 0x10, 0x17, 0x18, 0x01, 0x03, 0x0C, 0x83, 0x05]);
            if r.bool() { b[7] = fc } else { b[1] = fc }
            b
        }
    }
}

fn scale(tier: &str, quick: usize, thorough: usize) -> usize {
    if tier == "thorough" {
        thorough
    } else {
        quick
    }
}

/// container sources (`P<hex>` = a response PDU, `Q<hex>` = a request PDU) whose decoded `Coils` / `Data`
/// are then placed in other variants: exact, with surplus data bytes, with trailing bytes behind the PDU,
/// with set padding bits, empty.  Returns (coil sources, register sources).
fn src_cases(r: &mut Rng) -> (Vec<String>, Vec<String>) {
    let mut coils = vec![];
    let mut regs = vec![];
    for bc in [0usize, 1, 2, 9, 255] { for fc in [1u8, 2] { for trail in [0usize, 2] {
        let mut p = vec![fc, bc as u8]; p.extend(r.bytes(bc + trail)); coils.push(format!("P{}", hex_of(&p)));
    } } }
    for q in [0usize, 1, 3, 8, 9, 10, 17, 2033, 2040] { for extra in [0usize, 1, 3] { for trail in [0usize, 1, 4] { for dirty in [false, true] {
        let need = (q + 7) / 8; let bc = need + extra;
        if bc > 255 || (extra > 0 && trail > 0 && q > 20) { continue; }
        let mut d = r.bytes(bc);
        if q % 8 != 0 { if dirty { d[need - 1] |= 0x80; } else { d[need - 1] &= (1u8 << (q % 8)) - 1; } } else if dirty { continue; }
        let mut p = vec![0x0Fu8, 0x12, 0x34, (q / 256) as u8, (q % 256) as u8, bc as u8]; p.extend(d); p.extend(r.bytes(trail));
        coils.push(format!("Q{}", hex_of(&p)));
    } } } }
    for bc in [0usize, 1, 2, 3, 4, 5, 254, 255] { for fc in [3u8, 4, 0x17] { for trail in [0usize, 1] {
        let mut p = vec![fc, bc as u8]; p.extend(r.bytes(bc + trail)); regs.push(format!("P{}", hex_of(&p)));
    } } }
    for q in [0usize, 1, 2, 3, 126, 127] { for fc in [0x10u8, 0x17] { for trail in [0usize, 1, 3] {
        let mut p = vec![fc]; if fc == 0x17 { p.extend([0, 9, 0, 2]); }
        p.extend([0x12, 0x34, 0, q as u8, (2 * q) as u8]); p.extend(r.bytes(2 * q + trail)); regs.push(format!("Q{}", hex_of(&p)));
    } } }
    (coils, regs)
}

pub fn generate(prop: &str, tier: &str, seed: u64, out: &mut impl Write) {
    let mut rng = Rng(seed ^ 0x6D6F646275730000 ^ (prop.bytes().fold(0u64, |a, b| a * 131 + b as u64)));
    let r = &mut rng;
    macro_rules! w { ($($a:tt)*) => { writeln!(out, $($a)*).unwrap() } }
    match prop {
        "C01" => {
            let (cs, ds) = src_cases(r);
            for c in &cs { w!("reqenc WMCS 4660 {c} 300 A5"); w!("#@ C01 WMCS 4660 {c}"); }
            for d in &ds { w!("reqenc WMRS 7 {d} 300 A5"); w!("#@ C01 WMRS 7 {d}"); w!("reqenc RWMS 1 2 3 {d} 300 A5"); w!("#@ C01 RWMS 1 2 3 {d}"); }
            // every unmodelled custom code once
            for c in 0u8..0x80 {
                if MODELLED.contains(&c) { continue; }
                let d = r.rbytes(0, 6);
                for k in ["N", "C"] {
                    let s = format!("CUS {k}{c:02X} {}", hex_of(&d));
                    w!("reqenc {s} {} A5", d.len() + 2);
                    w!("#@ C01 {s}");
                }
                let mut p = vec![c]; p.extend(&d);
                w!("reqdec {}", hex_of(&p));
            }
            for _ in 0..scale(tier, 1500, 40000) {
                let over = r.below(12) == 0;
                let (m, s) = gen_req(r, over);
                let pl = req_bytes(&m).len();
                w!("reqenc {s} {} {}", pl + 3, fill_tok(r));
                if !over {
                    let bytes = req_bytes(&m);
                    w!("reqdec {}", hex_of(&bytes));
                    w!("requse {}", hex_of(&bytes));
                }
                w!("#@ C01 {s}");
            }
        }
        "C02" => {
            for f in 0u8..0x80 {
                for k in 0..9usize {
                    let code = [1u8, 2, 3, 4, 5, 6, 8, 10, 11][k];
                    w!("excenc EXC N{f:02X} {k} 4 A5"); w!("excinto EXC N{f:02X} {k}");
                    w!("excdec {:02X}{:02X}", f + 0x80, code);
                    w!("#@ C02 EXC N{f:02X} {k}");
                    if f % 16 == 3 { w!("#@ C02 EXC C{f:02X} {k}"); w!("excenc EXC C{f:02X} {k} 2 00"); }
                }
            }
            { let (cs, ds) = src_cases(r);
              for c in &cs { for k in ["RCS", "RDIS"] { w!("rspenc {k} {c} 300 A5"); w!("#@ C02 {k} {c}"); } }
              for d in &ds { for k in ["RHRS", "RIRS", "RWMS"] { w!("rspenc {k} {d} 300 A5"); w!("#@ C02 {k} {d}"); } } }
            // read-exception-status responses (the one serial-line-only kind the crate encodes)
            for x in 0..=255u32 { w!("rspenc RES {x} 4 A5"); w!("rspdec 07{x:02X}"); w!("rspdec 07{x:02X}5A"); w!("#@ C02 RES {x}"); }
            w!("rspdec 07");
            // coil containers taken from decoded PDUs (a request may carry set padding bits; a response carries whole bytes)
            for q in [1usize, 3, 4, 7, 8, 9, 15, 17, 2033, 2039] { for dirty in [false, true] {
                let need = (q + 7) / 8; let mut d = r.bytes(need);
                if q % 8 != 0 { if dirty { d[need - 1] |= 0x80; } else { d[need - 1] &= (1u8 << (q % 8)) - 1; } }
                let mut p = vec![0x0Fu8, 0x12, 0x34, (q / 256) as u8, (q % 256) as u8, need as u8]; p.extend(d); let h = hex_of(&p);
                for k in ["RCS", "RDIS"] { w!("rspenc {k} Q{h} 300 A5"); w!("#@ C02 {k} Q{h}"); }
            } }
            for bc in [1usize, 2, 255] { let mut p = vec![1u8, bc as u8]; p.extend(r.bytes(bc)); let h = hex_of(&p);
                for k in ["RCS", "RDIS"] { w!("rspenc {k} P{h} 300 A5"); w!("#@ C02 {k} P{h}"); } }
            for f in [0x80u32, 0x83, 0xFF] { w!("excinto EXC C{f:02X} 1"); w!("excenc EXC C{f:02X} 1 4 A5"); }
            for sp in ["RES", "DIA 1 W0001 2 00", "GCC", "GCL", "RSI"] { w!("reqlen {sp}"); }
            for sp in ["RES 5", "DIA W0001 2 00", "GCC 1 2", "GCL 1 2 3 0102", "RSI 0102 1"] { w!("rsplen {sp}"); }
            // the whole exception decode table
            for a in 0..=255u32 { for b in 0..=255u32 { if tier == "thorough" || (a >= 0x7E && a <= 0x82) || a % 37 == 0 || b <= 12 { w!("excdec {a:02X}{b:02X}"); } } }
            for _ in 0..scale(tier, 1500, 40000) {
                let (m, s) = gen_rsp(r, false);
                let pl = crate_rsp_len(&m);
                if let RspM::Exc(..) = m { w!("pduenc {s} {} {}", pl + 3, fill_tok(r)); } else {
                    w!("rspenc {s} {} {}", pl + 3, fill_tok(r));
                    let bytes = rsp_bytes(&m);
                    w!("rspdec {}", hex_of(&bytes));
                    w!("rspuse {}", hex_of(&bytes));
                }
                w!("#@ C02 {s}");
            }
        }
        "C03" => {
            { let (cs, ds) = src_cases(r);
              for c in &cs { w!("reqenc WMCS 16 {c} 300 A5"); w!("#@ C03 req WMCS 16 {c}"); for k in ["RCS", "RDIS"] { w!("pduenc {k} {c} 300 A5"); w!("#@ C03 rsp {k} {c}"); } }
              for d in &ds { w!("reqenc WMRS 7 {d} 300 A5"); w!("#@ C03 req WMRS 7 {d}"); w!("reqenc RWMS 1 2 3 {d} 300 A5"); w!("#@ C03 req RWMS 1 2 3 {d}");
                             for k in ["RHRS", "RIRS", "RWMS"] { w!("pduenc {k} {d} 300 A5"); w!("#@ C03 rsp {k} {d}"); } } }
            for x in [0u32, 1, 0x55, 0x80, 0xFF] { w!("pduenc RES {x} 2 A5"); w!("#@ C03 rsp RES {x}"); w!("specrsp RES {x}"); }
            // a decoded write-multiple-coils request may carry set padding bits: re-encoded, or its coils placed
            // in another PDU, the bytes produced must still have zero padding
            for q in [1usize, 3, 4, 7, 9, 15, 17, 2033, 2039] { for dirty in [false, true] {
                let need = (q + 7) / 8; let mut d = r.bytes(need);
                if dirty { d[need - 1] |= 0x80; } else { d[need - 1] &= (1u8 << (q % 8)) - 1; }
                let mut p = vec![0x0Fu8, 0x12, 0x34, (q / 256) as u8, (q % 256) as u8, need as u8]; p.extend(d); let h = hex_of(&p);
                w!("reqenc WMCS 16 Q{h} 300 A5"); w!("#@ C03 req WMCS 16 Q{h}");
                w!("pduenc RCS Q{h} 300 A5"); w!("#@ C03 rsp RCS Q{h}");
                w!("pduenc RDIS Q{h} 300 A5"); w!("#@ C03 rsp RDIS Q{h}");
            } }
            for _ in 0..scale(tier, 1500, 40000) {
                let (m, s) = gen_req(r, false);
                w!("reqenc {s} {} {}", req_bytes(&m).len(), fill_tok(r));
                w!("reqdec {}", hex_of(&req_bytes(&m)));
                w!("#@ C03 req {s}");
                w!("specreq {s}");
                let (m, s) = gen_rsp(r, false);
                w!("pduenc {s} {} {}", crate_rsp_len(&m), fill_tok(r));
                if let RspM::Exc(..) = m { w!("excdec {}", hex_of(&rsp_bytes(&m))); } else { w!("rspdec {}", hex_of(&rsp_bytes(&m))); }
                w!("#@ C03 rsp {s}");
                w!("specrsp {s}");
            }
        }
        "C04" | "C05" => {
            let rtu = prop == "C04";
            if !rtu {
                // PDUs around the capacity of the 16-bit MBAP length field
                for n in [65532usize, 65533, 65534, 65535, 70000] {
                    let d = vec![0x5Au8; n];
                    w!("tcpenc req 1 9 CUS C41 {} {} 00", hex_of(&d), n + 10);
                    w!("tcpenc rsp 1 9 CUS C41 {} {} 00", hex_of(&d), n + 10);
                    w!("#@ C05 len req {n}"); w!("#@ C05 len rsp {n}");
                }
            }
            { let (cs, ds) = src_cases(r);
              let (enc, tag) = if rtu { ("rtuenc", "C04") } else { ("tcpenc", "C05") };
              let ids = if rtu { "17" } else { "7 9" };
              for c in &cs { if c.len() > 500 { continue; }
                  w!("{enc} req {ids} WMCS 4660 {c} 300 A5"); w!("#@ {tag} req {ids} WMCS 4660 {c}");
                  for k in ["RCS", "RDIS"] { w!("{enc} rsp {ids} {k} {c} 300 A5"); w!("#@ {tag} rsp {ids} {k} {c}"); } }
              for d in &ds { if d.len() > 500 { continue; }
                  w!("{enc} req {ids} WMRS 7 {d} 300 A5"); w!("#@ {tag} req {ids} WMRS 7 {d}");
                  w!("{enc} req {ids} RWMS 1 2 3 {d} 300 A5"); w!("#@ {tag} req {ids} RWMS 1 2 3 {d}");
                  for k in ["RHRS", "RIRS", "RWMS"] { w!("{enc} rsp {ids} {k} {d} 300 A5"); w!("#@ {tag} rsp {ids} {k} {d}"); } } }
            if rtu { for sp in ["RES", "GCC", "GCL", "RSI"] { w!("rtuenc req 17 {sp} 8 A5"); w!("#@ C04 req 17 {sp}"); } }
            else { for sp in ["RES", "GCC", "GCL", "RSI"] { w!("tcpenc req 7 9 {sp} 12 A5"); w!("#@ C05 req 7 9 {sp}"); } }
            for x in [0u32, 0x5A, 0xFF] { if rtu { w!("rtuenc rsp 17 RES {x} 8 A5"); w!("#@ C04 rsp 17 RES {x}"); } else { w!("tcpenc rsp 7 9 RES {x} 12 A5"); w!("#@ C05 rsp 7 9 RES {x}"); } }
            for bc in [1usize, 3, 5] {
                // a transplanted decoded `Data` (odd byte count) framed as a write request
                let mut p = vec![3u8, bc as u8]; p.extend(r.bytes(bc)); let h = hex_of(&p);
                if rtu { w!("rtuenc req 17 RWMX 1 2 3 {h} 40 A5"); w!("#@ C04 req 17 RWMX 1 2 3 {h}"); }
                else { w!("tcpenc req 7 9 WMRX 5 {h} 40 A5"); w!("#@ C05 req 7 9 WMRX 5 {h}"); w!("tcpenc req 7 9 RWMX 1 2 3 {h} 40 A5"); w!("#@ C05 req 7 9 RWMX 1 2 3 {h}"); }
            }
            let n = scale(tier, 1200, 30000);
            for i in 0..n {
                let id = (i % 256) as u8; // every slave / unit id
                let tid = if i < 8 { [0u16, 1, 0xFF, 0x100, 0xFFFF, 0xFF00, 0x00FF, 0x8000][i] } else { r.u16() };
                let (mut m, mut s) = gen_req(r, false);
                let mut id = id;
                if i % 13 == 4 {
                    // slave / unit id == function code == address high byte
                    let (fc, n) = *r.pick(&[(1u8, "RC"), (2, "RDI"), (3, "RHR"), (4, "RIR"), (6, "WSR")]);
                    let a = (fc as u16) << 8 | r.u8() as u16; let q = r.addr();
                    m = ReqM::Simple(fc, a, q); s = format!("{n} {a} {q}"); id = fc;
                }
                let pdu = req_bytes(&m);
                let ovh = if rtu { 3 } else { 7 };
                let l = pdu.len() + ovh + *r.pick(&[0usize, 0, 1, 2]);
                if rtu {
                    w!("rtuenc req {id} {s} {l} {}", fill_tok(r));
                    w!("rtudec req {}", hex_of(&rtu_frame(id, &pdu)));
                    w!("#@ C04 req {id} {s}");
                } else {
                    w!("tcpenc req {tid} {id} {s} {l} {}", fill_tok(r));
                    w!("tcpdec req {}", hex_of(&tcp_frame(tid, id, &pdu)));
                    w!("#@ C05 req {tid} {id} {s}");
                }
                if !rtu && i % 97 == 5 {
                    // a custom response with the read-FIFO-queue code and a count whose low byte is extreme
                    let c = *r.pick(&[0x00FDusize, 0x01FD, 0x01FE, 0x01FF, 0x03FD]);
                    let mut d = vec![(c >> 8) as u8, c as u8]; d.extend(r.bytes(c));
                    let s = format!("CUS N18 {}", hex_of(&d));
                    w!("tcpenc rsp {tid} {id} {s} {} {}", 1 + d.len() + 7, fill_tok(r));
                    w!("tcpdec rsp {}", hex_of(&tcp_frame(tid, id, &[vec![0x18u8], d.clone()].concat())));
                    w!("#@ C05 rsp {tid} {id} {s}");
                }
                let (m, s) = if i % 5 == 0 {
                    // exception responses, every frameable function code over time
                    let f = 1 + ((i / 5) % 0x2B) as u8;
                    let k = (i / 5) % 9;
                    (RspM::Exc(f, [1u8, 2, 3, 4, 5, 6, 8, 10, 11][k]), format!("EXC N{f:02X} {k}"))
                } else { gen_rsp(r, false) };
                if i % 7 == 3 {
                    // a response value obtained by DECODING (odd byte counts, excess bytes), then framed
                    let bc = *r.pick(&[1usize, 3, 5, 9, 251, 253, 2, 4]);
                    let fc = *r.pick(&[1u8, 2, 3, 4, 0x17]);
                    let mut p = vec![fc, bc as u8]; p.extend(r.rbytes(bc, 3));
                    let h = hex_of(&p);
                    if rtu {
                        w!("rtuenc rsp {id} DEC {h} {} {}", 2 + bc + 3 + 2, fill_tok(r));
                        w!("#@ C04 rsp {id} DEC {h}");
                    } else {
                        w!("tcpenc rsp {tid} {id} DEC {h} {} {}", 2 + bc + 7 + 2, fill_tok(r));
                        w!("#@ C05 rsp {tid} {id} DEC {h}");
                    }
                }
                let pdu = rsp_bytes(&m);
                let l = crate_rsp_len(&m) + ovh + *r.pick(&[0usize, 0, 1, 2]);
                if rtu {
                    w!("rtuenc rsp {id} {s} {l} {}", fill_tok(r));
                    w!("rtudec rsp {}", hex_of(&rtu_frame(id, &pdu)));
                    w!("#@ C04 rsp {id} {s}");
                } else {
                    w!("tcpenc rsp {tid} {id} {s} {l} {}", fill_tok(r));
                    w!("tcpdec rsp {}", hex_of(&tcp_frame(tid, id, &pdu)));
                    w!("#@ C05 rsp {tid} {id} {s}");
                }
            }
        }
        "C06" => {
            w!("crc -"); w!("#@ C06 -");
            for a in 0..=255u32 { w!("crc {a:02X}"); w!("speccrc {a:02X}"); w!("#@ C06 {a:02X}"); }
            for a in 0..=255u32 { for b in 0..=255u32 { w!("crc {a:02X}{b:02X}"); if (a * 256 + b) % 7 == 0 { w!("#@ C06 {a:02X}{b:02X}"); } } }
            if tier == "thorough" {
                // every (16-bit state, byte) transition reachable in three bytes: sampled third byte per pair
                for a in 0..=255u32 { for b in 0..=255u32 { for c in [0u32, 1, 0x80, 0xFF, (a * 7 + b * 13) % 256, (a ^ b) & 0xFF] { w!("crc {a:02X}{b:02X}{c:02X}"); } } }
            }
            for _ in 0..scale(tier, 1500, 30000) {
                let n = match r.below(4) { 0 => r.below(16), 1 => 250 + r.below(12), 2 => r.below(600), _ => 3 + r.below(60) };
                let b = r.bytes(n);
                w!("crc {}", hex_of(&b));
                w!("speccrc {}", hex_of(&b));
                w!("#@ C06 {}", hex_of(&b));
            }
            for n in [255usize, 256, 257, 511, 512, 513, 1000] {
                for v in [0u8, 0xFF, 0x55] { let b = vec![v; n]; w!("crc {}", hex_of(&b)); w!("#@ C06 {}", hex_of(&b)); }
            }
            // strings that drive the register to zero part-way: a message followed by its own checksum, then more bytes
            for t in 0..=255u8 { let b = [0xFFu8, 0xFF, t]; w!("crc {}", hex_of(&b)); w!("#@ C06 {}", hex_of(&b)); }
            for _ in 0..scale(tier, 300, 5000) {
                let mut b = r.rbytes(0, 12);
                let c = crc_wire(&b); b.extend(c);
                let tail = r.rbytes(1, 6); b.extend(&tail);
                if r.bool() { let c2 = crc_wire(&b); b.extend(c2); b.extend(r.rbytes(0, 3)); }
                w!("crc {}", hex_of(&b)); w!("#@ C06 {}", hex_of(&b));
            }
        }
        "C07" => {
            let emit = |b: &[u8], out: &mut dyn Write, r: &mut Rng| {
                let h = hex_of(b);
                for op in ["reqdec", "rspdec", "excdec", "rtulen req", "rtulen rsp", "tcplen req", "tcplen rsp", "rtuscan req", "rtuscan rsp", "tcpscan req", "tcpscan rsp", "rtudec req", "rtudec rsp", "tcpdec req", "tcpdec rsp"] {
                    writeln!(out, "{op} {h}").unwrap();
                }
                let l = b.len();
                let n = *r.pick(&[0usize, 1, 5, l.saturating_sub(3), l.saturating_sub(7), l, 253, 70000]);
                writeln!(out, "rtuext {n} {h}").unwrap();
                writeln!(out, "tcpext {n} {h}").unwrap();
                writeln!(out, "#@ C07 {h}").unwrap();
            };
            // all short lengths, structured
            emit(&[], out, r);
            for fc in 0..=255u8 { emit(&[fc], out, r); emit(&[0x11, fc], out, r); emit(&[0, 1, 0, 0, 0, 6, 9, fc], out, r); }
            for len in 0..=40usize { for _ in 0..scale(tier, 4, 40) { let b = r.bytes(len); emit(&b, out, r); } }
            if tier == "thorough" {
                // small-scope exhaustive: every byte string of length 2 through every decoding entry point
                for a in 0..=255u8 { for b in 0..=255u8 { emit(&[a, b], out, r); } }
                // every string of length 3..=5 over an alphabet of structurally significant bytes
                // (function codes with count fields, the exception marker, extreme counts)
                const ALPHA: [u8; 10] = [0x00, 0x01, 0x02, 0x03, 0x05, 0x0F, 0x10, 0x17, 0x83, 0xFF];
                for len in 3..=5usize {
                    let total = ALPHA.len().pow(len as u32);
                    for mut k in 0..total {
                        let mut b = Vec::with_capacity(len);
                        for _ in 0..len { b.push(ALPHA[k % ALPHA.len()]); k /= ALPHA.len(); }
                        emit(&b, out, r);
                    }
                }
                // length 6..=7 for the PDU decoders alone (minimum-length and byte-count guards live here)
                for len in 6..=7usize {
                    const A2: [u8; 7] = [0x00, 0x01, 0x02, 0x03, 0x0F, 0x10, 0xFF];
                    let total = A2.len().pow(len as u32);
                    for mut k in 0..total {
                        let mut b = Vec::with_capacity(len);
                        for _ in 0..len { b.push(A2[k % A2.len()]); k /= A2.len(); }
                        let h = hex_of(&b);
                        writeln!(out, "reqdec {h}").unwrap(); writeln!(out, "rspdec {h}").unwrap(); writeln!(out, "requse {h}").unwrap();
                    }
                }
            }
            // every prefix length of TCP 0x0F/0x10/0x17 requests and of 0x18 responses
            for fc in [0x0Fu8, 0x10, 0x17, 0x18, 0x01, 0x0C] {
                let mut f = vec![0, 1, 0, 0, 0, 9, 0x11, fc]; f.extend(r.bytes(14));
                for k in 0..=f.len() { emit(&f[..k], out, r); }
                let mut f = vec![0x11, fc]; f.extend(r.bytes(14));
                for k in 0..=f.len() { emit(&f[..k], out, r); }
            }
            for n in [254usize, 255, 256, 257, 258, 300, 512, 513, 600] { for v in [0x42u8, 0x00, 0xFF] { emit(&vec![v; n], out, r); } }
            // count fields at their extremes (one- and two-byte counts), at the RTU and TCP positions
            for fc in [0x18u8, 0x01, 0x03, 0x0C, 0x17, 0x0F, 0x10] { for c in [0u16, 0x00FF, 0xFF00, 0xFFFC, 0xFFFD, 0xFFFE, 0xFFFF] {
                let mut b = vec![0x11, fc, (c >> 8) as u8, c as u8, c as u8, 0, c as u8, 0, 0, 0, c as u8, 0]; emit(&b, out, r);
                b = vec![0, 1, 0, 0, 0, 6, 0x11, fc, (c >> 8) as u8, c as u8, 0, 0, c as u8, 0, 0, 0, c as u8, 0]; emit(&b, out, r);
            } }
            // CRC-valid / MBAP-valid frames carrying illegal PDUs
            for pdu in [vec![0x05u8, 0, 1, 0x12, 0x34], vec![0x83], vec![0x83, 0x07], vec![0x0F, 0, 0, 0, 8, 9], vec![0x10, 0, 0, 0, 2, 9, 1, 2], vec![0x01], vec![0x17, 0, 0, 0, 0, 0, 0, 0, 1, 200], vec![0x03, 0xFF]] {
                emit(&rtu_frame(1, &pdu), out, r);
                emit(&tcp_frame(1, 1, &pdu), out, r);
                let mut padded = pdu.clone(); padded.resize(5, 0);
                emit(&rtu_frame(1, &padded), out, r);
                emit(&tcp_frame(1, 1, &padded), out, r);
            }
            for _ in 0..scale(tier, 1200, 30000) { let b = malformed(r); emit(&b, out, r); }
        }
        "C08" => {
            for i in 0..scale(tier, 500, 12000) {
                let d = if r.bool() { Dir::Req } else { Dir::Rsp };
                let f = gen_frame(r, "rtu", d);
                let mut cases: Vec<Vec<u8>> = vec![f.clone()];
                // embedded in noise
                let mut e = r.rbytes(0, 6); e.extend(&f); e.extend(r.rbytes(0, 4)); cases.push(e);
                // corrupted: one CRC byte, one payload bit, swapped CRC bytes, shortened
                let mut c = f.clone(); let l = c.len(); c[l - 1] ^= 1 << r.below(8); cases.push(c);
                let mut c = f.clone(); c[l - 2] ^= 1 << r.below(8); cases.push(c);
                let mut c = f.clone(); let p = r.below(l * 8); c[p / 8] ^= 1 << (p % 8); cases.push(c);
                let mut c = f.clone(); c.swap(l - 1, l - 2); cases.push(c);
                let mut c = f.clone(); c.truncate(l - 1); cases.push(c);
                cases.push(r.rbytes(4, 30));
                for b in &cases {
                    let h = hex_of(b);
                    w!("rtuscan {} {h}", dname(d));
                    w!("rtudec {} {h}", dname(d));
                    let n = *r.pick(&[b.len().saturating_sub(3), f.len() - 3, b.len().saturating_sub(4), 5]);
                    w!("rtuext {n} {h}");
                    w!("#@ C08 snd {h}");
                }
                if i % 4 == 0 && f.len() <= 64 || i % 40 == 0 {
                    w!("#@ C08 {} {} {} {}", if tier == "thorough" && f.len() <= 24 { "fltfull" } else { "flt" }, dname(d), hex_of(&f), r.next() >> 1);
                }
            }
            // frames whose trailer is the CRC of the WRONG span (shorter, longer, shifted), including frames at and
            // beyond the 256-byte limit: a checksum computed over the wrong bytes must never be accepted
            for n in [5usize, 6, 40, 200, 250, 251, 252, 253, 254, 255, 256, 257] {
                for d in [Dir::Req, Dir::Rsp] {
                    let pdu: Vec<u8> = if d == Dir::Rsp {
                        if n < 3 || n > 257 { continue; }
                        let c = n - 2; let mut p = vec![0x03u8, c as u8]; p.extend(r.bytes(c)); p
                    } else {
                        if n < 6 || n > 261 { continue; }
                        let c = n - 6; let mut p = vec![0x10u8, 0, 1, 0, (c / 2) as u8, c as u8]; p.extend(r.bytes(c)); p
                    };
                    let mut adu = vec![r.u8()]; adu.extend(&pdu);
                    let l = adu.len();
                    let mut spans: Vec<(usize, usize)> = vec![(0, l), (0, l - 1), (0, l - 2), (1, l), (0, l.min(253)), (0, l.min(252)), (0, l.min(254)), (0, l.min(256)), (0, 1), (0, l / 2)];
                    spans.dedup();
                    // the CRC of a shorter span INSERTED right after that span (the announced length says the frame goes on)
                    for k in [l.min(254), l.min(253), l.min(252), l - 1, l / 2] {
                        if k < 2 || k >= l { continue; }
                        let mut g = adu[..k].to_vec(); g.extend(crc_wire(&adu[..k])); g.extend(&adu[k..]); g.extend([0u8, 0, 0]);
                        let h = hex_of(&g);
                        w!("rtuext {} {h}", n);
                        w!("rtuscan {} {h}", dname(d));
                        w!("rtudec {} {h}", dname(d));
                        w!("#@ C08 snd {h}");
                    }
                    for (a, b) in spans {
                        let c = crc_wire(&adu[a..b]);
                        let mut f = adu.clone(); f.extend(c);
                        for swap in [false, true] {
                            let mut g = f.clone();
                            if swap { let k = g.len(); g.swap(k - 1, k - 2); }
                            let h = hex_of(&g);
                            w!("rtuext {} {h}", n);
                            w!("rtuscan {} {h}", dname(d));
                            w!("rtudec {} {h}", dname(d));
                            w!("#@ C08 snd {h}");
                        }
                    }
                }
            }
            // long frames for the fault injection (up to 256 bytes)
            for n in [250usize, 251, 252, 253] {
                let mut p = vec![0x41u8]; p.extend(r.bytes(n - 1));
                let _ = p; // custom codes are not frameable; use a read response of matching size instead
                let c = n - 2;
                let mut p = vec![0x03u8, c as u8]; p.extend(r.bytes(c));
                w!("#@ C08 flt rsp {} {}", hex_of(&rtu_frame(r.u8(), &p)), r.next() >> 1);
            }
        }
        "C09" => {
            // PDU lengths at and beyond 65535, where `pdu_len + 1` no longer fits the 16-bit length field
            for (n, field, proto) in [(65534usize, 65535u32, 0u8), (65535, 0, 0), (65535, 65535, 0), (65536, 1, 0), (65536, 0, 0), (65538, 3, 0), (65538, 65535, 0),
                                      (65535, 0, 1), (65536, 1, 1), (65538, 3, 1), (65534, 65535, 1), (65535, 0, 2)] {
                let mut b = vec![0x12u8, 0x34, 0, proto, (field >> 8) as u8, field as u8, 0x09, 0x18, 0xFF, (n as u32 - 3) as u8];
                b.resize(7 + n, 0x5A);
                let h = hex_of(&b);
                w!("tcpext {n} {h}");
                w!("tcpscan rsp {h}");
                w!("tcpdec rsp {h}");
                w!("#@ C09 {h}");
            }
            for _ in 0..scale(tier, 700, 15000) {
                let d = if r.bool() { Dir::Req } else { Dir::Rsp };
                let f = gen_frame(r, "tcp", d);
                let n = f.len() - 7;
                let mut cases: Vec<Vec<u8>> = vec![f.clone()];
                for proto in [1u16, 0x100, 0x00FF, r.u16()] { let mut c = f.clone(); c[2] = (proto >> 8) as u8; c[3] = proto as u8; cases.push(c); }
                for delta in [-1i64, 1, 2, 256, -2] {
                    let mut c = f.clone(); let v = ((n + 1) as i64 + delta).max(0) as u16; c[4] = (v >> 8) as u8; c[5] = v as u8; cases.push(c);
                }
                let mut e = r.rbytes(0, 9); e.extend(&f); e.extend(r.rbytes(0, 9)); cases.push(e);
                let mut c = f.clone(); c.truncate(f.len() - 1); cases.push(c);
                cases.push(r.rbytes(7, 30));
                for b in &cases {
                    let h = hex_of(b);
                    w!("tcpscan {} {h}", dname(d));
                    w!("tcpdec {} {h}", dname(d));
                    let k = *r.pick(&[n, b.len().saturating_sub(7), n + 1, n.saturating_sub(1)]);
                    w!("tcpext {k} {h}");
                    w!("#@ C09 {h}");
                }
            }
        }
        "C09x" => {}

        "C10" => {
            // boundary header values (slave / unit id 0 and 255, transaction id 0 and 0xFFFF) and exception-range
            // PDUs whose second byte is not a defined exception code (they are still two-byte frames)
            for tr in ["rtu", "tcp"] { for id in [0u8, 1, 247, 255] { for (d, pdu) in [
                (Dir::Req, vec![0x03u8, 0, 1, 0, 2]), (Dir::Req, vec![0x17, 0, 1, 0, 2, 0, 3, 0, 1, 2, 0xAB, 0xCD]),
                (Dir::Rsp, vec![0x03, 2, 0xAB, 0xCD]), (Dir::Rsp, vec![0x05, 0, 1, 0xFF, 0]), (Dir::Rsp, vec![0x83, 0x02]), (Dir::Rsp, vec![0x83, 0x07]),
                (Dir::Rsp, vec![0x81, 0xFF]), (Dir::Rsp, vec![0xAB, 0x00]), (Dir::Rsp, vec![0x07, 0x5A]),
            ] {
                let tid = if id == 0 { 0 } else if id == 255 { 0xFFFF } else { 0x0102 };
                let f = if tr == "rtu" { rtu_frame(id, &pdu) } else { tcp_frame(tid, id, &pdu) };
                for k in 1..f.len() { w!("{tr}dec {} {}", dname(d), hex_of(&f[..k])); }
                w!("{tr}scan {} {}", dname(d), hex_of(&f)); w!("{tr}dec {} {}", dname(d), hex_of(&f));
                w!("#@ C10 {tr} {} {} -", dname(d), hex_of(&f));
                let mut two = f.clone(); two.extend(&f);
                w!("#@ C10 {tr} {} {} {}", dname(d), hex_of(&f), hex_of(&f));
                w!("{tr}dec {} {}", dname(d), hex_of(&two));
            } } }
            // frames whose count byte is the smallest / largest possible (empty and full payloads)
            for tr in ["rtu", "tcp"] { for (d, pdu) in [
                (Dir::Req, vec![0x0Fu8, 0, 1, 0, 0, 0]), (Dir::Req, vec![0x10, 0, 1, 0, 0, 0]), (Dir::Req, vec![0x17, 0, 1, 0, 2, 0, 3, 0, 0, 0]),
                (Dir::Rsp, vec![0x01, 0]), (Dir::Rsp, vec![0x03, 0]), (Dir::Rsp, vec![0x17, 0]), (Dir::Rsp, vec![0x0C, 0]), (Dir::Rsp, vec![0x18, 0, 0]),
            ] {
                let f = if tr == "rtu" { rtu_frame(0x11, &pdu) } else { tcp_frame(0x0102, 9, &pdu) };
                for k in 1..=f.len() { w!("{tr}scan {} {}", dname(d), hex_of(&f[..k])); w!("{tr}dec {} {}", dname(d), hex_of(&f[..k])); }
                for suffix in [vec![], vec![0x00u8], f.clone()] {
                    let mut ext = f.clone(); ext.extend(&suffix);
                    w!("{tr}scan {} {}", dname(d), hex_of(&ext));
                    w!("#@ C10 {tr} {} {} {}", dname(d), hex_of(&f), hex_of(&suffix));
                }
            } }
            // "appending any further bytes": suffixes that take the whole buffer just past 65 536 bytes (seed SJ2: a
            // completeness test computed in 16 bits sees a 65 542-byte buffer as a 6-byte one)
            for tr in ["rtu", "tcp"] { for d in [Dir::Req, Dir::Rsp] { for total in [65535usize, 65536, 65537, 65541, 65542, 65543, 65546, 131078] {
                let f = { let mut f = gen_frame(r, tr, d); while f.len() > 40 || f.len() < 8 { f = gen_frame(r, tr, d); } f };
                let suffix = r.bytes(total - f.len());
                let mut ext = f.clone(); ext.extend(&suffix);
                w!("{tr}scan {} {}", dname(d), hex_of(&ext));
                w!("{tr}dec {} {}", dname(d), hex_of(&ext));
                w!("#@ C10 {tr} {} {} {}", dname(d), hex_of(&f), hex_of(&suffix));
            } } }
            for _ in 0..scale(tier, 250, 6000) {
                for tr in ["rtu", "tcp"] {
                    for d in [Dir::Req, Dir::Rsp] {
                        let f = gen_frame(r, tr, d);
                        let suffix = match r.below(4) { 0 => vec![], 1 => r.bytes(1), 2 => gen_frame(r, tr, d), _ => r.rbytes(0, 20) };
                        // every prefix length: the quantifier the tests never reach
                        let step = if f.len() > 60 && tier != "thorough" { 1 + r.below(3) } else { 1 };
                        let mut k = 1;
                        while k <= f.len() {
                            w!("{tr}scan {} {}", dname(d), hex_of(&f[..k]));
                            if k <= 20 || k + 3 >= f.len() { w!("{tr}dec {} {}", dname(d), hex_of(&f[..k])); }
                            k += if k < 20 || k + 6 >= f.len() { 1 } else { step };
                        }
                        let mut ext = f.clone(); ext.extend(&suffix);
                        w!("{tr}scan {} {}", dname(d), hex_of(&ext));
                        w!("{tr}dec {} {}", dname(d), hex_of(&ext));
                        w!("#@ C10 {tr} {} {} {}", dname(d), hex_of(&f), hex_of(&suffix));
                    }
                }
            }
        }
        "C11" => {
            for i in 0..scale(tier, 300, 8000) {
                for tr in ["rtu", "tcp"] {
                    for d in [Dir::Req, Dir::Rsp] {
                        let nf = 1 + r.below(4);
                        let mut frames: Vec<Vec<u8>> = vec![];
                        for _ in 0..nf {
                            let mut f = gen_frame(r, tr, d);
                            while f.len() > 80 && r.below(4) != 0 { f = gen_frame(r, tr, d); }
                            frames.push(f);
                        }
                        let stream: Vec<u8> = frames.concat();
                        let n = stream.len();
                        // chunkings: byte-at-a-time, whole, frame boundaries +-1, random cuts (with empty pieces)
                        let mut cuts: Vec<usize> = match (i + r.below(2)) % 5 {
                            0 => (1..n).collect(),
                            1 => vec![],
                            2 => {
                                let mut c = vec![]; let mut acc = 0;
                                for f in &frames { acc += f.len(); for dlt in [-1i64, 0, 1] { let p = acc as i64 + dlt; if p > 0 && (p as usize) < n { c.push(p as usize); } } }
                                c
                            }
                            3 => { let k = 1 + r.below(6); (0..k).map(|_| r.below(n + 1)).collect() }
                            _ => { let k = r.below(n.min(30) + 1); (0..k).map(|_| r.below(n + 1)).collect() }
                        };
                        cuts.sort();
                        let mut chunks: Vec<&[u8]> = vec![]; let mut prev = 0;
                        for c in cuts { chunks.push(&stream[prev..c]); prev = c; }
                        chunks.push(&stream[prev..]);
                        let cs = chunks.iter().map(|c| hex_of(c)).collect::<Vec<_>>().join(",");
                        let fs = frames.iter().map(|c| hex_of(c)).collect::<Vec<_>>().join(",");
                        w!("recv {tr} {} {cs}", dname(d));
                        w!("#@ C11 {tr} {} {fs} {cs}", dname(d));
                    }
                }
            }
            // a long stream of short frames — more than 65 536 bytes pending when it arrives in one piece (seed SJ2);
            // evaluated by the oracle on the crate only (the model's receiver is quadratic in the pending length)
            for tr in ["rtu", "tcp"] { for d in [Dir::Req, Dir::Rsp] {
                let f = { let mut f = gen_frame(r, tr, d); while f.len() > 12 { f = gen_frame(r, tr, d); } f };
                let nf = 65544 / f.len() + 1;
                let fs = vec![hex_of(&f); nf].join(",");
                let stream: Vec<u8> = f.iter().cycle().take(nf * f.len()).cloned().collect();
                let n = stream.len();
                for cuts in [vec![], vec![n / 2 + 1], (1..n / 4096 + 1).map(|k| k * 4096).filter(|c| *c < n).collect::<Vec<usize>>()] {
                    let mut chunks: Vec<String> = vec![]; let mut prev = 0;
                    for c in cuts { chunks.push(hex_of(&stream[prev..c])); prev = c; }
                    chunks.push(hex_of(&stream[prev..]));
                    w!("#@ C11 {tr} {} {fs} {}", dname(d), chunks.join(","));
                }
            } }
            if tier == "thorough" {
                // all 2^(n-1) cuts of one short stream per transport and direction
                for tr in ["rtu", "tcp"] { for d in [Dir::Req, Dir::Rsp] {
                    let mut f = gen_frame(r, tr, d); while f.len() > 12 { f = gen_frame(r, tr, d); }
                    let n = f.len();
                    for mask in 0u32..(1 << (n - 1)) {
                        let mut chunks: Vec<String> = vec![]; let mut prev = 0;
                        for k in 1..n { if (mask >> (k - 1)) & 1 == 1 { chunks.push(hex_of(&f[prev..k])); prev = k; } }
                        chunks.push(hex_of(&f[prev..]));
                        w!("recv {tr} {} {}", dname(d), chunks.join(","));
                        w!("#@ C11 {tr} {} {} {}", dname(d), hex_of(&f), chunks.join(","));
                    }
                } }
            }
        }
        "C12" => {
            { let (cs, ds) = src_cases(r);
              let mut k = 0usize;
              for c in &cs { k += 1; if c.len() > 120 && k % 4 != 0 { continue; }
                  w!("#@ C12 req WMCS 4660 {c}"); w!("#@ C12 tcpreq WMCS 4660 {c}"); w!("#@ C12 rsp RCS {c}"); w!("#@ C12 rtursp RDIS {c}");
                  for l in [0usize, 5, 6, 7, 8, 9, 12, 300] { w!("reqenc WMCS 4660 {c} {l} D7"); w!("rspenc RCS {c} {l} D7"); } }
              for d in &ds { k += 1; if d.len() > 120 && k % 4 != 0 { continue; }
                  w!("#@ C12 req WMRS 7 {d}"); w!("#@ C12 rtureq RWMS 1 2 3 {d}"); w!("#@ C12 rsp RHRS {d}"); w!("#@ C12 tcprsp RWMS {d}");
                  for l in [0usize, 1, 2, 6, 10, 11, 12, 300] { w!("reqenc WMRS 7 {d} {l} D7"); w!("rspenc RIRS {d} {l} D7"); } } }
            // PDUs at the capacity of the 16-bit MBAP length field
            for n in [65533usize, 65534, 65535] { w!("#@ C12 tcplen req {n}"); w!("#@ C12 tcplen rsp {n}"); }
            for _ in 0..scale(tier, 500, 10000) {
                let (m, s) = gen_req(r, false);
                let pl = req_bytes(&m).len();
                let big = pl > 60;
                w!("reqlen {s}");
                for (kind, op, size) in [("req", "reqenc".to_string(), pl), ("req", "rpduenc".to_string(), pl), ("rtureq", "rtuenc req 17".to_string(), pl + 3), ("tcpreq", "tcpenc req 4660 9".to_string(), pl + 7)] {
                    let lens: Vec<usize> = if big { vec![0, 1, 2, 6, 7, 8, size - 2, size - 1, size, size + 1, size + 3] } else { (0..=size + 3).collect() };
                    for l in lens { w!("{op} {s} {l} {}", if r.bool() { "00" } else { "D7" }); }
                    if op != "rpduenc" { w!("#@ C12 {kind} {s}"); }
                }
                let (m, s) = gen_rsp(r, false);
                let pl = crate_rsp_len(&m);
                let big = pl > 60;
                if !matches!(m, RspM::Exc(..)) { w!("rsplen {s}"); }
                let direct = if let RspM::Exc(..) = m { "excenc" } else { "rspenc" };
                for (kind, op, size) in [("rsp", "pduenc".to_string(), pl), ("rsp", direct.to_string(), pl), ("rtursp", "rtuenc rsp 17".to_string(), pl + 3), ("tcprsp", "tcpenc rsp 4660 9".to_string(), pl + 7)] {
                    let lens: Vec<usize> = if big { vec![0, 1, 2, 6, 7, 8, size - 2, size - 1, size, size + 1, size + 3] } else { (0..=size + 3).collect() };
                    for l in lens { w!("{op} {s} {l} {}", if r.bool() { "00" } else { "D7" }); }
                    if op != direct { w!("#@ C12 {kind} {s}"); }
                }
            }
        }
        "C13" => {
            let emit = |kind: &str, pdu: &[u8], out: &mut dyn Write, r: &mut Rng| {
                let h = hex_of(pdu);
                if kind == "req" { writeln!(out, "requse {h}").unwrap(); } else { writeln!(out, "rspuse {h}").unwrap(); }
                writeln!(out, "#@ C13 {kind} {h}").unwrap();
                if r.below(6) == 0 && pdu.len() <= 253 {
                    let fr = rtu_frame(r.u8(), pdu); let ft = tcp_frame(r.u16(), r.u8(), pdu);
                    writeln!(out, "rtudec {kind} {}", hex_of(&fr)).unwrap();
                    writeln!(out, "tcpdec {kind} {}", hex_of(&ft)).unwrap();
                    writeln!(out, "#@ C13 rtu{kind} {}", hex_of(&fr)).unwrap();
                    writeln!(out, "#@ C13 tcp{kind} {}", hex_of(&ft)).unwrap();
                }
            };
            // quantity and byte-count fields corrupted independently
            for fc in [0x0Fu8, 0x10] {
                for q in [0u16, 1, 2, 4, 7, 8, 9, 16, 17, 255, 256, 2040, 0xFFFF] {
                    for bc in [0u8, 1, 2, 3, 4, 17, 254, 255] {
                        for extra in [0usize, 1, 5] {
                            let mut p = vec![fc, 0x33, 0x11, (q >> 8) as u8, q as u8, bc];
                            p.extend(r.bytes(bc as usize + extra));
                            if q == 0xFFFF && extra > 0 { continue; }
                            emit("req", &p, out, r);
                        }
                    }
                }
            }
            // coil quantities no one-byte count can describe, with enough data bytes behind them (only reachable
            // through Request::try_from directly: an ADU PDU is cut at the byte count)
            for (q, bc, nd) in [(2041u16, 255u8, 256usize), (2048, 255, 256), (2048, 0, 256), (2047, 255, 256), (4000, 1, 500), (0xFFFF, 0, 8192), (0xFFFF, 255, 8192), (2040, 255, 255), (2040, 255, 256)] {
                let mut p = vec![0x0Fu8, 0, 0, (q >> 8) as u8, q as u8, bc]; p.extend(r.bytes(nd));
                emit("req", &p, out, r);
            }
            // quantities whose doubling wraps in 16 bits (2*q mod 65536 equals the byte count)
            for k in [0u16, 1, 2, 0x7F] { for fc in [0x10u8, 0x17] {
                let q = 0x8000u16 + k; let bc = (2 * k) as u8;
                let mut p = if fc == 0x10 { vec![0x10, 0, 1, (q >> 8) as u8, q as u8, bc] } else { vec![0x17, 0, 1, 0, 2, 0, 3, (q >> 8) as u8, q as u8, bc] };
                p.extend(r.bytes(bc as usize));
                emit("req", &p, out, r);
            } }
            for q in [0u16, 1, 2, 127, 128, 0xFFFF] { for bc in [0u8, 1, 2, 4, 254, 255] {
                let mut p = vec![0x17, 0, 1, 0, 2, 0, 3, (q >> 8) as u8, q as u8, bc]; p.extend(r.rbytes(bc as usize, 3));
                emit("req", &p, out, r);
            } }
            for fc in [1u8, 2, 3, 4, 0x17] { for bc in [0u8, 1, 2, 3, 4, 5, 250, 251, 254, 255] { for extra in [0usize, 1, 7] {
                let mut p = vec![fc, bc]; p.extend(r.bytes(bc as usize + extra)); emit("rsp", &p, out, r);
            } } }
            for _ in 0..scale(tier, 1500, 40000) {
                if r.bool() {
                    let mut p = req_bytes(&gen_req(r, false).0);
                    if r.below(3) != 0 && p.len() > 3 { let i = 3 + r.below((p.len() - 3).min(8)); p[i] = match r.below(4) { 0 => 0, 1 => p[i].wrapping_add(1), 2 => p[i].wrapping_sub(1), _ => r.u8() }; }
                    if r.below(6) == 0 { p.extend(r.rbytes(1, 4)); }
                    emit("req", &p, out, r);
                } else {
                    let mut p = rsp_bytes(&gen_rsp(r, false).0);
                    if r.below(3) != 0 && p.len() > 1 { let i = 1 + r.below((p.len() - 1).min(4)); p[i] = match r.below(4) { 0 => 0, 1 => p[i].wrapping_add(1), 2 => p[i].wrapping_sub(1), _ => r.u8() }; }
                    if r.below(6) == 0 { p.extend(r.rbytes(1, 4)); }
                    emit("rsp", &p, out, r);
                }
            }
        }
        "C14" => {
            let noise_lens: Vec<usize> = if tier == "thorough" { (0..=300).collect() } else { vec![0, 1, 2, 3, 10, 100, 200, 250, 251, 252, 253, 254, 255, 256, 257, 258, 259, 260, 299, 300] };
            for _ in 0..scale(tier, 6, 40) {
                for tr in ["rtu", "tcp"] { for d in [Dir::Req, Dir::Rsp] { for nl in &noise_lens {
                    let f = { let mut f = gen_frame(r, tr, d); while f.len() > 40 { f = gen_frame(r, tr, d); } f };
                    let noise: Vec<u8> = match r.below(4) {
                        0 => vec![0x42; *nl],
                        1 => vec![*r.pick(&[0x00u8, 0xFF, 0x99, 0xEE]); *nl],
                        2 => r.bytes(*nl),
                        _ => { // frame-like: a valid frame with a broken CRC / protocol id, repeated
                            let mut g = gen_frame(r, tr, d); let l = g.len(); if tr == "rtu" { g[l - 1] ^= 0x5A; } else { g[3] = 1; }
                            g.iter().cycle().take(*nl).cloned().collect()
                        }
                    };
                    let rest = if r.bool() { vec![] } else { r.rbytes(0, 12) };
                    let mut buf = noise.clone(); buf.extend(&f); buf.extend(&rest);
                    w!("{tr}scan {} {}", dname(d), hex_of(&buf));
                    w!("#@ C14 {tr} {} {} {} {}", dname(d), hex_of(&noise), hex_of(&f), hex_of(&rest));
                } } }
            }
            // a few stray bytes, then a complete MBAP frame whose own length field, read two bytes early, looks like
            // a function code with a long payload: the stray candidate's header is refutable at once (protocol id / length)
            for stray in [1usize, 2, 3, 4, 7, 100, 255] { for v in [0x42u8, 0xEE, 0xFF] { for (d, tid, uid, pdu) in [
                (Dir::Rsp, 1u16, 0x11u8, vec![0x83u8, 0x02]), (Dir::Rsp, 0x1234, 0x20, vec![0x01, 0x01, 0x05]), (Dir::Rsp, 0x4242, 0xF0, vec![0x07, 0x5A]),
                (Dir::Req, 0x0102, 0x09, { let mut p = vec![0x10u8, 0, 1, 0, 8, 16]; p.extend([0xF0u8; 16]); p }), (Dir::Req, 7, 0x42, vec![0x03, 0, 1, 0, 2]),
            ] {
                let f = tcp_frame(tid, uid, &pdu); let noise = vec![v; stray];
                let mut buf = noise.clone(); buf.extend(&f);
                w!("tcpscan {} {}", dname(d), hex_of(&buf)); w!("tcpdec {} {}", dname(d), hex_of(&buf));
                w!("#@ C14 tcp {} {} {} -", dname(d), hex_of(&noise), hex_of(&f));
            } } }
            // a truncated, plausible MBAP header in front of a good frame: protocol id 0, a function code with a long
            // announced payload, and a length field that agrees with the predicted length in ONE byte only (seed SH7:
            // a header check that looks at the low byte alone waits for ever for the announced end)
            for hi in [0x01u8, 0x80, 0xFF] { for lowdamage in [false, true] { for (d, head) in [
                (Dir::Rsp, vec![0x03u8, 0xF0]), (Dir::Rsp, vec![0x01, 0xC8]), (Dir::Rsp, vec![0x17, 0x7E]),
                (Dir::Req, vec![0x10u8, 0, 1, 0, 0x78, 0xF0]), (Dir::Req, vec![0x0F, 0, 1, 0x07, 0x80, 0xF0]),
            ] {
                let p = if d == Dir::Rsp { 2 + head[1] as usize } else { 6 + head[5] as usize };
                let (lh, ll) = if lowdamage { ((((p + 1) >> 8) as u8), ((p + 1) as u8) ^ hi) } else { (hi, (p + 1) as u8) };
                let mut noise = vec![0x00u8, 0x07, 0x00, 0x00, lh, ll, 0x11]; noise.extend(&head);
                let f = { let mut f = gen_frame(r, "tcp", d); while f.len() > 40 { f = gen_frame(r, "tcp", d); } f };
                for rest in [vec![], r.rbytes(1, 12)] {
                    let mut buf = noise.clone(); buf.extend(&f); buf.extend(&rest);
                    w!("tcpscan {} {}", dname(d), hex_of(&buf)); w!("tcpdec {} {}", dname(d), hex_of(&buf));
                    w!("#@ C14 tcp {} {} {} {}", dname(d), hex_of(&noise), hex_of(&f), if rest.is_empty() { "-".to_string() } else { hex_of(&rest) });
                }
            } } }
            // garbage whose candidate at offset 0 announces a long frame although its MBAP header is visibly not Modbus
            for n in [20usize, 263, 300] { let mut b = vec![0xFFu8; n]; b[7] = 0x01; w!("tcpscan rsp {}", hex_of(&b)); w!("#@ C14 tcp rsp {} - -", hex_of(&b)); }
            // pure garbage of every length around the give-up threshold
            for tr in ["rtu", "tcp"] { for d in [Dir::Req, Dir::Rsp] { for n in [1usize, 2, 10, 254, 255, 256, 257, 258, 300, 600] { for v in [0x42u8, 0x00, 0x99] {
                let b = vec![v; n];
                w!("{tr}scan {} {}", dname(d), hex_of(&b));
                w!("#@ C14 {tr} {} {} - -", dname(d), hex_of(&b));
            } } } }
        }
        "C15" => {
            // all function codes x buffer lengths 0..=24 x count values at every candidate position
            let counts: Vec<u8> = if tier == "thorough" { (0..=255).collect() } else { vec![0, 1, 2, 5, 99, 127, 128, 200, 254, 255] };
            for fc in 0..=255u8 {
                for len in 0..=24usize {
                    let reps = if [0x0F, 0x10, 0x17, 0x18, 0x01, 0x02, 0x03, 0x04, 0x0C].contains(&fc) { counts.len() } else { 1 };
                    for k in 0..reps {
                        let mut b = r.bytes(len);
                        let c = counts[k % counts.len()];
                        for pos in [1usize, 7] { if len > pos { b[pos] = fc; } }
                        // put the count at each position a predictor could look at
                        for pos in [2usize, 4, 6, 8, 10, 12, 16] { if len > pos && r.below(3) != 0 { b[pos] = c; } }
                        if len > 3 && r.bool() { b[3] = counts[(k * 7 + 3) % counts.len()]; }
                        if len > 9 && r.bool() { b[9] = counts[(k * 5 + 1) % counts.len()]; }
                        let h = hex_of(&b);
                        w!("rtulen req {h}"); w!("rtulen rsp {h}"); w!("tcplen req {h}"); w!("tcplen rsp {h}");
                        if k % 4 == 0 { w!("speclen req 1 {h}"); w!("speclen rsp 1 {h}"); w!("speclen req 7 {h}"); w!("speclen rsp 7 {h}"); }
                        w!("#@ C15 {h} {}", r.next() >> 1);
                    }
                }
            }
            // the two-byte count of function 0x18 at its extremes, at the RTU and TCP positions
            for c in [0u16, 1, 0x00FF, 0x0100, 0x7FFF, 0x8000, 0xFF00, 0xFFFC, 0xFFFD, 0xFFFE, 0xFFFF] {
                for len in [3usize, 4, 5, 9, 10, 11, 14] {
                    let mut b = r.bytes(len);
                    for pos in [1usize, 7] { if len > pos { b[pos] = 0x18; } }
                    for pos in [2usize, 8] { if len > pos + 1 { b[pos] = (c >> 8) as u8; b[pos + 1] = c as u8; } }
                    let h = hex_of(&b);
                    w!("rtulen req {h}"); w!("rtulen rsp {h}"); w!("tcplen req {h}"); w!("tcplen rsp {h}");
                    w!("#@ C15 {h} {}", r.next() >> 1);
                }
            }
            // real frames with non-zero neighbouring fields
            for _ in 0..scale(tier, 400, 8000) {
                for tr in ["rtu", "tcp"] { for d in [Dir::Req, Dir::Rsp] {
                    let f = gen_frame(r, tr, d); let k = r.below(f.len() + 1).max(2).min(f.len());
                    let h = hex_of(&f[..k]);
                    w!("{tr}len {} {h}", dname(d));
                    w!("#@ C15 {h} {}", r.next() >> 1);
                } }
            }
        }
        "C16" => {
            let emit = |b: &[bool], t: usize, f: &str, out: &mut dyn Write| {
                let n = b.len();
                let bs = bits_str(b);
                writeln!(out, "pack {bs} {t} {f}").unwrap();
                if t % 3 == 0 { writeln!(out, "specpack {bs}").unwrap(); }
                writeln!(out, "frombools {bs} {t} {f} 0,1,{},{},{},{},65535,65536,{},{},{},{},4294967296,{},2305843009213693952,{},4611686018427387904,9223372036854775807,9223372036854775808,{},18446744073709551614,18446744073709551615", n.saturating_sub(1), n, n + 1, n + 8, 65536 + n, 256 + n.saturating_sub(1), 65536 + n.saturating_sub(1), 131072 + n.saturating_sub(1), 4294967296usize + n.saturating_sub(1), 2305843009213693952usize + n.saturating_sub(1), 9223372036854775808usize + n.saturating_sub(1)).unwrap();
                writeln!(out, "#@ C16 {bs} {t} {f}").unwrap();
            };
            // exhaustive: all boolean sequences of length 1..=L into clean, dirty and patterned targets
            let lmax = if tier == "thorough" { 16 } else { 10 };
            for n in 0..=lmax { for v in 0u32..(1 << n) {
                let b: Vec<bool> = (0..n).map(|i| (v >> i) & 1 == 1).collect();
                let need = (n + 7) / 8;
                for (t, f) in [(need, "00"), (need, "FF"), (need + 1, "B7r")] { emit(&b, t, f, out); }
            } }
            for n in 1..=40usize { for t in [((n + 7) / 8).saturating_sub(1), (n + 7) / 8, (n + 7) / 8 + 2] { let b = bits(r, n); emit(&b, t, &fill_tok(r), out); } }
            for n in [63usize, 64, 65, 127, 128, 129, 255, 256, 257, 1023, 1024, 2039, 2040, 2041, 2047, 2048, 2049, 4000] {
                let b = bits(r, n); let need = (n + 7) / 8;
                for t in [need - 1, need, need + 3] { emit(&b, t, &fill_tok(r), out); }
            }
            // beyond 65535 coils
            let huge: Vec<usize> = if tier == "thorough" { vec![65535, 65536, 65537, 70000, 131071, 131072, 262145] } else { vec![65535, 65536, 65537, 70000] };
            for n in huge {
                // never a constant vector here: an index that wraps at 2^16 is invisible on constant coils
                let b: Vec<bool> = (0..n).map(|i| r.bool() ^ (i >= 65536 && i % 7 == 0)).collect(); let need = (n + 7) / 8;
                let ts: Vec<usize> = vec![need - 1, need, need + 3];
                for t in ts { emit(&b, t, &fill_tok(r), out); }
            }
            for _ in 0..scale(tier, 300, 6000) { let n = coil_count(r); let b = bits(r, n); let t = target_len(r, (n + 7) / 8); emit(&b, t, &fill_tok(r), out); }
            // unpack: source / output lengths around the requirement
            for _ in 0..scale(tier, 600, 10000) {
                let c = match r.below(3) { 0 => r.below(20), 1 => coil_count(r), _ => *r.pick(&[0usize, 8, 9, 2040, 65535]) };
                let need = (c + 7) / 8;
                let sl = (need as i64 + *r.pick(&[-2i64, -1, 0, 0, 0, 1, 5])).max(0) as usize;
                let ol = (c as i64 + *r.pick(&[-1i64, 0, 0, 0, 1, 8])).max(0) as usize;
                let src = if r.below(3) == 0 { let mut v = r.bytes(sl); for x in v.iter_mut() { if r.bool() { *x = 0; } } v } else { r.bytes(sl) };
                w!("unpack {} {c} {ol}{}", hex_of(&src), if r.bool() { " T" } else { "" });
            }
            for n in [0usize, 1, 7, 8, 9, 65535, 65536, 1 << 40, usize::MAX - 8, usize::MAX - 7, usize::MAX - 6, usize::MAX - 1, usize::MAX] { w!("packedlen {n}"); }
        }
        "C17" => {
            let emit = |ws: &[u16], t: usize, f: &str, out: &mut dyn Write, r: &mut Rng| {
                let n = ws.len();
                let s = words_str(ws);
                writeln!(out, "fromwords {s} {t} {f} 0,1,{},{},{},255,256,{},65536,{},4294967296,{},4611686018427387904,9223372036854775807,9223372036854775808,{},18446744073709551614,18446744073709551615", n.saturating_sub(1), n, n + 1, 256 + n, 65536 + n.saturating_sub(1), 4294967296usize + n.saturating_sub(1), 9223372036854775808usize + n.saturating_sub(1)).unwrap();
                writeln!(out, "#@ C17 {s} {t} {f}").unwrap();
                if n >= 1 && 2 * n <= 255 && t >= 2 * n {
                    let a = r.addr();
                    writeln!(out, "reqenc WMR {a} {s} {t} {f} {} 00", 6 + 2 * n + 2).unwrap();
                    writeln!(out, "reqenc RWM 1 2 {a} {s} {t} {f} {} 00", 10 + 2 * n + 2).unwrap();
                    writeln!(out, "rspenc RHR {s} {t} {f} {} 00", 2 + 2 * n + 2).unwrap();
                    writeln!(out, "fcof req WMR {a} {s} {t} {f}").unwrap();
                }
            };
            for n in (0..=130usize).chain([255, 256, 257, 300, 1000]) {
                let ws = words(r, n);
                for t in [(2 * n).saturating_sub(1), 2 * n, 2 * n + 1, 2 * n + 9, 4 * n + 2] { let f = fill_tok(r); emit(&ws, t, &f, out, r); }
            }
            for _ in 0..scale(tier, 300, 8000) { let n = word_count(r); let ws = words(r, n); let t = target_len(r, 2 * n); let f = fill_tok(r); emit(&ws, t, &f, out, r); }
        }
        "C18" => {
            for b in 0..=255u32 { w!("fcnew {b}"); w!("fcval C{b:02X}"); w!("fcval N{b:02X}"); w!("exctry {b}"); }
            for v in 0..=65535u32 { w!("c2b {v}"); }
            w!("b2c 0"); w!("b2c 1");
            w!("#@ C18 tables");
            for s in ["RC 1 2", "RDI 1 2", "RIR 1 2", "RHR 1 2", "WSR 1 2", "WSC 1 1", "WMC 1 B101 1 00", "WMR 1 W0001 2 00", "RWM 1 2 3 W0001 2 00", "RES", "DIA 1 W0001 2 00", "GCC", "GCL", "RSI"] {
                w!("fcof req {s}"); w!("#@ C18 req {s}");
            }
            for s in ["RC B101 1 00", "RDI B101 1 00", "WSC 1", "WMC 1 2", "RIR W0001 2 00", "RHR W0001 2 00", "WSR 1 2", "WMR 1 2", "RWM W0001 2 00", "RES 5", "DIA W0001 2 00", "GCC 1 2", "GCL 1 2 3 0102", "RSI 0102 1"] {
                w!("fcof rsp {s}"); w!("#@ C18 rsp {s}");
            }
            for b in 0..=255u32 { for k in ["N", "C"] {
                w!("fcof req CUS {k}{b:02X} 01"); w!("fcof rsp CUS {k}{b:02X} 01");
                w!("#@ C18 req CUS {k}{b:02X} 01"); w!("#@ C18 rsp CUS {k}{b:02X} 01");
            } }
        }
        "C19" => {
            // the serial-line-only kinds (open finding D19: pdu_len / encode are todo!() / unimplemented!())
            for sp in ["RES", "DIA 1 W0001,0002 4 00", "GCC", "GCL", "RSI"] { w!("reqenc {sp} 16 A5"); w!("#@ C19 req {sp}"); }
            for sp in ["DIA W0001,0002 4 00", "GCC 1 2", "GCL 1 2 3 0102", "RSI 0102 1"] { w!("rspenc {sp} 16 A5"); w!("#@ C19 rsp {sp}"); }
            // a `Data` taken from a DECODED register response (possibly with a dangling odd byte) reused in a request
            for bc in [1usize, 2, 3, 5, 9, 253, 255] { for fc in [3u8, 4, 0x17] {
                let mut p = vec![fc, bc as u8]; p.extend(r.bytes(bc));
                let h = hex_of(&p);
                w!("reqenc WMRX 7 {h} 300 A5"); w!("#@ C19 req WMRX 7 {h}");
                w!("reqenc RWMX 1 2 3 {h} 300 A5"); w!("#@ C19 req RWMX 1 2 3 {h}");
            } }
            // containers taken from ANY decoded PDU (P = response bytes, Q = request bytes) placed in any variant
            for bc in [0usize, 1, 2, 3, 31, 250, 254, 255] { for fc in [1u8, 2] {
                let mut p = vec![fc, bc as u8]; p.extend(r.bytes(bc)); let h = hex_of(&p);
                w!("reqenc WMCS 7 P{h} 300 A5"); w!("#@ C19 req WMCS 7 P{h}");
                w!("rspenc RCS P{h} 300 A5"); w!("#@ C19 rsp RCS P{h}");
                w!("rspenc RDIS P{h} 300 A5"); w!("#@ C19 rsp RDIS P{h}");
            } }
            for q in [0usize, 1, 3, 7, 8, 9, 16, 17, 1999, 2000, 2033, 2040] { for extra in [0usize, 1, 2] { for dirty in [false, true] {
                let need = (q + 7) / 8; let bc = need + extra;
                if bc > 255 { continue; }
                let mut d = r.bytes(bc);
                if !dirty && q % 8 != 0 { d[need - 1] &= (1u8 << (q % 8)) - 1; }
                let mut p = vec![0x0Fu8, 0x12, 0x34, (q / 256) as u8, (q % 256) as u8, bc as u8]; p.extend(d); let h = hex_of(&p);
                w!("reqenc WMCS 7 Q{h} 300 A5"); w!("rspenc RCS Q{h} 300 A5"); w!("rspenc RDIS Q{h} 300 A5");
                w!("#@ C19 req WMCS 7 Q{h}"); w!("#@ C19 rsp RCS Q{h}"); w!("#@ C19 rsp RDIS Q{h}");
            } } }
            // coils decoded from a request whose data is SHORTER than its quantity needs (open finding D5b region), reused
            for (q, bc) in [(4usize, 0usize), (9, 1), (17, 1)] {
                let mut p = vec![0x0Fu8, 0, 1, 0, q as u8, bc as u8]; p.extend(r.bytes(bc)); let h = hex_of(&p);
                w!("reqenc WMCS 7 Q{h} 300 A5"); w!("rspenc RCS Q{h} 300 A5");
            }
            for q in [0usize, 1, 2, 3, 100, 125, 126, 127] { for fc in [0x10u8, 0x17] {
                let mut p = vec![fc]; if fc == 0x17 { p.extend([0, 9, 0, 2]); }
                p.extend([0x12, 0x34, 0, q as u8, (2 * q) as u8]); p.extend(r.bytes(2 * q)); let h = hex_of(&p);
                w!("reqenc WMRS 7 Q{h} 300 A5"); w!("#@ C19 req WMRS 7 Q{h}");
                w!("reqenc RWMS 1 2 3 Q{h} 300 A5"); w!("#@ C19 req RWMS 1 2 3 Q{h}");
                for k in ["RHRS", "RIRS", "RWMS"] { w!("rspenc {k} Q{h} 300 A5"); w!("#@ C19 rsp {k} Q{h}"); }
            } }
            for bc in [0usize, 1, 2, 3, 4, 5, 253, 254, 255] { for fc in [3u8, 4, 0x17] {
                let mut p = vec![fc, bc as u8]; p.extend(r.bytes(bc)); let h = hex_of(&p);
                for k in ["RHRS", "RIRS", "RWMS"] { w!("rspenc {k} P{h} 300 A5"); w!("#@ C19 rsp {k} P{h}"); }
                w!("reqenc WMRS 7 P{h} 300 A5"); w!("#@ C19 req WMRS 7 P{h}");
            } }
            let wsizes: Vec<usize> = (120..=135usize).chain([136, 150, 200, 255, 256, 257, 300, 1000]).chain(if tier == "thorough" { (136..=300).collect::<Vec<_>>() } else { vec![] }).chain([32767, 32768, 65535, 65536, 70000]).collect();
            for n in wsizes {
                let ws = words(r, n); let s = words_str(&ws);
                let l = 2 * n + 16;
                w!("reqenc WMR 7 {s} {} 00 {l} 00", 2 * n); w!("#@ C19 req WMR 7 {s} {} 00", 2 * n);
                w!("reqenc RWM 1 2 3 {s} {} 00 {l} 00", 2 * n); w!("#@ C19 req RWM 1 2 3 {s} {} 00", 2 * n);
                for k in ["RHR", "RIR", "RWM"] { w!("rspenc {k} {s} {} 00 {l} 00", 2 * n); w!("#@ C19 rsp {k} {s} {} 00", 2 * n); }
            }
            let csizes: Vec<usize> = (1960..=1976usize).chain(2030..=2060).chain([2100, 4000, 4088, 4096, 4097]).chain(if tier == "thorough" { (1977..=2100).collect::<Vec<_>>() } else { vec![] }).chain([65535, 65536, 65537, 70000]).collect();
            for n in csizes {
                let b = bits(r, n); let s = bits_str(&b); let need = (n + 7) / 8;
                let l = need + 16;
                w!("reqenc WMC 7 {s} {need} 00 {l} 00"); w!("#@ C19 req WMC 7 {s} {need} 00");
                for k in ["RC", "RDI"] { w!("rspenc {k} {s} {need} 00 {l} 00"); w!("#@ C19 rsp {k} {s} {need} 00"); }
            }
        }
        _ => {}
    }
}

//! mbharness: drives the real modbus-core crate through the line protocol (DESIGN.md §3.1)
mod ops;
mod spec;
mod util;
mod refimpl;
mod oracle;
mod gen;

use std::io::{BufRead, BufWriter, Write};

/// A logger that formats every record and throws it away: with a logger installed the crate's
/// `log::warn!/error!` arguments are actually evaluated (a panic hidden in one would otherwise go unseen).
struct Sink;
impl log::Log for Sink {
    fn enabled(&self, _: &log::Metadata) -> bool {
        true
    }
    fn log(&self, record: &log::Record) {
        let s = format!("{}", record.args());
        std::hint::black_box(s);
    }
    fn flush(&self) {}
}
static SINK: Sink = Sink;

fn main() {
    std::panic::set_hook(Box::new(|_| {}));
    let _ = log::set_logger(&SINK);
    log::set_max_level(log::LevelFilter::Trace);
    let args: Vec<String> = std::env::args().collect();
    let stdout = std::io::stdout();
    let mut out = BufWriter::new(stdout.lock());
    match args.get(1).map(|s| s.as_str()) {
        // run: one canonical result line per op line on stdin
        Some("run") => {
            let stdin = std::io::stdin();
            for line in stdin.lock().lines() {
                let line = line.expect("read");
                writeln!(out, "{}", ops::run_line(&line)).unwrap();
            }
        }
        // oracle: evaluates the `#@` property lines on the real crate
        Some("oracle") => {
            let stdin = std::io::stdin();
            for line in stdin.lock().lines() {
                let line = line.expect("read");
                writeln!(out, "{}", oracle::oracle_line(&line)).unwrap();
            }
        }
        // gen <property> <tier> <seed>: writes an ops file to stdout
        Some("gen") => {
            let prop = args.get(2).expect("property");
            let tier = args.get(3).map(|s| s.as_str()).unwrap_or("quick");
            let seed: u64 = args.get(4).and_then(|s| s.parse().ok()).unwrap_or(1);
            gen::generate(prop, tier, seed, &mut out);
        }
        _ => {
            eprintln!("usage: mbharness run|oracle|gen <property> <tier> <seed>");
            std::process::exit(2);
        }
    }
}

//! Property oracles: evaluate the *statement* of a property on the real crate for one case.
//! They are the search for a concrete failing input; they never decide that a property holds.
//! Input lines start with `#@ <property> ...`; output is `PASS`, `NA <why>` or
//! `FAIL class=<finding class or -> <what failed>`.
use crate::ops::*;
use crate::refimpl::*;
use crate::spec::*;
use crate::util::*;
use modbus_core::*;

type V = Result<(), String>;

fn fail(class: &str, msg: String) -> String {
    format!("FAIL class={class} {msg}")
}

fn verdict(class: &str, r: V) -> String {
    match r {
        Ok(()) => "PASS".into(),
        Err(m) => fail(class, m),
    }
}

/* ---------- meanings ---------- */

const MODELLED_REQ: [u8; 9] = [1, 2, 3, 4, 5, 6, 0x0F, 0x10, 0x17];

pub fn req_meaning(s: &ReqSpec) -> Option<ReqM> {
    Some(match s {
        ReqSpec::Simple(n, a, q) => ReqM::Simple(
            match *n {
                "RC" => 1,
                "RDI" => 2,
                "RHR" => 3,
                "RIR" => 4,
                _ => 6,
            },
            *a,
            *q,
        ),
        ReqSpec::Wsc(a, c) => ReqM::Wsc(*a, *c),
        ReqSpec::Wmc(a, b, _, _) => ReqM::Wmc(*a, b.clone()),
        ReqSpec::Wmr(a, w, _, _) => ReqM::Wmr(*a, w.clone()),
        ReqSpec::Rwm(ra, rq, wa, w, _, _) => ReqM::Rwm(*ra, *rq, *wa, w.clone()),
        ReqSpec::Cus(_, b, d) => ReqM::Custom(*b, d.clone()),
        ReqSpec::WmrX(a, b) => match ref_rsp_decode(b)? {
            RspM::Regs(_, w) => ReqM::Wmr(*a, w),
            _ => return None,
        },
        ReqSpec::RwmX(ra, rq, wa, b) => match ref_rsp_decode(b)? {
            RspM::Regs(_, w) => ReqM::Rwm(*ra, *rq, *wa, w),
            _ => return None,
        },
        ReqSpec::WmcS(a, s) => ReqM::Wmc(*a, ref_src_bits(s)?),
        ReqSpec::WmrS(a, s) => ReqM::Wmr(*a, ref_src_words(s)?),
        ReqSpec::RwmS(ra, rq, wa, s) => ReqM::Rwm(*ra, *rq, *wa, ref_src_words(s)?),
        _ => return None,
    })
}

/// reference decoding of a response PDU (register and coil reads only): what the bytes mean by the specification
fn ref_rsp_decode(b: &[u8]) -> Option<RspM> {
    if b.len() < 2 {
        return None;
    }
    let bc = b[1] as usize;
    if b.len() < 2 + bc {
        return None;
    }
    let d = &b[2..2 + bc];
    match b[0] {
        1 | 2 => Some(RspM::Coils(b[0], (0..bc * 8).map(|i| (d[i / 8] >> (i % 8)) & 1 == 1).collect())),
        3 | 4 | 0x17 => Some(RspM::Regs(b[0], (0..bc / 2).map(|i| (d[2 * i] as u16) * 256 + d[2 * i + 1] as u16).collect())),
        _ => None,
    }
}

/// reference reading of a container source: the coils / words the specification says the PDU carries
/// (requests: the first `quantity` bits of the data; `None` when the fields are inconsistent)
fn ref_src_bits(s: &Src) -> Option<Vec<bool>> {
    let b = &s.1;
    if s.0 == 'P' {
        match ref_rsp_decode(b)? {
            RspM::Coils(_, bits) => Some(bits),
            _ => None,
        }
    } else {
        if b.len() < 6 || b[0] != 0x0F {
            return None;
        }
        let q = (b[3] as usize) * 256 + b[4] as usize;
        let bc = b[5] as usize;
        if b.len() < 6 + bc || bc < (q + 7) / 8 {
            return None;
        }
        Some((0..q).map(|i| (b[6 + i / 8] >> (i % 8)) & 1 == 1).collect())
    }
}

fn ref_src_words(s: &Src) -> Option<Vec<u16>> {
    let b = &s.1;
    if s.0 == 'P' {
        match ref_rsp_decode(b)? {
            RspM::Regs(_, w) => Some(w),
            _ => None,
        }
    } else {
        let off = match b.first()? {
            0x10 => 1,
            0x17 => 5,
            _ => return None,
        };
        if b.len() < off + 5 {
            return None;
        }
        let q = (b[off + 2] as usize) * 256 + b[off + 3] as usize;
        let bc = b[off + 4] as usize;
        if bc != 2 * q || b.len() < off + 5 + bc {
            return None;
        }
        Some((0..q).map(|i| (b[off + 5 + 2 * i] as u16) * 256 + b[off + 6 + 2 * i] as u16).collect())
    }
}

pub fn rsp_meaning(s: &PduSpec) -> Option<RspM> {
    if let PduSpec::Rsp(RspSpec::Dec(b)) = s {
        return ref_rsp_decode(b);
    }
    Some(match s {
        PduSpec::Exc(_, b, k) => RspM::Exc(*b, exc_of_idx(*k)? as u8),
        PduSpec::Rsp(r) => match r {
            RspSpec::Coils(n, b, _, _) => RspM::Coils(if *n == "RC" { 1 } else { 2 }, b.clone()),
            RspSpec::Wsc(a) => RspM::Wsc(*a),
            RspSpec::Pair(n, a, q) => RspM::Pair(
                match *n {
                    "WMC" => 0x0F,
                    "WSR" => 6,
                    _ => 0x10,
                },
                *a,
                *q,
            ),
            RspSpec::Regs(n, w, _, _) => RspM::Regs(
                match *n {
                    "RHR" => 3,
                    "RIR" => 4,
                    "RWM" => 0x17,
                    _ => return None,
                },
                w.clone(),
            ),
            RspSpec::Cus(_, b, d) => RspM::Custom(*b, d.clone()),
            RspSpec::Res(x) => RspM::Res(*x),
            RspSpec::CoilsS(n, s) => RspM::Coils(if *n == "RC" { 1 } else { 2 }, ref_src_bits(s)?),
            RspSpec::RegsS(n, s) => RspM::Regs(
                match *n {
                    "RHR" => 3,
                    "RIR" => 4,
                    _ => 0x17,
                },
                ref_src_words(s)?,
            ),
            _ => return None,
        },
    })
}

fn coils_eq(c: &Coils, bits: &[bool], pad: bool) -> V {
    let n = bits.len();
    let want = if pad { (n + 7) / 8 * 8 } else { n };
    if c.len() != want {
        return Err(format!("coil count {} != {}", c.len(), want));
    }
    for i in 0..want {
        let g = catch(|| c.get(i));
        let exp = if i < n { bits[i] } else { false };
        if g != Some(Some(exp)) {
            return Err(format!("coil {i}: get={g:?} expected {exp}"));
        }
    }
    let it = catch(|| c.into_iter().take(c.len() + 2).collect::<Vec<bool>>());
    match it {
        Some(l) if l.len() == want && l.iter().zip(bits.iter()).all(|(a, b)| a == b) && l[n..].iter().all(|x| !*x) => Ok(()),
        other => Err(format!("iteration gives {:?}", other.map(|l| l.len()))),
    }
}

fn data_eq(d: &Data, ws: &[u16]) -> V {
    if d.len() != ws.len() {
        return Err(format!("word count {} != {}", d.len(), ws.len()));
    }
    for (i, w) in ws.iter().enumerate() {
        let g = catch(|| d.get(i));
        if g != Some(Some(*w)) {
            return Err(format!("word {i}: get={g:?} expected {w:04X}"));
        }
    }
    match catch(|| d.into_iter().take(d.len() + 2).collect::<Vec<u16>>()) {
        Some(l) if l == ws => Ok(()),
        other => Err(format!("iteration gives {:?}", other.map(|l| l.len()))),
    }
}

/// does the crate value mean `m` (kind, fields, every payload item through the accessors)
pub fn req_matches(v: &Request, m: &ReqM) -> V {
    match (v, m) {
        (Request::ReadCoils(a, q), ReqM::Simple(1, a2, q2))
        | (Request::ReadDiscreteInputs(a, q), ReqM::Simple(2, a2, q2))
        | (Request::ReadHoldingRegisters(a, q), ReqM::Simple(3, a2, q2))
        | (Request::ReadInputRegisters(a, q), ReqM::Simple(4, a2, q2))
        | (Request::WriteSingleRegister(a, q), ReqM::Simple(6, a2, q2)) => {
            if a == a2 && q == q2 {
                Ok(())
            } else {
                Err(format!("fields {a},{q} != {a2},{q2}"))
            }
        }
        (Request::WriteSingleCoil(a, c), ReqM::Wsc(a2, c2)) => {
            if a == a2 && c == c2 {
                Ok(())
            } else {
                Err(format!("fields {a},{c} != {a2},{c2}"))
            }
        }
        (Request::WriteMultipleCoils(a, c), ReqM::Wmc(a2, bits)) => {
            if a != a2 {
                return Err(format!("address {a} != {a2}"));
            }
            coils_eq(c, bits, false)
        }
        (Request::WriteMultipleRegisters(a, d), ReqM::Wmr(a2, ws)) => {
            if a != a2 {
                return Err(format!("address {a} != {a2}"));
            }
            data_eq(d, ws)
        }
        (Request::ReadWriteMultipleRegisters(ra, rq, wa, d), ReqM::Rwm(ra2, rq2, wa2, ws)) => {
            if (ra, rq, wa) != (ra2, rq2, wa2) {
                return Err(format!("fields {ra},{rq},{wa} != {ra2},{rq2},{wa2}"));
            }
            data_eq(d, ws)
        }
        (Request::Custom(fc, d), ReqM::Custom(c, d2)) => {
            if fc.value() == *c && *d == &d2[..] {
                Ok(())
            } else {
                Err(format!("custom {:02X} {} != {:02X} {}", fc.value(), hex_of(d), c, hex_of(d2)))
            }
        }
        _ => Err(format!("different kind: got {}", req_str(v).split(' ').next().unwrap_or("?"))),
    }
}

pub fn rsp_matches(v: &Response, m: &RspM, pad: bool) -> V {
    match (v, m) {
        (Response::ReadCoils(c), RspM::Coils(1, bits)) | (Response::ReadDiscreteInputs(c), RspM::Coils(2, bits)) => {
            coils_eq(c, bits, pad)
        }
        (Response::WriteSingleCoil(a), RspM::Wsc(a2)) => {
            if a == a2 {
                Ok(())
            } else {
                Err(format!("address {a} != {a2}"))
            }
        }
        (Response::WriteSingleRegister(a, q), RspM::Pair(6, a2, q2))
        | (Response::WriteMultipleCoils(a, q), RspM::Pair(0x0F, a2, q2))
        | (Response::WriteMultipleRegisters(a, q), RspM::Pair(0x10, a2, q2)) => {
            if a == a2 && q == q2 {
                Ok(())
            } else {
                Err(format!("fields {a},{q} != {a2},{q2}"))
            }
        }
        (Response::ReadHoldingRegisters(d), RspM::Regs(3, ws))
        | (Response::ReadInputRegisters(d), RspM::Regs(4, ws))
        | (Response::ReadWriteMultipleRegisters(d), RspM::Regs(0x17, ws)) => data_eq(d, ws),
        (Response::Custom(fc, d), RspM::Custom(c, d2)) => {
            if fc.value() == *c && *d == &d2[..] {
                Ok(())
            } else {
                Err(format!("custom {:02X} {} != {:02X} {}", fc.value(), hex_of(d), c, hex_of(d2)))
            }
        }
        (Response::ReadExceptionStatus(x), RspM::Res(y)) => {
            if x == y {
                Ok(())
            } else {
                Err(format!("status {x} != {y}"))
            }
        }
        _ => Err(format!("different kind: got {}", rsp_str(v).split(' ').next().unwrap_or("?"))),
    }
}

fn pdu_matches(p: &ResponsePdu, m: &RspM, pad: bool) -> V {
    match (&p.0, m) {
        (Err(e), RspM::Exc(f, k)) => {
            if e.function.value() == *f && e.exception as u8 == *k {
                Ok(())
            } else {
                Err(format!("exception {:02X}/{} != {:02X}/{}", e.function.value(), e.exception as u8, f, k))
            }
        }
        (Ok(r), RspM::Exc(..)) => Err(format!("exception came back as a successful response {}", rsp_str(r))),
        (Err(e), _) => Err(format!("response came back as exception {}", exc_str(e))),
        (Ok(r), m) => rsp_matches(r, m, pad),
    }
}

fn in_scope_custom_req(c: u8) -> bool {
    c < 0x80 && !MODELLED_REQ.contains(&c)
}
fn in_scope_custom_rsp(c: u8) -> bool {
    // 0x07: the response decoder has its own variant for read-exception-status
    !MODELLED_REQ.contains(&c) && c != 0x07
}

/// the serial-line-only kinds whose `pdu_len` / `encode` are `todo!()` / `unimplemented!()` in the crate
/// (open finding D19); `Response::ReadExceptionStatus` is implemented and is not one of them
fn unimplemented_req(s: &ReqSpec) -> bool {
    matches!(s, ReqSpec::Res | ReqSpec::Dia(..) | ReqSpec::Gcc | ReqSpec::Gcl | ReqSpec::Rsi)
}
fn unimplemented_rsp(s: &PduSpec) -> bool {
    matches!(s, PduSpec::Rsp(RspSpec::Regs("DIA", ..)) | PduSpec::Rsp(RspSpec::Gcc(..)) | PduSpec::Rsp(RspSpec::Gcl(..)) | PduSpec::Rsp(RspSpec::Rsi(..)))
}

/// "never panics" on a value of an unimplemented kind: PASS once it neither panics in `pdu_len` nor in `encode`
fn d19_req(spec: &ReqSpec) -> String {
    with_req(spec, |v| {
        let Some(v) = v else { return "NA constructor refused".into() };
        let Some(pl) = catch(|| v.pdu_len()) else { return fail("D19", format!("pdu_len() of {:?} panicked (unimplemented kind)", FunctionCode::from(v))) };
        let mut b = vec![0u8; pl + 4];
        match catch(|| v.encode(&mut b)) {
            None => fail("D19", format!("encode of {:?} panicked (unimplemented kind)", FunctionCode::from(v))),
            Some(_) => "PASS".into(),
        }
    })
}
fn d19_rsp(spec: &PduSpec) -> String {
    with_pdu(spec, |p| {
        let Some(ResponsePdu(Ok(v))) = p else { return "NA constructor refused".into() };
        let Some(pl) = catch(|| v.pdu_len()) else { return fail("D19", format!("pdu_len() of {:?} panicked (unimplemented kind)", FunctionCode::from(v))) };
        let mut b = vec![0u8; pl + 4];
        match catch(|| v.encode(&mut b)) {
            None => fail("D19", format!("encode of {:?} panicked (unimplemented kind)", FunctionCode::from(v))),
            Some(_) => "PASS".into(),
        }
    })
}

/* ---------- C01 / C02 / C03 / C19 ---------- */

/// encode `v` into a roomy buffer; Ok((n, bytes[..n])) / Err(reason)
fn enc_roomy(pl: Option<usize>, enc: impl FnOnce(&mut [u8]) -> Option<Result<usize, Error>>) -> Result<Result<(usize, Vec<u8>), Error>, String> {
    let Some(pl) = pl else { return Err("pdu_len panicked".into()) };
    let mut buf = vec![0xA5u8; pl + 3];
    match enc(&mut buf) {
        None => Err("encode panicked".into()),
        Some(Err(e)) => Ok(Err(e)),
        Some(Ok(n)) => {
            if n > buf.len() {
                return Err(format!("returned length {n} exceeds the buffer"));
            }
            if buf[n..].iter().any(|x| *x != 0xA5) {
                return Err("bytes beyond the returned length were modified".into());
            }
            Ok(Ok((n, buf[..n].to_vec())))
        }
    }
}

fn c01(spec: &ReqSpec) -> String {
    let Some(m) = req_meaning(spec) else { return "NA kind outside the property".into() };
    if let ReqM::Custom(c, _) = &m {
        if !in_scope_custom_req(*c) {
            return "NA custom code modelled or >= 0x80".into();
        }
    }
    let fits = req_fits(&m);
    with_req(spec, |v| {
        let Some(v) = v else { return "NA constructor refused".into() };
        let pl = catch(|| v.pdu_len());
        let r: V = (|| {
            let e = enc_roomy(pl, |b| catch(|| v.encode(b)))?;
            match e {
                Err(er) => {
                    if fits {
                        Err(format!("in-limits request refused by encode: {er:?}"))
                    } else {
                        Ok(())
                    }
                }
                Ok((n, bytes)) => {
                    if Some(n) != pl {
                        return Err(format!("encode returned {n}, pdu_len is {pl:?}"));
                    }
                    match catch(|| Request::try_from(&bytes[..])) {
                        None => Err("decode of encoded bytes panicked".into()),
                        Some(Err(er)) => {
                            if fits {
                                Err(format!("encoded bytes {} refused by decode: {er:?}", hex_of(&bytes)))
                            } else {
                                Ok(())
                            }
                        }
                        Some(Ok(d)) => req_matches(&d, &m).map_err(|x| format!("round trip via {}: {x}", hex_of(&bytes))),
                    }
                }
            }
        })();
        verdict("-", r)
    })
}

fn c02(spec: &PduSpec) -> String {
    let Some(m) = rsp_meaning(spec) else { return "NA kind outside the property".into() };
    match &m {
        RspM::Custom(c, _) if !in_scope_custom_rsp(*c) => return "NA custom code is a modelled kind".into(),
        RspM::Exc(f, _) if *f >= 0x80 => return "NA exception function >= 0x80".into(),
        _ => {}
    }
    if !rsp_fits(&m) {
        return "NA payload out of range".into();
    }
    with_pdu(spec, |p| {
        let Some(p) = p else { return "NA constructor refused".into() };
        let r: V = (|| match &p.0 {
            Err(e) => {
                let mut buf = [0xA5u8; 5];
                match catch(|| e.encode(&mut buf)) {
                    Some(Ok(2)) => {}
                    o => return Err(format!("exception encode gave {o:?}")),
                }
                if buf[2..] != [0xA5; 3] {
                    return Err("exception encode wrote beyond two bytes".into());
                }
                let arr: Option<[u8; 2]> = catch(|| (*e).into());
                if arr != Some([buf[0], buf[1]]) {
                    return Err(format!("<[u8;2]>::from gives {arr:?}, encode gives {}", hex_of(&buf[..2])));
                }
                match catch(|| ExceptionResponse::try_from(&buf[..2])) {
                    Some(Ok(d)) => pdu_matches(&ResponsePdu(Err(d)), &m, true),
                    o => Err(format!("exception bytes {} decode to {:?}", hex_of(&buf[..2]), o.map(|x| x.map(|y| exc_str(&y))))),
                }
            }
            Ok(v) => {
                let pl = catch(|| v.pdu_len());
                match enc_roomy(pl, |b| catch(|| v.encode(b)))? {
                    Err(er) => Err(format!("in-range response refused by encode: {er:?}")),
                    Ok((n, bytes)) => {
                        if Some(n) != pl {
                            return Err(format!("encode returned {n}, pdu_len is {pl:?}"));
                        }
                        match catch(|| Response::try_from(&bytes[..])) {
                            Some(Ok(d)) => rsp_matches(&d, &m, true).map_err(|x| format!("round trip via {}: {x}", hex_of(&bytes))),
                            o => Err(format!("encoded bytes {} decode to {:?}", hex_of(&bytes), o.map(|x| x.map(|y| rsp_str(&y))))),
                        }
                    }
                }
            }
        })();
        verdict("-", r)
    })
}

fn c03_req(spec: &ReqSpec) -> String {
    let Some(m) = req_meaning(spec) else { return "NA kind outside the property".into() };
    if let ReqM::Custom(c, _) = &m {
        if !in_scope_custom_req(*c) {
            return "NA custom code modelled or >= 0x80".into();
        }
    }
    if !req_fits(&m) {
        return "NA payload out of range".into();
    }
    let want = req_bytes(&m);
    with_req(spec, |v| {
        let Some(v) = v else { return "NA constructor refused".into() };
        let r: V = (|| {
            let pl = catch(|| v.pdu_len());
            match enc_roomy(pl, |b| catch(|| v.encode(b)))? {
                Err(er) => return Err(format!("refused by encode: {er:?}")),
                Ok((_, bytes)) => {
                    if bytes != want {
                        return Err(format!("encoded {} but the specification says {}", hex_of(&bytes), hex_of(&want)));
                    }
                }
            }
            // converse: the spec's bytes decode to the meaning
            match catch(|| Request::try_from(&want[..])) {
                Some(Ok(d)) => req_matches(&d, &m).map_err(|x| format!("spec bytes {} decode wrongly: {x}", hex_of(&want))),
                o => Err(format!("spec bytes {} decode to {:?}", hex_of(&want), o.map(|x| x.map(|y| req_str(&y))))),
            }
        })();
        verdict("-", r)
    })
}

fn c03_rsp(spec: &PduSpec) -> String {
    let Some(m) = rsp_meaning(spec) else { return "NA kind outside the property".into() };
    match &m {
        RspM::Custom(c, _) if !in_scope_custom_rsp(*c) => return "NA custom code is a modelled kind".into(),
        RspM::Exc(f, _) if *f >= 0x80 => return "NA exception function >= 0x80".into(),
        _ => {}
    }
    if !rsp_fits(&m) {
        return "NA payload out of range".into();
    }
    let class = if matches!(m, RspM::Wsc(_)) { "D12" } else { "-" };
    let want = rsp_bytes(&m);
    with_pdu(spec, |p| {
        let Some(p) = p else { return "NA constructor refused".into() };
        let r: V = (|| {
            let mut buf = vec![0xA5u8; want.len() + 300];
            match catch(|| p.encode(&mut buf)) {
                Some(Ok(n)) => {
                    let cmp_len = if let RspM::Wsc(_) = m { 3.min(n) } else { n };
                    if n != want.len() || buf[..cmp_len] != want[..cmp_len] {
                        return Err(format!("encoded {} but the specification says {}", hex_of(&buf[..n.min(buf.len())]), hex_of(&want)));
                    }
                }
                o => return Err(format!("encode gave {o:?}")),
            }
            if let RspM::Exc(..) = m {
                return match catch(|| ExceptionResponse::try_from(&want[..])) {
                    Some(Ok(d)) => pdu_matches(&ResponsePdu(Err(d)), &m, true),
                    o => Err(format!("spec bytes {} decode to {:?}", hex_of(&want), o.map(|x| x.map(|y| exc_str(&y))))),
                };
            }
            match catch(|| Response::try_from(&want[..])) {
                Some(Ok(d)) => rsp_matches(&d, &m, true).map_err(|x| format!("spec bytes {} decode wrongly: {x}", hex_of(&want))),
                o => Err(format!("spec bytes {} decode to {:?}", hex_of(&want), o.map(|x| x.map(|y| rsp_str(&y))))),
            }
        })();
        verdict(class, r)
    })
}

fn c19_req(spec: &ReqSpec) -> String {
    if unimplemented_req(spec) {
        return d19_req(spec);
    }
    let Some(m) = req_meaning(spec) else { return "NA kind outside the property".into() };
    with_req(spec, |v| {
        let Some(v) = v else { return "NA constructor refused".into() };
        let r: V = (|| {
            let pl = catch(|| v.pdu_len());
            match enc_roomy(pl, |b| catch(|| v.encode(b)))? {
                Err(_) => Ok(()),
                Ok((_, bytes)) => {
                    let want = req_bytes(&m);
                    if !req_count_fits(&m) || bytes != want {
                        return Err(format!(
                            "encode succeeded with count fields that do not match the payload ({} items): header {}",
                            match &m { ReqM::Wmc(_, b) => b.len(), ReqM::Wmr(_, w) | ReqM::Rwm(_, _, _, w) => w.len(), _ => 0 },
                            hex_of(&bytes[..bytes.len().min(11)])
                        ));
                    }
                    match catch(|| Request::try_from(&bytes[..])) {
                        Some(Ok(d)) => req_matches(&d, &m),
                        o => Err(format!("encoded bytes decode to {:?}", o.map(|x| x.map(|y| req_str(&y))))),
                    }
                }
            }
        })();
        verdict("-", r)
    })
}

fn c19_rsp(spec: &PduSpec) -> String {
    if unimplemented_rsp(spec) {
        return d19_rsp(spec);
    }
    let Some(m) = rsp_meaning(spec) else { return "NA kind outside the property".into() };
    with_pdu(spec, |p| {
        let Some(ResponsePdu(Ok(v))) = p else { return "NA constructor refused".into() };
        let r: V = (|| {
            let pl = catch(|| v.pdu_len());
            match enc_roomy(pl, |b| catch(|| v.encode(b)))? {
                Err(_) => Ok(()),
                Ok((_, bytes)) => {
                    let want = rsp_bytes(&m);
                    if !rsp_count_fits(&m) || bytes != want {
                        return Err(format!(
                            "encode succeeded with a count field that does not match the payload: header {}",
                            hex_of(&bytes[..bytes.len().min(6)])
                        ));
                    }
                    match catch(|| Response::try_from(&bytes[..])) {
                        Some(Ok(d)) => rsp_matches(&d, &m, true),
                        o => Err(format!("encoded bytes decode to {:?}", o.map(|x| x.map(|y| rsp_str(&y))))),
                    }
                }
            }
        })();
        verdict("-", r)
    })
}

/* ---------- C04 / C05: ADU round trips ---------- */

fn frameable(dir: Dir, pdu: &[u8]) -> bool {
    matches!(pdu_len_rule(dir, pdu), Ok(Some(n)) if n == pdu.len())
}

fn adu_req(tr: &str, tid: u16, id: u8, spec: &ReqSpec) -> String {
    if matches!(spec, ReqSpec::Res | ReqSpec::Gcc | ReqSpec::Gcl | ReqSpec::Rsi) {
        // both framing layers support these one-byte requests (request_pdu_len frames 07, 0B, 0C, 11),
        // but the value cannot be encoded at all
        return with_req(spec, |v| {
            let Some(v) = v else { return "NA constructor refused".into() };
            let mut buf = vec![0u8; 16];
            let r = if tr == "rtu" {
                catch(|| rtu::client::encode_request(rtu::RequestAdu { hdr: rtu::Header { slave: id }, pdu: RequestPdu(v) }, &mut buf))
            } else {
                catch(|| tcp::server::encode_request(tcp::RequestAdu { hdr: tcp::Header { transaction_id: tid, unit_id: id }, pdu: RequestPdu(v) }, &mut buf))
            };
            match r {
                None => fail("D19", format!("{tr} encode_request of {:?} panicked (unimplemented kind)", FunctionCode::from(v))),
                Some(_) => "PASS".into(),
            }
        });
    }
    let Some(m) = req_meaning(spec) else { return "NA kind outside the property".into() };
    let transplant = matches!(spec, ReqSpec::WmcS(..) | ReqSpec::WmrS(..) | ReqSpec::RwmS(..) | ReqSpec::WmrX(..) | ReqSpec::RwmX(..));
    if !(req_fits(&m) || (transplant && req_count_fits(&m))) {
        return "NA payload out of range".into();
    }
    let want_pdu = req_bytes(&m);
    if !frameable(Dir::Req, &want_pdu) {
        return "NA not frameable".into();
    }
    let class = if tr == "rtu" && matches!(m, ReqM::Wmc(..) | ReqM::Wmr(..)) { "D4" } else { "-" };
    let ovh = if tr == "rtu" { 3 } else { 7 };
    with_req(spec, |v| {
        let Some(v) = v else { return "NA constructor refused".into() };
        let r: V = (|| {
            let pl = catch(|| v.pdu_len()).ok_or("pdu_len panicked")?;
            let mut pdu = vec![0u8; pl];
            match catch(|| v.encode(&mut pdu)) {
                Some(Ok(n)) if n == pl => {}
                o => return Err(format!("PDU encode gave {o:?}")),
            }
            let mut buf = vec![0xA5u8; pl + ovh + 2];
            let e = if tr == "rtu" {
                catch(|| rtu::client::encode_request(rtu::RequestAdu { hdr: rtu::Header { slave: id }, pdu: RequestPdu(v) }, &mut buf))
            } else {
                catch(|| tcp::server::encode_request(tcp::RequestAdu { hdr: tcp::Header { transaction_id: tid, unit_id: id }, pdu: RequestPdu(v) }, &mut buf))
            };
            let n = match e {
                Some(Ok(n)) => n,
                o => return Err(format!("ADU encode gave {o:?}")),
            };
            let want = if tr == "rtu" { rtu_frame(id, &pdu) } else { tcp_frame(tid, id, &pdu) };
            if n != pl + ovh || buf[..n.min(buf.len())] != want[..] {
                return Err(format!("frame {} (n={n}) but layout requires {}", hex_of(&buf[..n.min(buf.len())]), hex_of(&want)));
            }
            if buf[n..].iter().any(|x| *x != 0xA5) {
                return Err("bytes beyond the frame were modified".into());
            }
            let frame = &buf[..n];
            if tr == "rtu" {
                match catch(|| rtu::server::decode_request(frame)) {
                    Some(Ok(Some(a))) => {
                        if a.hdr.slave != id {
                            return Err(format!("slave {} != {id}", a.hdr.slave));
                        }
                        req_matches(&a.pdu.0, &m)
                    }
                    o => Err(format!("frame {} decodes to {:?}", hex_of(frame), o.map(|x| x.map(|y| y.map(|z| req_str(&z.pdu.0)))))),
                }
            } else {
                match catch(|| tcp::server::decode_request(frame)) {
                    Some(Ok(Some(a))) => {
                        if a.hdr.transaction_id != tid || a.hdr.unit_id != id {
                            return Err(format!("header {}/{} != {tid}/{id}", a.hdr.transaction_id, a.hdr.unit_id));
                        }
                        req_matches(&a.pdu.0, &m)
                    }
                    o => Err(format!("frame {} decodes to {:?}", hex_of(frame), o.map(|x| x.map(|y| y.map(|z| req_str(&z.pdu.0)))))),
                }
            }
        })();
        verdict(class, r)
    })
}

fn adu_rsp(tr: &str, tid: u16, id: u8, spec: &PduSpec) -> String {
    let Some(m) = rsp_meaning(spec) else { return "NA kind outside the property".into() };
    if let RspM::Exc(f, _) = &m {
        if *f >= 0x80 {
            return "NA exception function >= 0x80".into();
        }
    }
    if let RspM::Custom(c, _) = &m {
        if !in_scope_custom_rsp(*c) {
            // the response decoder has a dedicated variant for this code: a custom value with it is outside the property
            return "NA custom code is a modelled kind".into();
        }
        if *c >= 0x80 {
            // on the wire this IS an exception PDU (function | 0x80, code): not a frameable successful response
            return "NA custom response code >= 0x80 is an exception PDU on the wire".into();
        }
    }
    let transplant = matches!(spec, PduSpec::Rsp(RspSpec::CoilsS(..)) | PduSpec::Rsp(RspSpec::RegsS(..)));
    if !(rsp_fits(&m) || (transplant && rsp_count_fits(&m))) {
        return "NA payload out of range".into();
    }
    let want_pdu = rsp_bytes(&m);
    if !frameable(Dir::Rsp, &want_pdu) {
        return "NA not frameable".into();
    }
    let class = if matches!(m, RspM::Wsc(_)) { "D12" } else { "-" };
    let ovh = if tr == "rtu" { 3 } else { 7 };
    with_pdu(spec, |p| {
        let Some(p) = p else { return "NA constructor refused".into() };
        let r: V = (|| {
            let mut pdu = vec![0u8; want_pdu.len() + 300];
            let pl = match catch(|| p.encode(&mut pdu)) {
                Some(Ok(n)) => n,
                o => return Err(format!("PDU encode gave {o:?}")),
            };
            pdu.truncate(pl);
            let mut buf = vec![0xA5u8; pl + ovh + 2];
            let e = if tr == "rtu" {
                catch(|| rtu::server::encode_response(rtu::ResponseAdu { hdr: rtu::Header { slave: id }, pdu: p }, &mut buf))
            } else {
                catch(|| tcp::server::encode_response(tcp::ResponseAdu { hdr: tcp::Header { transaction_id: tid, unit_id: id }, pdu: p }, &mut buf))
            };
            let n = match e {
                Some(Ok(n)) => n,
                o => return Err(format!("ADU encode gave {o:?}")),
            };
            let want = if tr == "rtu" { rtu_frame(id, &pdu) } else { tcp_frame(tid, id, &pdu) };
            if n != pl + ovh || buf[..n.min(buf.len())] != want[..] {
                return Err(format!("frame {} (n={n}) but layout requires {}", hex_of(&buf[..n.min(buf.len())]), hex_of(&want)));
            }
            if buf[n..].iter().any(|x| *x != 0xA5) {
                return Err("bytes beyond the frame were modified".into());
            }
            let frame = &buf[..n];
            if tr == "rtu" {
                match catch(|| rtu::client::decode_response(frame)) {
                    Some(Ok(Some(a))) => {
                        if a.hdr.slave != id {
                            return Err(format!("slave {} != {id}", a.hdr.slave));
                        }
                        pdu_matches(&a.pdu, &m, true)
                    }
                    o => Err(format!("frame {} decodes to {:?}", hex_of(frame), o.map(|x| x.map(|y| y.map(|z| pdu_str(&z.pdu)))))),
                }
            } else {
                match catch(|| tcp::server::decode_response(frame)) {
                    Some(Ok(Some(a))) => {
                        if a.hdr.transaction_id != tid || a.hdr.unit_id != id {
                            return Err(format!("header {}/{} != {tid}/{id}", a.hdr.transaction_id, a.hdr.unit_id));
                        }
                        pdu_matches(&a.pdu, &m, true)
                    }
                    o => Err(format!("frame {} decodes to {:?}", hex_of(frame), o.map(|x| x.map(|y| y.map(|z| pdu_str(&z.pdu)))))),
                }
            }
        })();
        verdict(class, r)
    })
}

/// the MBAP length field must be PDU length + 1; a PDU too long for the 16-bit field must be refused
fn c05_len(n: usize, rsp: bool) -> String {
    let data = vec![0x5Au8; n];
    let mut buf = vec![0u8; n + 1 + 7 + 2];
    let hdr = tcp::Header { transaction_id: 1, unit_id: 9 };
    let e = if rsp {
        catch(|| tcp::server::encode_response(tcp::ResponseAdu { hdr, pdu: ResponsePdu(Ok(Response::Custom(FunctionCode::Custom(0x41), &data))) }, &mut buf))
    } else {
        catch(|| tcp::server::encode_request(tcp::RequestAdu { hdr, pdu: RequestPdu(Request::Custom(FunctionCode::Custom(0x41), &data)) }, &mut buf))
    };
    let r: V = match e {
        None => Err("encoder panicked".into()),
        Some(Err(_)) => if n + 2 > 65535 { Ok(()) } else { Err(format!("a {}-byte PDU was refused although its length fits the MBAP field", n + 1)) },
        Some(Ok(k)) => {
            let field = buf[4] as usize * 256 + buf[5] as usize;
            if field == n + 2 && k == n + 8 { Ok(()) } else { Err(format!("encode succeeded (n={k}) for a PDU of {} bytes with MBAP length field {field}: the field is PDU length + 1 = {} truncated to 16 bits", n + 1, n + 2)) }
        }
    };
    verdict("-", r)
}

/* ---------- C06 ---------- */

fn c06(b: &[u8]) -> String {
    let r: V = (|| {
        let c = catch(|| rtu::crc16(b)).ok_or("crc16 panicked")?;
        let want = crc_wire(b);
        if c.to_be_bytes() != want {
            return Err(format!("crc16 = {:04X}: big-endian bytes {:02X} {:02X}, CRC-16/MODBUS low-first is {:02X} {:02X}", c, c.to_be_bytes()[0], c.to_be_bytes()[1], want[0], want[1]));
        }
        let mut ext = b.to_vec();
        ext.extend(c.to_be_bytes());
        let z = catch(|| rtu::crc16(&ext)).ok_or("crc16 panicked")?;
        if z != 0 {
            return Err(format!("residue after appending the checksum is {z:04X}, not 0"));
        }
        Ok(())
    })();
    verdict("-", r)
}

/* ---------- C07 ---------- */

fn c07(b: &[u8]) -> String {
    let mut bad: Vec<String> = vec![];
    let mut chk = |name: &str, ok: bool| {
        if !ok {
            bad.push(name.to_string());
        }
    };
    chk("Request::try_from", catch(|| Request::try_from(b).is_ok()).is_some());
    chk("Response::try_from", catch(|| Response::try_from(b).is_ok()).is_some());
    chk("ExceptionResponse::try_from", catch(|| ExceptionResponse::try_from(b).is_ok()).is_some());
    chk("rtu::request_pdu_len", catch(|| rtu::request_pdu_len(b).is_ok()).is_some());
    chk("rtu::response_pdu_len", catch(|| rtu::response_pdu_len(b).is_ok()).is_some());
    chk("tcp::request_pdu_len", catch(|| tcp::request_pdu_len(b).is_ok()).is_some());
    chk("tcp::response_pdu_len", catch(|| tcp::response_pdu_len(b).is_ok()).is_some());
    let l = b.len();
    for n in [0usize, 1, 2, 5, l.saturating_sub(3), l.saturating_sub(7), l.saturating_sub(2), l, l + 1, 253, 300, 70000] {
        chk(&format!("rtu::extract_frame(n={n})"), catch(|| rtu::extract_frame(b, n).is_ok()).is_some());
        chk(&format!("tcp::extract_frame(n={n})"), catch(|| tcp::extract_frame(b, n).is_ok()).is_some());
    }
    for d in [DecoderType::Request, DecoderType::Response] {
        chk(&format!("rtu::decode({d:?})"), catch(|| rtu::decode(d, b).is_ok()).is_some());
        chk(&format!("tcp::decode({d:?})"), catch(|| tcp::decode(d, b).is_ok()).is_some());
    }
    chk("rtu::server::decode_request", catch(|| rtu::server::decode_request(b).is_ok()).is_some());
    chk("rtu::client::decode_response", catch(|| rtu::client::decode_response(b).is_ok()).is_some());
    chk("tcp::server::decode_request", catch(|| tcp::server::decode_request(b).is_ok()).is_some());
    chk("tcp::server::decode_response", catch(|| tcp::server::decode_response(b).is_ok()).is_some());
    if bad.is_empty() {
        "PASS".into()
    } else {
        bad.dedup();
        fail("-", format!("panicked: {}", bad.join(", ")))
    }
}

/* ---------- C08 / C09: soundness of what extraction returns ---------- */

fn rtu_facts(buf: &[u8], f: &rtu::DecodedFrame, start: usize, size: usize) -> V {
    if start.checked_add(size).map_or(true, |e| e > buf.len()) {
        return Err(format!("frame at {start}+{size} exceeds the input ({} bytes)", buf.len()));
    }
    if size != f.pdu.len() + 3 {
        return Err(format!("size {size} != PDU length {} + 3", f.pdu.len()));
    }
    let n = f.pdu.len();
    if f.slave != buf[start] || f.pdu != &buf[start + 1..start + 1 + n] {
        return Err(format!("slave/PDU are not the bytes at {start}"));
    }
    if crc_wire(&buf[start..start + 1 + n]) != [buf[start + 1 + n], buf[start + 2 + n]] {
        return Err(format!("the two bytes after the PDU are not the CRC-16 of slave id and PDU (frame at {start}, size {size})"));
    }
    Ok(())
}

fn c08_snd(b: &[u8]) -> String {
    let r: V = (|| {
        let l = b.len();
        for n in [0usize, 1, 2, 3, 5, l.saturating_sub(3), l.saturating_sub(4), l.saturating_sub(5)] {
            if let Some(Ok(Some(f))) = catch(|| rtu::extract_frame(b, n)) {
                if f.pdu.len() != n {
                    return Err(format!("extract_frame(n={n}) returned a PDU of {} bytes", f.pdu.len()));
                }
                rtu_facts(b, &f, 0, n + 3).map_err(|e| format!("extract_frame(n={n}): {e}"))?;
            }
        }
        for d in [DecoderType::Request, DecoderType::Response] {
            if let Some(Ok(Some((f, loc)))) = catch(|| rtu::decode(d, b)) {
                rtu_facts(b, &f, loc.start, loc.size).map_err(|e| format!("decode({d:?}): {e}"))?;
            }
        }
        // ADU decoders: whatever they return must be backed by a CRC-valid frame somewhere in the input
        let backed = |dir: Dir| (0..l.min(256)).any(|s| matches!(frame_at("rtu", dir, &b[s..]), At::Frame(_)));
        if let Some(Ok(Some(_))) = catch(|| rtu::server::decode_request(b)) {
            if !backed(Dir::Req) {
                return Err("server::decode_request returned a request although no CRC-valid request frame is in the input".into());
            }
        }
        if let Some(Ok(Some(_))) = catch(|| rtu::client::decode_response(b)) {
            if !backed(Dir::Rsp) {
                return Err("client::decode_response returned a response although no CRC-valid response frame is in the input".into());
            }
        }
        Ok(())
    })();
    verdict("-", r)
}

/// is the corrupted frame still returned as the full-length frame at its original position
fn accepted_full(dir: Dir, g: &[u8]) -> Option<String> {
    let n = g.len() - 3;
    if let Some(Ok(Some(_))) = catch(|| rtu::extract_frame(g, n)) {
        return Some("extract_frame".into());
    }
    let d = if dir == Dir::Req { DecoderType::Request } else { DecoderType::Response };
    if let Some(Ok(Some((_, loc)))) = catch(|| rtu::decode(d, g)) {
        if loc.start == 0 && loc.size == g.len() {
            return Some("decode".into());
        }
    }
    None
}

fn c08_flt(dir: Dir, f: &[u8], seed: u64, full: bool) -> String {
    if !well_formed("rtu", dir, f) || f.len() > 256 {
        return "NA generator produced a frame that is not well-formed".into();
    }
    let bits = f.len() * 8;
    let flip = |g: &mut Vec<u8>, p: usize| g[p / 8] ^= 1 << (p % 8);
    let mut rng = Rng(seed);
    let r: V = (|| {
        for p in 0..bits {
            let mut g = f.to_vec();
            flip(&mut g, p);
            if let Some(w) = accepted_full(dir, &g) {
                return Err(format!("single-bit error at bit {p} accepted by {w}: {}", hex_of(&g)));
            }
        }
        // bursts: windows of length 2..=16 with both end bits flipped and a random interior
        let starts: Vec<usize> = if full { (0..bits).collect() } else { (0..64).map(|_| rng.below(bits)).chain([0, bits - 2, bits - 16.min(bits)]).collect() };
        for s in starts {
            for len in 2..=16usize {
                if s + len > bits {
                    continue;
                }
                let reps = if full { 4 } else { 1 };
                for _ in 0..reps {
                    let mut g = f.to_vec();
                    flip(&mut g, s);
                    flip(&mut g, s + len - 1);
                    let interior = rng.next();
                    for k in 1..len - 1 {
                        if (interior >> k) & 1 == 1 {
                            flip(&mut g, s + k);
                        }
                    }
                    if let Some(w) = accepted_full(dir, &g) {
                        return Err(format!("burst of {len} bits at bit {s} accepted by {w}: {}", hex_of(&g)));
                    }
                }
            }
        }
        // bit pairs
        let pairs: Vec<(usize, usize)> = if full && bits <= 512 {
            (0..bits).flat_map(|a| (a + 1..bits).map(move |b| (a, b))).collect()
        } else {
            (0..2000).map(|_| { let a = rng.below(bits); let b = rng.below(bits); (a.min(b), a.max(b)) }).filter(|(a, b)| a != b).collect()
        };
        for (a, b2) in pairs {
            let mut g = f.to_vec();
            flip(&mut g, a);
            flip(&mut g, b2);
            if let Some(w) = accepted_full(dir, &g) {
                return Err(format!("double-bit error at bits {a},{b2} accepted by {w}: {}", hex_of(&g)));
            }
        }
        Ok(())
    })();
    verdict("-", r)
}

fn tcp_facts(buf: &[u8], f: &tcp::DecodedFrame, start: usize, size: usize) -> V {
    if start.checked_add(size).map_or(true, |e| e > buf.len()) {
        return Err(format!("frame at {start}+{size} exceeds the input ({} bytes)", buf.len()));
    }
    let n = f.pdu.len();
    if size != n + 7 {
        return Err(format!("size {size} != PDU length {n} + 7"));
    }
    let h = &buf[start..start + 7];
    if h[2] != 0 || h[3] != 0 {
        return Err(format!("protocol identifier at {start} is {:02X}{:02X}, not 0", h[2], h[3]));
    }
    if (h[4] as usize) * 256 + h[5] as usize != n + 1 {
        return Err(format!("MBAP length field {} != PDU length {n} + 1", (h[4] as usize) * 256 + h[5] as usize));
    }
    if f.transaction_id != (h[0] as u16) * 256 + h[1] as u16 || f.unit_id != h[6] || f.pdu != &buf[start + 7..start + 7 + n] {
        return Err(format!("transaction id / unit id / PDU are not the bytes at {start}"));
    }
    Ok(())
}

fn c09(b: &[u8]) -> String {
    let r: V = (|| {
        let l = b.len();
        for n in [0usize, 1, 2, 5, l.saturating_sub(7), l.saturating_sub(8), l.saturating_sub(6)] {
            if let Some(Ok(Some(f))) = catch(|| tcp::extract_frame(b, n)) {
                if n + 1 > 65535 {
                    return Err(format!("extract_frame(n={n}) returned a frame although PDU length + 1 does not fit the MBAP length field"));
                }
                if f.pdu.len() != n {
                    return Err(format!("extract_frame(n={n}) returned a PDU of {} bytes", f.pdu.len()));
                }
                tcp_facts(b, &f, 0, n + 7).map_err(|e| format!("extract_frame(n={n}): {e}"))?;
            }
        }
        for d in [DecoderType::Request, DecoderType::Response] {
            if let Some(Ok(Some((f, loc)))) = catch(|| tcp::decode(d, b)) {
                tcp_facts(b, &f, loc.start, loc.size).map_err(|e| format!("decode({d:?}): {e}"))?;
            }
        }
        // ADU decoders: header fields must be those of a conformant frame in the input
        let hdr_ok = |dir: Dir, tid: u16, uid: u8| {
            (0..l.min(256)).any(|s| matches!(frame_at("tcp", dir, &b[s..]), At::Frame(_)) && b[s] as u16 * 256 + b[s + 1] as u16 == tid && b[s + 6] == uid)
        };
        if let Some(Ok(Some(a))) = catch(|| tcp::server::decode_request(b)) {
            if !hdr_ok(Dir::Req, a.hdr.transaction_id, a.hdr.unit_id) {
                return Err("server::decode_request returned a request although no conformant MBAP frame with that header is in the input".into());
            }
        }
        if let Some(Ok(Some(a))) = catch(|| tcp::server::decode_response(b)) {
            if !hdr_ok(Dir::Rsp, a.hdr.transaction_id, a.hdr.unit_id) {
                return Err("server::decode_response returned a response although no conformant MBAP frame with that header is in the input".into());
            }
        }
        Ok(())
    })();
    verdict("-", r)
}

/* ---------- C10 / C11 / C14: scanning histories ---------- */

fn scan_str(tr: &str, dir: Dir, b: &[u8]) -> String {
    let d = if dir == Dir::Req { "req" } else { "rsp" };
    run_line(&format!("{tr}scan {d} {}", hex_of(b)))
}
fn adu_dec_str(tr: &str, dir: Dir, b: &[u8]) -> String {
    let d = if dir == Dir::Req { "req" } else { "rsp" };
    run_line(&format!("{tr}dec {d} {}", hex_of(b)))
}

fn frame_canon(tr: &str, f: &[u8]) -> String {
    if tr == "rtu" {
        format!("{} {}", f[0], hex_of(&f[1..f.len() - 2]))
    } else {
        format!("{} {} {}", f[0] as u16 * 256 + f[1] as u16, f[6], hex_of(&f[7..]))
    }
}

fn d4_class(tr: &str, dir: Dir, f: &[u8]) -> &'static str {
    if tr == "rtu" && dir == Dir::Req && f.len() > 1 && (f[1] == 0x0F || f[1] == 0x10) {
        "D4"
    } else {
        "-"
    }
}

fn c10(tr: &str, dir: Dir, f: &[u8], suffix: &[u8]) -> String {
    if !well_formed(tr, dir, f) {
        return "NA generator produced a frame that is not well-formed".into();
    }
    let class = d4_class(tr, dir, f);
    let r: V = (|| {
        for k in 1..f.len() {
            let s = scan_str(tr, dir, &f[..k]);
            if s != "NONE" {
                return Err(format!("prefix of {k}/{} bytes: scanner says {s}, expected incomplete; frame {}", f.len(), hex_of(f)));
            }
            let a = adu_dec_str(tr, dir, &f[..k]);
            if a != "NONE" {
                return Err(format!("prefix of {k}/{} bytes: ADU decoder says {a}, expected incomplete; frame {}", f.len(), hex_of(f)));
            }
        }
        let want = format!("FRAME {} 0 {}", frame_canon(tr, f), f.len());
        let whole = scan_str(tr, dir, f);
        if whole != want {
            return Err(format!("whole frame {}: scanner says {whole}, expected {want}", hex_of(f)));
        }
        let adu_whole = adu_dec_str(tr, dir, f);
        if !adu_whole.starts_with("OK ") {
            return Err(format!("whole frame {}: ADU decoder says {adu_whole}", hex_of(f)));
        }
        let mut ext = f.to_vec();
        ext.extend_from_slice(suffix);
        let s2 = scan_str(tr, dir, &ext);
        if s2 != want {
            return Err(format!("frame + {} further bytes: scanner says {s2}, expected {want}", suffix.len()));
        }
        let a2 = adu_dec_str(tr, dir, &ext);
        if a2 != adu_whole {
            return Err(format!("frame + {} further bytes: ADU decoder says {a2}, without them {adu_whole}", suffix.len()));
        }
        Ok(())
    })();
    verdict(class, r)
}

fn c11(tr: &str, dir: Dir, frames: &[Vec<u8>], chunks: &[Vec<u8>]) -> String {
    let stream: Vec<u8> = frames.concat();
    if stream != chunks.concat() || frames.iter().any(|f| !well_formed(tr, dir, f)) {
        return "NA generator produced an inconsistent case".into();
    }
    let class = if frames.iter().any(|f| d4_class(tr, dir, f) == "D4") { "D4" } else { "-" };
    let d = if dir == Dir::Req { "req" } else { "rsp" };
    let (out, buf, fault) = recv_loop(tr, d, chunks);
    let want: Vec<String> = frames.iter().map(|f| frame_canon(tr, f)).collect();
    let r: V = if fault {
        Err(format!("receiver hit an error or panic; got {} of {} frames", out.len(), want.len()))
    } else if out != want {
        Err(format!("received frames [{}] != sent [{}]", out.join(";"), want.join(";")))
    } else if !buf.is_empty() {
        Err(format!("{} bytes left in the buffer", buf.len()))
    } else {
        Ok(())
    };
    verdict(class, r.map_err(|e| format!("{e}; chunk sizes {:?}", chunks.iter().map(|c| c.len()).collect::<Vec<_>>())))
}

fn c14(tr: &str, dir: Dir, noise: &[u8], f: &[u8], rest: &[u8]) -> String {
    if !f.is_empty() && !well_formed(tr, dir, f) {
        return "NA generator produced a frame that is not well-formed".into();
    }
    let mut buf = noise.to_vec();
    buf.extend_from_slice(f);
    buf.extend_from_slice(rest);
    if buf.is_empty() {
        return "NA empty".into();
    }
    // open finding D4: the RTU request predictor misreads every offset whose function-code byte is 0x0F/0x10
    let class = if tr == "rtu" && dir == Dir::Req && buf.iter().skip(1).take(257).any(|b| *b == 0x0F || *b == 0x10) { "D4" } else { "-" };
    let s = scan_str(tr, dir, &buf);
    // what the specification says about every offset the scanner may look at
    let lim = buf.len().min(256);
    let ats: Vec<At> = (0..lim).map(|d| if d + 1 >= buf.len() { At::Incomplete } else { frame_at(tr, dir, &buf[d..]) }).collect();
    let first_frame = ats.iter().position(|a| matches!(a, At::Frame(_)));
    let got_start: Option<usize> = if s.starts_with("FRAME ") {
        let t: Vec<&str> = s.split(' ').collect();
        t[t.len() - 2].parse().ok()
    } else {
        None
    };
    let r: V = (|| {
        // clause 2: never a frame that begins after the first complete well-formed frame
        if let (Some(g), Some(ff)) = (got_start, first_frame) {
            if g > ff {
                return Err(format!("reported a frame at {g} although a complete well-formed frame starts at {ff}"));
            }
        }
        // clause 1: implausible noise (every noise offset rejected) of at most 255 bytes, then the frame
        if !f.is_empty() && noise.len() <= 255 && ats[..noise.len()].iter().all(|a| *a == At::Rejected) {
            let want = format!("FRAME {} {} {}", frame_canon(tr, f), noise.len(), f.len());
            if s != want {
                return Err(format!("{} noise bytes then a frame: scanner says {s}, expected {want}", noise.len()));
            }
        }
        // clause 3: none of the first 256 offsets can start a frame -> error, not 'incomplete'
        if buf.len() >= 257 && ats.iter().all(|a| *a == At::Rejected) {
            if !s.starts_with("ERR") {
                return Err(format!("no offset among the first 256 can start a frame ({} bytes) but the scanner says {s}", buf.len()));
            }
        }
        if s == "PANIC" {
            return Err("scanner panicked".into());
        }
        Ok(())
    })();
    verdict(class, r)
}

/* ---------- C12 ---------- */

fn c12_case(size: usize, mut enc: impl FnMut(&mut [u8]) -> Option<Result<usize, Error>>) -> V {
    for len in 0..=size + 3 {
        for fill in [0x00u8, 0xD7] {
            let mut buf = vec![fill; len];
            match enc(&mut buf) {
                None => return Err(format!("panicked with a buffer of {len} bytes (encoded size {size})")),
                Some(Err(_)) => {
                    if len >= size {
                        return Err(format!("error with a buffer of {len} bytes although the encoded size is {size}"));
                    }
                }
                Some(Ok(n)) => {
                    if len < size {
                        return Err(format!("succeeded (n={n}) with a buffer of {len} bytes although the encoded size is {size}"));
                    }
                    if n != size {
                        return Err(format!("returned {n}, encoded size is {size}"));
                    }
                    if buf[n..].iter().any(|x| *x != fill) {
                        return Err(format!("bytes beyond the returned length {n} were modified (buffer {len})"));
                    }
                }
            }
        }
    }
    Ok(())
}

fn c12(kind: &str, t: &[&str]) -> String {
    match kind {
        "tcplen" if t.len() == 2 => {
            // a custom PDU of n + 1 bytes through the TCP ADU encoder: an error or the exact frame, never a panic
            let Ok(n) = t[1].parse::<usize>() else { return "NA unparsable".into() };
            let d = vec![0x5Au8; n];
            let mut buf = vec![0xD7u8; n + 1 + 7 + 2];
            let r = if t[0] == "rsp" {
                catch(|| tcp::server::encode_response(tcp::ResponseAdu { hdr: tcp::Header { transaction_id: 1, unit_id: 9 }, pdu: ResponsePdu(Ok(Response::Custom(FunctionCode::Custom(0x41), &d))) }, &mut buf))
            } else {
                catch(|| tcp::server::encode_request(tcp::RequestAdu { hdr: tcp::Header { transaction_id: 1, unit_id: 9 }, pdu: RequestPdu(Request::Custom(FunctionCode::Custom(0x41), &d)) }, &mut buf))
            };
            verdict("-", match r {
                None => Err(format!("TCP ADU encoder panicked on a PDU of {} bytes", n + 1)),
                Some(Err(_)) => if n + 2 <= 65535 { Err(format!("PDU of {} bytes refused although its length field fits", n + 1)) } else { Ok(()) },
                Some(Ok(k)) => if k == n + 8 && n + 2 <= 65535 && buf[k..].iter().all(|x| *x == 0xD7) && (buf[4] as usize) * 256 + buf[5] as usize == n + 2 { Ok(()) } else { Err(format!("returned {k} with length field {:02X}{:02X} for a PDU of {} bytes", buf[4], buf[5], n + 1)) },
            })
        }
        "req" | "rtureq" | "tcpreq" => {
            let Some((spec, _)) = parse_req(t) else { return "NA unparsable".into() };
            let Some(m) = req_meaning(&spec) else { return "NA not encodable".into() };
            let transplant = matches!(spec, ReqSpec::WmcS(..) | ReqSpec::WmrS(..) | ReqSpec::RwmS(..) | ReqSpec::WmrX(..) | ReqSpec::RwmX(..));
            if !(req_fits(&m) || (transplant && req_count_fits(&m))) {
                return "NA payload out of range".into();
            }
            with_req(&spec, |v| {
                let Some(v) = v else { return "NA constructor refused".into() };
                let Some(pl) = catch(|| v.pdu_len()) else { return fail("-", "pdu_len panicked".into()) };
                // the encoded size is the size of the PDU the specification describes, not what the value reports
                let want = req_bytes(&m).len();
                if pl != want {
                    return fail("-", format!("pdu_len() = {pl} but the PDU has {want} bytes"));
                }
                let r = match kind {
                    "req" => c12_case(pl, |b| catch(|| v.encode(b))).and_then(|_| c12_case(pl, |b| catch(|| RequestPdu(v).encode(b)))),
                    "rtureq" => c12_case(pl + 3, |b| catch(|| rtu::client::encode_request(rtu::RequestAdu { hdr: rtu::Header { slave: 0x11 }, pdu: RequestPdu(v) }, b))),
                    _ => c12_case(pl + 7, |b| catch(|| tcp::server::encode_request(tcp::RequestAdu { hdr: tcp::Header { transaction_id: 0x1234, unit_id: 9 }, pdu: RequestPdu(v) }, b))),
                };
                verdict("-", r)
            })
        }
        _ => {
            let Some((spec, _)) = parse_pdu(t) else { return "NA unparsable".into() };
            let Some(m) = rsp_meaning(&spec) else { return "NA not encodable".into() };
            let transplant = matches!(spec, PduSpec::Rsp(RspSpec::CoilsS(..)) | PduSpec::Rsp(RspSpec::RegsS(..)));
            if !(rsp_fits(&m) || (transplant && rsp_count_fits(&m))) || matches!(m, RspM::Exc(f, _) if f >= 0x80) {
                return "NA payload out of range".into();
            }
            with_pdu(&spec, |p| {
                let Some(p) = p else { return "NA constructor refused".into() };
                let pl = match &p.0 {
                    Ok(v) => match catch(|| v.pdu_len()) {
                        Some(n) => n,
                        None => return fail("-", "pdu_len panicked".into()),
                    },
                    Err(_) => 2,
                };
                // open finding D12: the crate's write-single-coil response has three bytes
                let want = if let RspM::Wsc(_) = m { 3 } else { rsp_bytes(&m).len() };
                if pl != want {
                    return fail("-", format!("pdu_len() = {pl} but the PDU has {want} bytes"));
                }
                let r = match kind {
                    "rsp" => c12_case(pl, |b| catch(|| p.encode(b))).and_then(|_| match &p.0 {
                        Ok(v) => c12_case(pl, |b| catch(|| v.encode(b))),
                        Err(e) => c12_case(pl, |b| catch(|| e.encode(b))),
                    }),
                    "rtursp" => c12_case(pl + 3, |b| catch(|| rtu::server::encode_response(rtu::ResponseAdu { hdr: rtu::Header { slave: 0x11 }, pdu: p }, b))),
                    _ => c12_case(pl + 7, |b| catch(|| tcp::server::encode_response(tcp::ResponseAdu { hdr: tcp::Header { transaction_id: 0x1234, unit_id: 9 }, pdu: p }, b))),
                };
                verdict("-", r)
            })
        }
    }
}

/* ---------- C13 ---------- */

fn coherent_coils(c: &Coils) -> V {
    let n = c.len();
    let probe: Vec<usize> = if n <= 600 { (0..n).collect() } else { (0..300).chain(n - 300..n).collect() };
    for i in probe {
        match catch(|| c.get(i)) {
            Some(Some(_)) => {}
            o => return Err(format!("len is {n} but get({i}) gives {o:?}")),
        }
    }
    for i in [n, n + 1, n + 8, 65535usize.max(n), 65536usize.max(n), usize::MAX] {
        match catch(|| c.get(i)) {
            Some(None) => {}
            o => return Err(format!("len is {n} but get({i}) gives {o:?}")),
        }
    }
    match catch(|| c.into_iter().take(c.len() + 2).count()) {
        Some(k) if k == n => Ok(()),
        o => Err(format!("len is {n} but iteration yields {o:?}")),
    }
}

fn coherent_data(d: &Data) -> V {
    let n = d.len();
    let probe: Vec<usize> = if n <= 600 { (0..n).collect() } else { (0..300).chain(n - 300..n).collect() };
    for i in probe {
        match catch(|| d.get(i)) {
            Some(Some(_)) => {}
            o => return Err(format!("len is {n} but get({i}) gives {o:?}")),
        }
    }
    for i in [n, n + 1, 255usize.max(n), 256usize.max(n), 65536usize.max(n), usize::MAX] {
        match catch(|| d.get(i)) {
            Some(None) => {}
            o => return Err(format!("len is {n} but get({i}) gives {o:?}")),
        }
    }
    match catch(|| d.into_iter().take(d.len() + 2).count()) {
        Some(k) if k == n => Ok(()),
        o => Err(format!("len is {n} but iteration yields {o:?}")),
    }
}

fn coherent_req(v: &Request) -> V {
    match v {
        Request::WriteMultipleCoils(_, c) => coherent_coils(c)?,
        Request::WriteMultipleRegisters(_, d) | Request::ReadWriteMultipleRegisters(_, _, _, d) => coherent_data(d)?,
        _ => {}
    }
    let pl = catch(|| v.pdu_len()).ok_or("pdu_len panicked")?;
    for len in [0usize, 1, pl.saturating_sub(1), pl, pl + 2] {
        let mut b = vec![0u8; len];
        if catch(|| v.encode(&mut b)).is_none() {
            return Err(format!("re-encoding into {len} bytes panicked (pdu_len {pl})"));
        }
    }
    let mut b = vec![0u8; pl + 2];
    match catch(|| v.encode(&mut b)) {
        Some(Ok(n)) => match catch(|| Request::try_from(&b[..n])) {
            Some(Ok(v2)) => {
                if req_str(&v2) == req_str(v) {
                    Ok(())
                } else {
                    Err(format!("re-encode/decode gives {} from {}", req_str(&v2), req_str(v)))
                }
            }
            o => Err(format!("re-encoded bytes {} decode to {:?}", hex_of(&b[..n]), o.map(|x| x.map(|y| req_str(&y))))),
        },
        Some(Err(e)) => Err(format!("re-encoding a decoded value into a large buffer fails: {e:?}")),
        None => Err("re-encoding panicked".into()),
    }
}

fn coherent_rsp(v: &Response) -> V {
    match v {
        Response::ReadCoils(c) | Response::ReadDiscreteInputs(c) => coherent_coils(c)?,
        Response::ReadHoldingRegisters(d) | Response::ReadInputRegisters(d) | Response::ReadWriteMultipleRegisters(d) => coherent_data(d)?,
        _ => {}
    }
    let pl = catch(|| v.pdu_len()).ok_or("pdu_len panicked")?;
    for len in [0usize, 1, pl.saturating_sub(1), pl, pl + 2] {
        let mut b = vec![0u8; len];
        if catch(|| v.encode(&mut b)).is_none() {
            return Err(format!("re-encoding into {len} bytes panicked (pdu_len {pl})"));
        }
    }
    let mut b = vec![0u8; pl + 2];
    match catch(|| v.encode(&mut b)) {
        Some(Ok(n)) => match catch(|| Response::try_from(&b[..n])) {
            Some(Ok(v2)) => {
                let mut b2 = vec![0u8; pl + 2];
                // idempotent up to normalisation: a second round gives the same bytes
                match catch(|| v2.encode(&mut b2)) {
                    Some(Ok(n2)) if b2[..n2] == b[..n] => Ok(()),
                    o => Err(format!("second re-encoding differs: {o:?}")),
                }
            }
            o => Err(format!("re-encoded bytes {} decode to {:?}", hex_of(&b[..n]), o.map(|x| x.map(|y| rsp_str(&y))))),
        },
        Some(Err(e)) => Err(format!("re-encoding a decoded value into a large buffer fails: {e:?}")),
        None => Err("re-encoding panicked".into()),
    }
}

/// open finding D5b, exactly: a write-multiple-coils request that carries fewer data bytes than
/// ceil(quantity / 8) (the decoder keeps `bytes[6..]`, so a larger byte count with the data present is harmless)
fn d5b_class(pdu: &[u8]) -> &'static str {
    if pdu.len() >= 6 && pdu[0] == 0x0F {
        let q = pdu[3] as usize * 256 + pdu[4] as usize;
        if pdu.len() - 6 < (q + 7) / 8 {
            return "D5b";
        }
    }
    "-"
}

fn c13(kind: &str, b: &[u8]) -> String {
    match kind {
        "req" => match catch(|| Request::try_from(b)) {
            Some(Ok(v)) => verdict(d5b_class(b), coherent_req(&v).map_err(|e| format!("{e}; input {}", hex_of(b)))),
            Some(Err(_)) => "NA rejected".into(),
            None => fail("-", "decoder panicked".into()),
        },
        "rsp" => match catch(|| Response::try_from(b)) {
            Some(Ok(v)) => verdict("-", coherent_rsp(&v).map_err(|e| format!("{e}; input {}", hex_of(b)))),
            Some(Err(_)) => "NA rejected".into(),
            None => fail("-", "decoder panicked".into()),
        },
        "rtureq" => match catch(|| rtu::server::decode_request(b)) {
            Some(Ok(Some(a))) => verdict(if b.len() > 3 { d5b_class(&b[1..b.len() - 2]) } else { "-" }, coherent_req(&a.pdu.0)),
            None => fail("-", "decoder panicked".into()),
            _ => "NA rejected".into(),
        },
        "tcpreq" => match catch(|| tcp::server::decode_request(b)) {
            Some(Ok(Some(a))) => verdict(if b.len() > 7 { d5b_class(&b[7..]) } else { "-" }, coherent_req(&a.pdu.0)),
            None => fail("-", "decoder panicked".into()),
            _ => "NA rejected".into(),
        },
        "rtursp" => match catch(|| rtu::client::decode_response(b)) {
            Some(Ok(Some(a))) => match &a.pdu.0 {
                Ok(v) => verdict("-", coherent_rsp(v)),
                Err(_) => "PASS".into(),
            },
            None => fail("-", "decoder panicked".into()),
            _ => "NA rejected".into(),
        },
        _ => match catch(|| tcp::server::decode_response(b)) {
            Some(Ok(Some(a))) => match &a.pdu.0 {
                Ok(v) => verdict("-", coherent_rsp(v)),
                Err(_) => "PASS".into(),
            },
            None => fail("-", "decoder panicked".into()),
            _ => "NA rejected".into(),
        },
    }
}

/* ---------- C15 ---------- */

fn c15(b: &[u8], seed: u64) -> String {
    let mut rng = Rng(seed);
    let conv = |r: Option<Result<Option<usize>, Error>>| -> String {
        match r {
            Some(Ok(Some(n))) => format!("SOME {n}"),
            Some(Ok(None)) => "NONE".into(),
            Some(Err(_)) => "ERR".into(),
            None => "PANIC".into(),
        }
    };
    let refs = |r: Result<Option<usize>, ()>| -> String {
        match r {
            Ok(Some(n)) => format!("SOME {n}"),
            Ok(None) => "NONE".into(),
            Err(()) => "ERR".into(),
        }
    };
    let mut fails: Vec<(String, &'static str)> = vec![];
    for (name, hdr, dir) in [("rtu::request_pdu_len", 1usize, Dir::Req), ("rtu::response_pdu_len", 1, Dir::Rsp), ("tcp::request_pdu_len", 7, Dir::Req), ("tcp::response_pdu_len", 7, Dir::Rsp)] {
        let call = |x: &[u8]| match (hdr, dir) {
            (1, Dir::Req) => conv(catch(|| rtu::request_pdu_len(x))),
            (1, Dir::Rsp) => conv(catch(|| rtu::response_pdu_len(x))),
            (_, Dir::Req) => conv(catch(|| tcp::request_pdu_len(x))),
            _ => conv(catch(|| tcp::response_pdu_len(x))),
        };
        // the RTU/TCP predictors say 'incomplete' until the function code *and one more byte* could be there
        let want = if b.len() < hdr + 1 { "NONE".to_string() } else { refs(predict(hdr, dir, b)) };
        let got = call(b);
        let class = if hdr == 1 && dir == Dir::Req && b.len() > 1 && (b[1] == 0x0F || b[1] == 0x10) { "D4" } else { "-" };
        if got != want {
            fails.push((format!("{name}({}) = {got}, the specification gives {want}", hex_of(b)), class));
            continue;
        }
        // the answer depends on no other byte: rewrite every byte the spec's rule does not read
        if b.len() > hdr {
            let fc = b[hdr];
            let relevant: Vec<usize> = match (dir, fc) {
                (Dir::Req, 0x0F) | (Dir::Req, 0x10) => vec![hdr, hdr + 5],
                (Dir::Req, 0x17) => vec![hdr, hdr + 9],
                (Dir::Rsp, 1..=4) | (Dir::Rsp, 0x0C) | (Dir::Rsp, 0x17) => vec![hdr, hdr + 1],
                (Dir::Rsp, 0x18) => vec![hdr, hdr + 1, hdr + 2],
                _ => vec![hdr],
            };
            let mut x = b.to_vec();
            for i in 0..x.len() {
                if !relevant.contains(&i) {
                    x[i] = rng.u8();
                }
            }
            let got2 = call(&x);
            if got2 != got {
                fails.push((format!("{name}: changing irrelevant bytes {} -> {} changes the answer {got} -> {got2}", hex_of(b), hex_of(&x)), class));
            }
        }
    }
    if fails.is_empty() {
        return "PASS".into();
    }
    // report a failure outside any known class first
    let pick = fails.iter().find(|f| f.1 == "-").unwrap_or(&fails[0]);
    fail(pick.1, pick.0.clone())
}

/* ---------- C16 / C17 ---------- */

fn c16(bits: &[bool], tlen: usize, fill: &str) -> String {
    let n = bits.len();
    let need = (n + 7) / 8;
    let r: V = (|| {
        let mut tgt = mk_fill(fill, tlen).ok_or("fill")?;
        let before = tgt.clone();
        let pr = catch(|| pack_coils(bits, &mut tgt));
        if n == 0 {
            // nothing to pack: from_bools must refuse
            let mut t2 = before.clone();
            return match catch(|| Coils::from_bools(bits, &mut t2).is_err()) {
                Some(true) => Ok(()),
                o => Err(format!("from_bools(empty) gives {o:?}")),
            };
        }
        if tlen < need {
            if !matches!(pr, Some(Err(_))) {
                return Err(format!("pack_coils into {tlen} < {need} bytes gives {pr:?}, expected an error"));
            }
            let mut t2 = before.clone();
            return match catch(|| Coils::from_bools(bits, &mut t2).is_err()) {
                Some(true) => Ok(()),
                o => Err(format!("from_bools into a too-small target gives {o:?}")),
            };
        }
        match pr {
            Some(Ok(k)) if k == need => {}
            o => return Err(format!("pack_coils gives {o:?}, expected Ok({need})")),
        }
        let want = pack_bits(bits);
        if tgt[..need] != want[..] {
            let i = (0..need).find(|i| tgt[*i] != want[*i]).unwrap();
            return Err(format!("packed byte {i} is {:02X}, expected {:02X} (target previously {:02X})", tgt[i], want[i], before[i]));
        }
        if tgt[need..] != before[need..] {
            return Err("pack_coils wrote beyond the packed bytes".into());
        }
        // unpack
        if n <= 65535 {
            for prior in [false, true] {
                let mut out = vec![prior; n + 2];
                match catch(|| unpack_coils(&tgt[..need], n as u16, &mut out)) {
                    Some(Ok(())) if out[..n] == *bits && out[n..] == [prior, prior] => {}
                    o => return Err(format!("unpack_coils of the packed bytes into a destination previously all {prior} gives {o:?} / wrong bits")),
                }
            }
            // short source / short output are errors, not panics
            if need >= 1 {
                let mut out2 = vec![false; n];
                match catch(|| unpack_coils(&tgt[..need - 1], n as u16, &mut out2)) {
                    Some(Err(_)) => {}
                    o => return Err(format!("unpack_coils with a source one byte short gives {o:?}, expected an error")),
                }
            }
            let mut out3 = vec![false; n - 1];
            match catch(|| unpack_coils(&tgt[..need], n as u16, &mut out3)) {
                Some(Err(_)) => {}
                o => return Err(format!("unpack_coils with an output one item short gives {o:?}, expected an error")),
            }
        }
        // the container
        let mut t2 = before.clone();
        let c = match catch(|| Coils::from_bools(bits, &mut t2)) {
            Some(Ok(c)) => c,
            _ => return Err("from_bools failed".into()),
        };
        if c.len() != n || c.is_empty() || c.packed_len() != need || catch(|| packed_coils_len(n)) != Some(need) {
            return Err(format!("len/packed_len/is_empty = {}/{}/{}", c.len(), c.packed_len(), c.is_empty()));
        }
        for i in 0..n {
            if catch(|| c.get(i)) != Some(Some(bits[i])) {
                return Err(format!("get({i}) gives {:?}, expected {}", catch(|| c.get(i)), bits[i]));
            }
        }
        for i in [n, n + 1, n + 7, n + 8, 65535usize.max(n), 65536usize.max(n), 65536 + n, 256 + n - 1, 65536 + n - 1, (1usize << 32) + n - 1, (1usize << 61) + n - 1, (1usize << 63) + n - 1, 1usize << 63, usize::MAX - 1, usize::MAX] {
            if catch(|| c.get(i)) != Some(None) {
                return Err(format!("get({i}) with {n} coils {}, expected None", match catch(|| c.get(i)) { None => "panics".to_string(), Some(v) => format!("gives {v:?}") }));
            }
        }
        match catch(|| c.into_iter().take(c.len() + 2).collect::<Vec<bool>>()) {
            Some(l) if l == bits => {}
            o => return Err(format!("iteration yields {:?} items / wrong bits", o.map(|l| l.len()))),
        }
        // iterator adaptors must agree with indexing, also for huge arguments and after items were consumed
        for i in [0usize, 1, n - 1, n, n + 1, 65536, usize::MAX / 2, usize::MAX - 1, usize::MAX] {
            let want = if i < n { Some(bits[i]) } else { None };
            if catch(|| c.into_iter().nth(i)) != Some(want) {
                return Err(format!("into_iter().nth({i}) gives {:?}, expected {want:?}", catch(|| c.into_iter().nth(i))));
            }
            let want1 = i.checked_add(1).filter(|j| *j < n).map(|j| bits[j]);
            let got1 = catch(|| {
                let mut it = c.into_iter();
                it.next();
                it.nth(i)
            });
            if got1 != Some(want1) {
                return Err(format!("after one next(), nth({i}) {}, expected {want1:?}", match got1 { None => "panicked".to_string(), Some(x) => format!("gives {x:?}") }));
            }
        }
        // the value itself must not depend on what the target held before nor on its excess capacity
        let mut t3: Vec<u8> = before.iter().map(|x| !*x).collect();
        t3.extend([0x3Cu8; 3]);
        match catch(|| Coils::from_bools(bits, &mut t3).map(|c3| (c3 == c, format!("{c3:?}") == format!("{c:?}")))) {
            Some(Ok((true, true))) => {}
            o => return Err(format!("from_bools of the same coils into a target with other prior contents / 3 more bytes compares (==, Debug) {o:?} with the first value")),
        }
        Ok(())
    })();
    verdict("-", r)
}

fn c17(ws: &[u16], tlen: usize, fill: &str) -> String {
    let n = ws.len();
    let r: V = (|| {
        let mut tgt = mk_fill(fill, tlen).ok_or("fill")?;
        let d = catch(|| Data::from_words(ws, &mut tgt));
        if n == 0 || tlen < 2 * n {
            return match d {
                Some(Err(_)) => Ok(()),
                _ => Err(format!("from_words({n} words, target {tlen}) should be an error")),
            };
        }
        let d = match d {
            Some(Ok(d)) => d,
            _ => return Err("from_words failed".into()),
        };
        if d.len() != n || d.is_empty() {
            return Err(format!("len {} != {n}", d.len()));
        }
        for i in 0..n {
            if catch(|| d.get(i)) != Some(Some(ws[i])) {
                return Err(format!("get({i}) gives {:?}, expected {:04X}", catch(|| d.get(i)), ws[i]));
            }
        }
        for i in [n, n + 1, 255usize.max(n), 256 + n, 65536 + n, (1usize << 32) + n - 1, (1usize << 62) + n - 1, usize::MAX / 2, (1usize << 63) + n - 1, 1usize << 63, usize::MAX - 1, usize::MAX] {
            if catch(|| d.get(i)) != Some(None) {
                return Err(format!("get({i}) with {n} words {}, expected None", match catch(|| d.get(i)) { None => "panics".to_string(), Some(v) => format!("gives {v:?}") }));
            }
        }
        match catch(|| d.into_iter().take(d.len() + 2).collect::<Vec<u16>>()) {
            Some(l) if l == ws => {}
            o => return Err(format!("iteration yields {:?} items / wrong words", o.map(|l| l.len()))),
        }
        if 2 * n > 255 {
            return Ok(());
        }
        // every PDU encoded from it is independent of the target's capacity and contents
        let reqs: Vec<(Request, Vec<u8>)> = vec![
            (Request::WriteMultipleRegisters(0x1234, d), req_bytes(&ReqM::Wmr(0x1234, ws.to_vec()))),
            (Request::ReadWriteMultipleRegisters(1, 2, 3, d), req_bytes(&ReqM::Rwm(1, 2, 3, ws.to_vec()))),
        ];
        for (rq, want) in reqs {
            let pl = catch(|| rq.pdu_len());
            if pl != Some(want.len()) {
                return Err(format!("{} words from a {tlen}-byte target: request pdu_len is {pl:?}, the PDU has {} bytes", n, want.len()));
            }
            let mut b = vec![0u8; want.len() + 40];
            match catch(|| rq.encode(&mut b)) {
                Some(Ok(k)) if b[..k] == want[..] => {}
                o => return Err(format!("request encodes to {o:?} / bytes differ from {}", hex_of(&want))),
            }
        }
        let rsps: Vec<(Response, Vec<u8>)> = vec![
            (Response::ReadHoldingRegisters(d), rsp_bytes(&RspM::Regs(3, ws.to_vec()))),
            (Response::ReadInputRegisters(d), rsp_bytes(&RspM::Regs(4, ws.to_vec()))),
            (Response::ReadWriteMultipleRegisters(d), rsp_bytes(&RspM::Regs(0x17, ws.to_vec()))),
        ];
        for (rs, want) in rsps {
            let pl = catch(|| rs.pdu_len());
            if pl != Some(want.len()) {
                return Err(format!("response pdu_len is {pl:?}, the PDU has {} bytes", want.len()));
            }
            let mut b = vec![0u8; want.len() + 40];
            match catch(|| rs.encode(&mut b)) {
                Some(Ok(k)) if b[..k] == want[..] => {}
                o => return Err(format!("response encodes to {o:?} / bytes differ from {}", hex_of(&want))),
            }
        }
        Ok(())
    })();
    verdict("-", r)
}

/* ---------- C18 ---------- */

fn c18() -> String {
    let named: [(u8, &str); 15] = [
        (1, "RC"), (2, "RDI"), (5, "WSC"), (6, "WSR"), (3, "RHR"), (4, "RIR"), (0x0F, "WMC"), (0x10, "WMR"),
        (0x16, "MWR"), (0x17, "RWM"), (7, "RES"), (8, "DIA"), (0x0B, "GCC"), (0x0C, "GCL"), (0x11, "RSI"),
    ];
    let r: V = (|| {
        for b in 0..=255u8 {
            let fc = FunctionCode::new(b);
            if fc.value() != b {
                return Err(format!("FunctionCode::new({b:#04X}).value() = {:#04X}", fc.value()));
            }
            if FunctionCode::Custom(b).value() != b {
                return Err(format!("FunctionCode::Custom({b:#04X}).value() = {:#04X}", FunctionCode::Custom(b).value()));
            }
            let want = named.iter().find(|x| x.0 == b).map(|x| x.1.to_string()).unwrap_or(format!("X{b:02X}"));
            if fc_name(fc) != want {
                return Err(format!("FunctionCode::new({b:#04X}) is {}, expected {want}", fc_name(fc)));
            }
            let ok = [1u8, 2, 3, 4, 5, 6, 8, 10, 11].contains(&b);
            match catch(|| Exception::try_from(b)) {
                Some(Ok(e)) if ok && e as u8 == b => {}
                Some(Err(_)) if !ok => {}
                o => return Err(format!("Exception::try_from({b}) = {:?}", o.map(|x| x.map(|e| e as u8)))),
            }
        }
        for k in 0..9 {
            let e = exc_of_idx(k).unwrap();
            if [1u8, 2, 3, 4, 5, 6, 8, 10, 11][k] != e as u8 {
                return Err(format!("exception #{k} has discriminant {}", e as u8));
            }
        }
        for v in 0..=65535u16 {
            match (v, u16_coil_to_bool(v)) {
                (0xFF00, Ok(true)) | (0x0000, Ok(false)) => {}
                (0xFF00, _) | (0x0000, _) => return Err(format!("u16_coil_to_bool({v:#06X}) wrong")),
                (_, Err(_)) => {}
                (_, Ok(b)) => return Err(format!("u16_coil_to_bool({v:#06X}) accepted as {b}")),
            }
        }
        if bool_to_u16_coil(true) != 0xFF00 || bool_to_u16_coil(false) != 0 {
            return Err("bool_to_u16_coil wrong".into());
        }
        Ok(())
    })();
    verdict("-", r)
}

fn c18_first_byte(kind: &str, t: &[&str]) -> String {
    if kind == "req" {
        let Some((spec, _)) = parse_req(t) else { return "NA unparsable".into() };
        if unimplemented_req(&spec) {
            return d19_req(&spec);
        }
        with_req(&spec, |v| {
            let Some(v) = v else { return "NA constructor refused".into() };
            let Some(pl) = catch(|| v.pdu_len()) else { return "NA not encodable".into() };
            let mut b = vec![0u8; pl + 1];
            match catch(|| v.encode(&mut b)) {
                Some(Ok(_)) => {
                    let fc = FunctionCode::from(v).value();
                    if fc == b[0] {
                        "PASS".into()
                    } else {
                        fail("-", format!("FunctionCode::from(request).value() = {fc:#04X} but the encoding starts with {:#04X}", b[0]))
                    }
                }
                _ => "NA not encodable".into(),
            }
        })
    } else {
        let Some((spec, _)) = parse_rsp(t) else { return "NA unparsable".into() };
        if unimplemented_rsp(&PduSpec::Rsp(spec.clone())) {
            return d19_rsp(&PduSpec::Rsp(spec.clone()));
        }
        with_rsp(&spec, |v| {
            let Some(v) = v else { return "NA constructor refused".into() };
            let Some(pl) = catch(|| v.pdu_len()) else { return "NA not encodable".into() };
            let mut b = vec![0u8; pl + 1];
            match catch(|| v.encode(&mut b)) {
                Some(Ok(_)) => {
                    let fc = FunctionCode::from(v).value();
                    if fc == b[0] {
                        "PASS".into()
                    } else {
                        fail("-", format!("FunctionCode::from(response).value() = {fc:#04X} but the encoding starts with {:#04X}", b[0]))
                    }
                }
                _ => "NA not encodable".into(),
            }
        })
    }
}

/* ---------- dispatch ---------- */

fn dir_of(s: &str) -> Dir {
    if s == "req" {
        Dir::Req
    } else {
        Dir::Rsp
    }
}

fn hexlist(s: &str) -> Option<Vec<Vec<u8>>> {
    if s.is_empty() {
        return Some(vec![]);
    }
    s.split(',').map(parse_hex).collect()
}

pub fn oracle_line(line: &str) -> String {
    let t: Vec<&str> = line.split_whitespace().collect();
    if t.len() < 2 || t[0] != "#@" {
        return "SKIP".into();
    }
    match catch(|| oracle_step(&t[1..])) {
        Some(s) => s,
        None => fail("-", "oracle itself panicked".into()),
    }
}

fn oracle_step(t: &[&str]) -> String {
    let bad = || "NA unparsable oracle line".to_string();
    match t[0] {
        "C01" => parse_req(&t[1..]).map(|(s, _)| c01(&s)).unwrap_or_else(bad),
        "C02" => parse_pdu(&t[1..]).map(|(s, _)| c02(&s)).unwrap_or_else(bad),
        "C03" if t.len() > 2 => {
            if t[1] == "req" {
                parse_req(&t[2..]).map(|(s, _)| c03_req(&s)).unwrap_or_else(bad)
            } else {
                parse_pdu(&t[2..]).map(|(s, _)| c03_rsp(&s)).unwrap_or_else(bad)
            }
        }
        "C04" if t.len() > 3 => {
            let Ok(id) = t[2].parse::<u8>() else { return bad() };
            if t[1] == "req" {
                parse_req(&t[3..]).map(|(s, _)| adu_req("rtu", 0, id, &s)).unwrap_or_else(bad)
            } else {
                parse_pdu(&t[3..]).map(|(s, _)| adu_rsp("rtu", 0, id, &s)).unwrap_or_else(bad)
            }
        }
        "C05" if t.len() == 4 && t[1] == "len" => {
            let Ok(n) = t[3].parse::<usize>() else { return bad() };
            c05_len(n, t[2] == "rsp")
        }
        "C05" if t.len() > 4 => {
            let (Ok(tid), Ok(id)) = (t[2].parse::<u16>(), t[3].parse::<u8>()) else { return bad() };
            if t[1] == "req" {
                parse_req(&t[4..]).map(|(s, _)| adu_req("tcp", tid, id, &s)).unwrap_or_else(bad)
            } else {
                parse_pdu(&t[4..]).map(|(s, _)| adu_rsp("tcp", tid, id, &s)).unwrap_or_else(bad)
            }
        }
        "C06" if t.len() == 2 => parse_hex(t[1]).map(|b| c06(&b)).unwrap_or_else(bad),
        "C07" if t.len() == 2 => parse_hex(t[1]).map(|b| c07(&b)).unwrap_or_else(bad),
        "C08" if t.len() >= 3 => match t[1] {
            "snd" => parse_hex(t[2]).map(|b| c08_snd(&b)).unwrap_or_else(bad),
            "flt" | "fltfull" if t.len() == 5 => {
                let (Some(b), Ok(seed)) = (parse_hex(t[3]), t[4].parse::<u64>()) else { return bad() };
                c08_flt(dir_of(t[2]), &b, seed, t[1] == "fltfull")
            }
            _ => bad(),
        },
        "C09" if t.len() == 2 => parse_hex(t[1]).map(|b| c09(&b)).unwrap_or_else(bad),
        "C10" if t.len() == 5 => {
            let (Some(f), Some(s)) = (parse_hex(t[3]), parse_hex(t[4])) else { return bad() };
            c10(t[1], dir_of(t[2]), &f, &s)
        }
        "C11" if t.len() == 5 => {
            let (Some(fr), Some(ch)) = (hexlist(t[3]), hexlist(t[4])) else { return bad() };
            c11(t[1], dir_of(t[2]), &fr, &ch)
        }
        "C12" if t.len() > 2 => c12(t[1], &t[2..]),
        "C13" if t.len() == 3 => parse_hex(t[2]).map(|b| c13(t[1], &b)).unwrap_or_else(bad),
        "C14" if t.len() == 6 => {
            let (Some(n), Some(f), Some(r)) = (parse_hex(t[3]), parse_hex(t[4]), parse_hex(t[5])) else { return bad() };
            c14(t[1], dir_of(t[2]), &n, &f, &r)
        }
        "C15" if t.len() == 3 => {
            let (Some(b), Ok(seed)) = (parse_hex(t[1]), t[2].parse::<u64>()) else { return bad() };
            c15(&b, seed)
        }
        "C16" if t.len() == 4 => {
            let (Some(bits), Ok(tl)) = (parse_bits(t[1]), t[2].parse::<usize>()) else { return bad() };
            c16(&bits, tl, t[3])
        }
        "C17" if t.len() == 4 => {
            let (Some(ws), Ok(tl)) = (parse_words(t[1]), t[2].parse::<usize>()) else { return bad() };
            c17(&ws, tl, t[3])
        }
        "C18" if t.len() == 2 && t[1] == "tables" => c18(),
        "C18" if t.len() > 2 => c18_first_byte(t[1], &t[2..]),
        "C19" if t.len() > 2 => {
            if t[1] == "req" {
                parse_req(&t[2..]).map(|(s, _)| c19_req(&s)).unwrap_or_else(bad)
            } else {
                parse_pdu(&t[2..]).map(|(s, _)| c19_rsp(&s)).unwrap_or_else(bad)
            }
        }
        _ => bad(),
    }
}

//! hex, numbers, fills, PRNG, panic catching
use std::panic::{catch_unwind, AssertUnwindSafe};

pub fn hex_of(bs: &[u8]) -> String {
    if bs.is_empty() {
        return "-".to_string();
    }
    let mut s = String::with_capacity(bs.len() * 2);
    for b in bs {
        s.push_str(&format!("{:02X}", b));
    }
    s
}

pub fn parse_hex(s: &str) -> Option<Vec<u8>> {
    if s == "-" {
        return Some(vec![]);
    }
    let b = s.as_bytes();
    if b.len() % 2 != 0 {
        return None;
    }
    let mut out = Vec::with_capacity(b.len() / 2);
    for i in (0..b.len()).step_by(2) {
        let h = (b[i] as char).to_digit(16)?;
        let l = (b[i + 1] as char).to_digit(16)?;
        out.push((h * 16 + l) as u8);
    }
    Some(out)
}

/// fill token: `xx` constant byte, `xxr` the pattern `(xx + 29*i) mod 256`
pub fn mk_fill(tok: &str, len: usize) -> Option<Vec<u8>> {
    let b = tok.as_bytes();
    if b.len() == 2 {
        let x = parse_hex(tok)?[0];
        Some(vec![x; len])
    } else if b.len() == 3 && b[2] == b'r' {
        let x = parse_hex(&tok[..2])?[0];
        Some((0..len).map(|i| (x as usize + 29 * i) as u8).collect())
    } else {
        None
    }
}

pub fn parse_bits(s: &str) -> Option<Vec<bool>> {
    let r = s.strip_prefix('B')?;
    r.chars()
        .map(|c| match c {
            '1' => Some(true),
            '0' => Some(false),
            _ => None,
        })
        .collect()
}

pub fn bits_str(b: &[bool]) -> String {
    let mut s = String::with_capacity(b.len() + 1);
    s.push('B');
    for x in b {
        s.push(if *x { '1' } else { '0' });
    }
    s
}

pub fn parse_words(s: &str) -> Option<Vec<u16>> {
    let r = s.strip_prefix('W')?;
    if r.is_empty() {
        return Some(vec![]);
    }
    r.split(',')
        .map(|w| if w.len() == 4 { u16::from_str_radix(w, 16).ok() } else { None })
        .collect()
}

pub fn words_str(w: &[u16]) -> String {
    let mut s = String::from("W");
    s.push_str(&w.iter().map(|x| format!("{:04X}", x)).collect::<Vec<_>>().join(","));
    s
}

pub fn parse_idx_list(s: &str) -> Option<Vec<usize>> {
    if s == "-" {
        return Some(vec![]);
    }
    s.split(',').map(|x| x.parse::<usize>().ok()).collect()
}

/// run `f`, mapping a panic to `None`
pub fn catch<T>(f: impl FnOnce() -> T) -> Option<T> {
    catch_unwind(AssertUnwindSafe(f)).ok()
}

/// SplitMix64: every random choice of a run derives from one seed
pub struct Rng(pub u64);
impl Rng {
    pub fn next(&mut self) -> u64 {
        self.0 = self.0.wrapping_add(0x9E3779B97F4A7C15);
        let mut z = self.0;
        z = (z ^ (z >> 30)).wrapping_mul(0xBF58476D1CE4E5B9);
        z = (z ^ (z >> 27)).wrapping_mul(0x94D049BB133111EB);
        z ^ (z >> 31)
    }
    pub fn below(&mut self, n: usize) -> usize {
        if n == 0 {
            0
        } else {
            (self.next() % n as u64) as usize
        }
    }
    pub fn u8(&mut self) -> u8 {
        self.next() as u8
    }
    pub fn u16(&mut self) -> u16 {
        self.next() as u16
    }
    pub fn bool(&mut self) -> bool {
        self.next() & 1 == 1
    }
    pub fn pick<'a, T>(&mut self, xs: &'a [T]) -> &'a T {
        &xs[self.below(xs.len())]
    }
    pub fn bytes(&mut self, n: usize) -> Vec<u8> {
        (0..n).map(|_| self.u8()).collect()
    }
    /// `lo + below(span)` random bytes
    pub fn rbytes(&mut self, lo: usize, span: usize) -> Vec<u8> {
        let n = lo + self.below(span);
        self.bytes(n)
    }
    /// boundary-biased 16-bit value
    pub fn addr(&mut self) -> u16 {
        match self.below(8) {
            0 => 0,
            1 => 0xFF,
            2 => 0x100,
            3 => 0xFFFF,
            4 => 0xFF00,
            _ => self.u16(),
        }
    }
}

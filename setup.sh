#!/bin/sh
# Build the framework from files on disk only (offline): Lean model + theorems + driver, Rust harness.
set -e
cd "$(dirname "$0")"
export CARGO_NET_OFFLINE=true
(cd lean && lake build Modbus driver)
(cd harness && cargo build --release --offline --quiet)
echo "setup ok"

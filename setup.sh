#!/bin/sh
# Build the framework from files on disk only (offline): Lean model + theorems + driver, Rust harness.
set -e
cd "$(dirname "$0")"
export CARGO_NET_OFFLINE=true
python3 tools/cfg_translate.py /repo > /dev/null
PROPS=$(ls lean/Modbus/Props/*.lean | sed 's#lean/##; s#/#.#g; s#\.lean$##')
(cd lean && lake build Modbus driver $PROPS)
(cd harness && cargo build --release --offline --quiet)
echo "setup ok"

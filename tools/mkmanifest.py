#!/usr/bin/env python3
"""Regenerates /verif/MANIFEST.json from the table below (claimed properties, levels, notes)."""
import json, os
VERIF = os.path.dirname(os.path.dirname(os.path.abspath(__file__)))

COMMON_NOTE = ("Theorems are about a hand-written Lean 4 model (lean/Modbus/Model); the model is tied to /repo's current source on "
               "every run by a differential correspondence check (real crate in-process vs compiled model driver on the same ops), "
               "sampled unless marked exhaustive. Trusted: Lean kernel, axioms propext/Quot.sound/Classical.choice only (audited per run), "
               "the harness (op runner, canonical printer, reference encoders), Spec/*.lean as a transcription of the Modbus documents, "
               "dev-profile checked arithmetic and 64-bit usize. ")

# id -> (claimed?, technique, level text, extra note, design ref)
PROPS = {}

def claim(pid, technique, text, note="", ref=None):
    PROPS[pid] = dict(claimed=True, technique=technique, text=text, note=note, ref=ref or f"DESIGN.md section 6, {pid}")

def unclaimed(pid, reason):
    PROPS[pid] = dict(claimed=False, reason=reason)

exec(open(os.path.join(VERIF, "tools", "claims.py")).read())

checks, na = [], []
for pid in sorted(PROPS):
    p = PROPS[pid]
    if not p["claimed"]:
        na.append(dict(property_id=pid, reason=p["reason"])); continue
    checks.append(dict(
        property_id=pid,
        quick_cmd=f"./check {pid} quick",
        thorough_cmd=f"./check {pid} thorough",
        evidence_file=f"/verif/evidence/{pid}.json",
        replay_cmd_template="./check replay {path}",
        engine="lean-model+correspondence",
        level_claimed=dict(category="proof", text=p["text"], design_ref=p["ref"]),
        level_note=COMMON_NOTE + p["note"],
        technique=p["technique"],
    ))

manifest = dict(
    version=1,
    setup_cmd="./setup.sh",
    hooks=dict(guard="--cfg modbus_core_verif", enable="none needed: every property is observable through the public API (hook_needed is null for all); the harness links /repo as a path dependency with default features",
               baseline_off_cmd="cd /repo && cargo test --workspace --no-fail-fast --offline", source_commits=[], add_only=True),
    engines=[dict(name="lean-model+correspondence", path="/verif/check", serves_properties=[c["property_id"] for c in checks],
                  kind_free_text="Lean 4 theorems about a hand-written executable model; differential correspondence harness (Rust, in-process) ties model to code; property oracles search for concrete failing inputs")],
    checks=checks,
    notes="Known findings (open and fixed) are in /verif/KNOWN_FINDINGS.txt; design and trusted base in /verif/DESIGN.md.",
    not_applicable=na,
)
json.dump(manifest, open(os.path.join(VERIF, "MANIFEST.json"), "w"), indent=1)
print(f"MANIFEST.json: {len(checks)} checks, {len(na)} not claimed")

#!/usr/bin/env python3
"""Confirm seeded changes and run the checks against them; stores /verif/seeded/<id>/ (patch.diff, demo, meta.json)."""
import sys, os, subprocess, json, re, shutil
TABLE = json.load(open(sys.argv[1]))
only = sys.argv[2:]
for e in TABLE:
    sid = e["id"]
    if only and sid not in only: continue
    d = f"/verif/seeded/{sid}"
    p = subprocess.run([sys.executable, "/verif/tools/seedtest.py", e["worktree"], e["patch"], e["demo"]] + e["props"],
                       stdout=subprocess.PIPE, stderr=subprocess.STDOUT, text=True)
    out = p.stdout
    confirmed = "\nCONFIRMED" in out or out.startswith("CONFIRMED")
    print(f"=== {sid}: {'CONFIRMED' if confirmed else 'NOT CONFIRMED'}")
    results = {}
    cur = None
    for l in out.splitlines():
        m = re.match(r"--- (C\d\d): rc=(\d+)", l)
        if m: cur = m.group(1); results[cur] = dict(rc=int(m.group(2)), lines=[]); continue
        if cur and l.startswith("   "): results[cur]["lines"].append(l.strip())
    for k, v in results.items():
        viol = [x for x in v["lines"] if x.startswith("VIOLATION")]
        detail = [x for x in v["lines"] if x.startswith(("oracle_line", "observed", "op:", "crate", "model"))]
        kind = "missed" if not viol else ("no-failing-input" if "no-failing-input-found" in viol[0] else "failing-input")
        print(f"   {k}: {kind}  {' | '.join(detail)[:260]}")
    if confirmed:
        os.makedirs(d, exist_ok=True)
        shutil.copy(e["patch"], f"{d}/patch.diff")
        shutil.copy(e["demo"], f"{d}/{os.path.basename(e['demo'])}")
        meta = dict(id=sid, breaks=e["breaks"], needs=e["needs"], source=e.get("source", "independent sub-agent given only the property text"),
                    confirmed=dict(ran=f"tools/seedtest.py {e['worktree']} … : unedited suite with patch 100/100, demo fails with patch, passes without",
                                   raw=out[:out.find('CONFIRMED')].strip()[:800]),
                    checks_run={k: dict(exit=v["rc"], summary=v["lines"][:6]) for k, v in results.items()})
        json.dump(meta, open(f"{d}/meta.json", "w"), indent=1)

# leave the translator-generated cfg model in the state of the unchanged tree
import subprocess as _sp
_sp.run(["python3", "/verif/tools/cfg_translate.py", "/repo"], stdout=_sp.DEVNULL)

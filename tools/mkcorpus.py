#!/usr/bin/env python3
"""Build corpus/<id>.ops from the failing inputs the checks find on every seeded change (and the historical
defect witnesses): these cases then run FIRST in every check, so a regression of the same kind is caught
independently of the seed."""
import os
os.environ["VERIF_EVIDENCE_DIR"] = "/verif/.build/evidence-scratch"
import sys, os, subprocess, json, re, glob, collections
def sh(c, cwd=None):
    return subprocess.run(c, shell=True, cwd=cwd, stdout=subprocess.PIPE, stderr=subprocess.STDOUT, text=True).stdout
corpus = collections.defaultdict(list)
for f in glob.glob("/verif/corpus/*.ops"):
    corpus[os.path.basename(f)[:-4]] = [l.rstrip("\n") for l in open(f) if l.strip()]
only = sys.argv[1:]          # optional id prefixes: add the failing inputs of these seeded changes only
for d in sorted(glob.glob("/verif/seeded/S*")):
    m = json.load(open(d + "/meta.json"))
    if only and not any(m["id"].startswith(o) for o in only): continue
    target = re.findall(r"C\d\d", m["breaks"])[0]
    if target == "C20": continue
    if sh(f"git -C /repo apply {d}/patch.diff").strip():
        print(m["id"], "apply failed"); continue
    try:
        o = sh(f"./check {target} quick", "/verif")
        v = [l for l in o.splitlines() if l.startswith("VIOLATION")]
        mm = re.search(r"replay=(\S+)", v[0]) if v else None
        added = 0
        if mm:
            r = json.load(open(mm.group(1)))
            lines = [r.get("oracle_line")] + [x.get("oracle_line") for x in r.get("further", [])[:2]]
            for ln in lines:
                if ln and len(ln) < 3000 and ln not in corpus[target]:
                    corpus[target].append(ln); added += 1
        print(f"{m['id']:38s} {target} +{added}", flush=True)
    finally:
        sh("git -C /repo checkout -- .")
os.makedirs("/verif/corpus", exist_ok=True)
for k, v in corpus.items():
    open(f"/verif/corpus/{k}.ops", "w").write("\n".join(v) + "\n")
print({k: len(v) for k, v in corpus.items()})

# leave the translator-generated cfg model in the state of the unchanged tree
import subprocess as _sp
_sp.run(["python3", "/verif/tools/cfg_translate.py", "/repo"], stdout=_sp.DEVNULL)

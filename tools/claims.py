# Which properties are claimed right now.  A property is claimed once its first theorems build,
# its correspondence runs clean on the unchanged tree and its check exits 0.
for _p in ["C%02d" % i for i in range(1, 21)]:
    unclaimed(_p, "not claimed yet in this revision: model, correspondence and oracle run, theorem module still being written (no technique switch; see DESIGN.md)")

claim("C12", "Lean 4 theorems (tiled-write lemma, per-encoder equation) + differential correspondence",
      "Proved for the model, for every encodable request/response/exception/RTU/TCP ADU and every buffer (any length, any contents): "
      "encode = error if the buffer is shorter than the encoded size, else exactly (size, image ++ old tail); no panic; bytes beyond the returned length untouched "
      "(Props/C12.lean: EncSpec.property, request, response, exceptionResponse, responsePdu, rtuRequest, rtuResponse, tcpRequest, tcpResponse). "
      "Model tied to the crate by running every encoder on generated values x buffer lengths 0..size+3 x two fills and comparing whole buffers.",
      "Encodable = implemented kind, byte count <= 255, container holds the promised bytes; RTU-only kinds (todo!() in the crate) are outside the theorem.")

claim("C18", "Lean 4 theorems by finite case analysis (decide +kernel over all 256 bytes) + exhaustive differential correspondence",
      "Proved for the model: FunctionCode.new/value round trip for all 256 bytes, named standard codes, exactly the nine exception codes accepted and mapping back, "
      "exactly 0xFF00/0x0000 accepted as coil values, and the function code of any request/response the encoder accepts equals the first encoded byte "
      "(Props/C18.lean). The model's tables are tied to the crate exhaustively: every byte, every 16-bit coil value, every kind.",
      "For these finite functions the model/code tie is complete (exhaustive: true in the evidence).")

claim("C20", "translator-generated cfg model + Lean 4 theorem by decide +kernel over all feature subsets + exhaustive cargo correspondence",
      "Partial by nature. The cfg model (Gen/Cfg.lean) is REGENERATED from /repo's source on every run by tools/cfg_translate.py; the theorem cfg_consistent says that for every "
      "subset of the features (with and without cfg(test)) no active code mentions a gated enum variant / type alias that is absent and every match over a gated enum stays exhaustive; "
      "no_unsafe_no_std covers the source-level facts. Compilation proper and the test outcomes are observed by running cargo check / cargo test on every documented selection "
      "(thorough: all 8 subsets), and the model's per-selection verdict is compared with cargo's.",
      "Not carried by the model: type checking, borrow checking, name resolution beyond enum variants and aliases, test outcomes (observed, not proved). "
      "The translator flags any cfg shape it does not understand as untranslatable, which fails the theorem.",
      ref="DESIGN.md section 6, C20")

# Which properties are claimed right now.  A property is claimed once its first theorems build,
# its correspondence runs clean on the unchanged tree and its check exits 0.
for _p in ["C%02d" % i for i in range(1, 21)]:
    unclaimed(_p, "not claimed yet in this revision: model, correspondence and oracle run, theorem module still being written (no technique switch; see DESIGN.md)")

# Which properties are claimed right now.  A property is claimed once its first theorems build,
# its correspondence runs clean on the unchanged tree and its check exits 0.
for _p in ["C%02d" % i for i in range(1, 21)]:
    unclaimed(_p, "not claimed yet in this revision: model, correspondence and oracle run, theorem module still being written (no technique switch; see DESIGN.md)")

claim("C12", "Lean 4 theorems (tiled-write lemma, per-encoder equation) + differential correspondence",
      "Proved for the model, for every encodable request/response/exception/RTU/TCP ADU and every buffer (any length, any contents): "
      "encode = error if the buffer is shorter than the encoded size, else exactly (size, image ++ old tail); no panic; bytes beyond the returned length untouched "
      "(Props/C12.lean: EncSpec.property, request, response, exceptionResponse, responsePdu, rtuRequest, rtuResponse, tcpRequest, tcpResponse; the TCP encoders additionally refuse a PDU that does not fit the 16-bit MBAP length field: "
      "tcp_exact, tcp_oversize_refused, tcpRequest_total). "
      "Model tied to the crate by running every encoder on generated values x buffer lengths 0..size+3 x two fills and comparing whole buffers.",
      "Encodable = implemented kind, byte count <= 255, container holds the promised bytes; RTU-only kinds (todo!() in the crate) are outside the theorem.")

claim("C18", "Lean 4 theorems by finite case analysis (decide +kernel over all 256 bytes) + exhaustive differential correspondence",
      "Proved for the model: FunctionCode.new/value round trip for all 256 bytes, named standard codes, exactly the nine exception codes accepted and mapping back, "
      "exactly 0xFF00/0x0000 accepted as coil values, and the function code of any request/response the encoder accepts equals the first encoded byte "
      "(Props/C18.lean). The model's tables are tied to the crate exhaustively: every byte, every 16-bit coil value, every kind.",
      "For these finite functions the model/code tie is complete (exhaustive: true in the evidence). Open finding D19: the nine serial-line-only kinds have a function code but no encoding (pdu_len/encode are todo!()/unimplemented!()); req/rsp_fc_first_byte cover every value whose encode succeeds.")

claim("C20", "translator-generated cfg model + Lean 4 theorem by decide +kernel over all feature subsets + exhaustive cargo correspondence",
      "Partial by nature. The cfg model (Gen/Cfg.lean) is REGENERATED from /repo's source on every run by tools/cfg_translate.py; the theorem cfg_consistent says that for every "
      "subset of the features (with and without cfg(test)) no active code mentions a gated enum variant / type alias that is absent and every match over a gated enum stays exhaustive; "
      "no_unsafe_no_std covers the source-level facts. Compilation proper and the test outcomes are observed by running cargo check / cargo test on every documented selection "
      "(thorough: all 8 subsets), and the model's per-selection verdict is compared with cargo's.",
      "Not carried by the model: type checking, borrow checking, name resolution beyond enum variants and aliases, test outcomes (observed, not proved). "
      "The translator flags any cfg shape it does not understand as untranslatable, which fails the theorem.",
      ref="DESIGN.md section 6, C20")

claim("C07", "Lean 4 theorems (guard analysis per index site, induction over the scan loop) + differential correspondence on a malformed-input stream",
      "Proved for the model, for EVERY byte list: Request/Response/ExceptionResponse decode, the four length predictors, both extract_frame (every pdu_len below the usize overflow point, "
      "with a panic_iff lemma showing nothing else panics), both scanners in both directions and the four ADU decoders never return `panic`; termination is Lean's acceptance of the scan loop "
      "(Props/C07.lean). The model returns `panic` at every index/slice/read/checked-add the Rust has, so each theorem is the argument that the guard suffices; PANIC vs ERR is part of the diff. "
      "Props/C07Dead.lean: the only lines of the crate the correspondence stream never executes (measured by tools/tiecov.py: 868/880 lines, 154/158 branch outcomes) are proved dead in the model — a framed response always passes the PDU stage, "
      "the second MBAP header test in tcp::extract_frame and the post-encode size test of the TCP encoders never fire.",
      "extract_frame(buf, n) with n + 3 (RTU) / n + 7 (TCP) >= 2^64 overflows the checked addition in the crate and in the model; n is a caller-supplied length, not an input byte slice, and is outside the property's quantifier.")

claim("C15", "Lean 4 theorems (byte-wise classification by decide +kernel, equality of functions of the whole buffer) + dense differential correspondence",
      "Proved for the model: rtu/tcp response_pdu_len and tcp request_pdu_len EQUAL the specification's predictor (Spec/Lengths.lean) as functions of the whole buffer, so the answer depends only on the length, "
      "the function code and the count byte(s) (…_depends_only); rtu request_pdu_len equals it except for 0x0F/0x10 (…_partial), whose exact defective behaviour is pinned (rtu_req_len_defect, witness; rtu_req_len_depends_only_partial / …_asbuilt give the dependence statement for RTU requests as well).",
      "Open finding D4 (RTU 0x0F/0x10 reads offset 4) is pinned by the unedited test suite; see KNOWN_FINDINGS.txt. Correspondence covers all 256 function codes x lengths 0..24 x count values at every candidate position.")

claim("C16", "Lean 4 theorems (bit-level loop invariant for the packing loop, byte extensionality, induction over coil lists) + differential correspondence (exhaustive to 10/16 coils)",
      "Proved for the model, for every boolean list of any length and every prior target content: pack_coils yields ceil(n/8) bytes equal to the specification's arithmetic packing (coil i = bit i mod 8 of byte i div 8, padding zero), "
      "independent of what the target held, bytes beyond untouched; unpack, get (for EVERY index value), iteration return exactly the booleans; too-small targets/sources are errors, never panics; the VALUE from_bools returns is "
      "exactly <packBits bs, n>, the same for any two targets (from_bools_value, from_bools_value_independent; fix 17b455d) (Props/C16.lean).",
      "Correspondence: all boolean sequences up to 10 (quick) / 16 (thorough) coils x clean/dirty/patterned targets, byte boundaries up to 2049, 65536+ coils, indices up to usize::MAX.")

claim("C17", "Lean 4 theorems (induction over word lists; the target does not occur in the result) + differential correspondence",
      "Proved for the model, for every non-empty word list and every target of capacity >= 2n with any contents: from_words = <big-endian bytes of the words, n> (no dependence on the target), len/get (every index value)/iteration "
      "reproduce the words, every register PDU encoded from the value equals the specification's bytes of the words alone; too-small targets are errors (Props/C17.lean).",
      "Correspondence: n = 0..130, 255..257, 300, 1000 x capacities 2n-1..4n+2 x fills, indices up to usize::MAX, then the PDUs built from the value.")

claim("C10", "Lean 4 theorems (generic scan-loop lemmas instantiated for the four scanners via the specification's length table) + differential correspondence over every prefix length",
      "Proved for the model, for EVERY well-formed frame (all function codes of the length table, all payload sizes): every strict non-empty prefix gives 'incomplete' at the scanner and at the ADU decoder, "
      "the whole frame is found at (0, length), and any appended bytes do not change the result — TCP both directions and RTU responses at full strength; RTU requests as ..._partial excluding function codes 0x0F/0x10 "
      "(open finding D4, with defect witnesses) (Props/C10.lean).",
      "Well-formed = Spec/Frames.lean (PDU complete per the specification's length table; RTU CRC is the model's crc16, which C06 ties to CRC-16/MODBUS).")

claim("C11", "Lean 4 theorem by induction over the chunk list (all arrival schedules at once) + differential correspondence of the receive loop",
      "Proved for a model of the caller-side receive loop: for every list of frames the scanner handles (C10's Good) and EVERY way of cutting the stream into pieces (empty pieces allowed, any number of frames), "
      "the receiver ends with exactly the original frames in order, an empty buffer and no fault (reassembly_all_chunkings); instantiated for TCP requests/responses and RTU responses; RTU request streams as ..._partial "
      "without 0x0F/0x10 frames (open finding D4, witness) (Props/C11.lean).",
      "The receive loop (append piece, scan, remove start+size, repeat) lives in the caller; it is modelled in Model/Receiver.lean and the harness runs the same loop around the crate's decode.")

claim("C06", "Lean 4 theorems (register algebra on BitVec 16, byte-wise simulation lemma, induction over the message) + differential correspondence (exhaustive for strings of length 0..2)",
      "Proved for the model, for EVERY byte string: the register computed by crc16 equals the bit-serial CRC-16/MODBUS LFSR of Spec/Crc.lean (reflected poly 0xA001, init 0xFFFF, no final xor), also in Rocksoft-parameter form "
      "(poly 0x8005, refin, refout); big-endian serialisation of the returned value puts the low-order CRC byte first (crc_wire_low_first); appending the serialised checksum gives checksum zero (crc_residue); "
      "the catalogued check value 0x4B37 for \"123456789\" anchors the parameters (Props/C06.lean).",
      "Correspondence: every string of length 0, 1 and 2 (65 793), random strings up to 600 bytes, constant strings of 255..1000 bytes; thorough adds 393 216 three-byte strings.")

claim("C08", "Lean 4 theorems (soundness by guard analysis; error detection by linearity of the CRC register, the back-step argument for bursts, and a kernel-computed orbit for bit pairs) + differential correspondence + fault-injection search",
      "Proved for the model: (soundness) whatever extract_frame, the scanners or the RTU ADU decoders return lies inside the input at the reported location, size = PDU length + 3, slave id and PDU are the bytes there, "
      "and the two bytes after the PDU equal crc16 of slave id and PDU (Props/C08.lean); (error detection, every frame length) a frame accepted at full length and altered by any single-bit error, any burst of <= 16 bits, "
      "or any double-bit error (frames <= 256 bytes; also proved up to 4095 bytes) is rejected with a CRC error at its original position (Props/C08Crc.lean: crc_detects and its parts); "
      "C08Full.lean carries both halves through the scanners and ADU decoders for every built value, also for a corrupted frame embedded at any offset after arbitrary bytes (…_embedded).",
      "The oracle's fault injection (all single-bit flips, sampled bursts and bit pairs on generated frames) is the search for a failing input, not the verdict.")

claim("C09", "Lean 4 theorems (guard analysis of extract_frame and of the scan loop) + differential correspondence around every header field",
      "Proved for the model: whatever tcp extract_frame, the scanners or the TCP ADU decoders return lies inside the input at the reported location (size = PDU length + 7), the protocol identifier there is 0, "
      "the MBAP length field equals PDU length + 1, and transaction id, unit id and PDU are exactly the bytes at that location; a non-zero protocol id or a different length field means no frame is reported there (Props/C09.lean).",
      "Correspondence: valid frames with every protocol id in {0,1,0x100,0x00FF,random} and length field n-2..n+256, embedded in noise, both directions.")

claim("C14", "Lean 4 theorems (complete characterisation of the scan loop for an arbitrary attempt, instantiated for the four scanners) + differential correspondence over noise lengths 0..300",
      "Proved for the model: scan = the first non-rejected offset among 0..min(len-2,255) (scan_spec / scan_eq_scanRef); hence (1) up to 255 bytes of noise every offset of which is rejected, then a frame, yields exactly that frame "
      "with start = noise length, with a bytes-only sufficient condition per transport (…_resync); (2) no frame is ever reported after an offset that is not rejected (…_no_later, …_not_after); "
      "(3) 256 rejected offsets in a buffer of >= 257 bytes give an error, not 'incomplete' (…_gives_up), while <= 256 bytes of garbage give 'incomplete' by design (Props/C14.lean); "
      "C14Full.lean: clauses 1 and 2 for every well-formed frame at the four scanners (composition with C10); C14Recv.lean: the receive loop drops exactly the noise and keeps the stream position; "
      "after fix a69a03c: tcp_attempt_rejects_bad_protocol / _bad_length and the bytes-only tcp_*_resync_stray (no two zero bytes at a noise offset's protocol-id position).",
      "Clause 3 is read with the buffer-length premise (>= 257 bytes): short garbage yields 'incomplete' by design and a unit test of the crate asserts it. RTU-request offsets whose function-code byte is 0x0F/0x10 are open finding D4.")

claim("C01", "Lean 4 theorems (decoder on each layout, composition with the encoder equation and the packing theorems) + differential correspondence + round-trip oracle",
      "Proved for the model, for every request built through the public constructors (any target capacity/contents; all 16-bit field values; 1..2040 coils, 1..127 words; every unmodelled custom code < 0x80 with any data): "
      "encoding into any large-enough buffer succeeds, returns exactly pdu_len, and decoding those bytes gives a request with the same meaning (req_roundtrip); for values outside the limits or custom codes >= 0x80 the decoder "
      "may refuse but never returns a different request (req_never_other, req_high_custom_refused); for every non-custom kind (and customs carrying FunctionCode::Custom) the IDENTICAL value comes back "
      "(req_roundtrip_exact, after fix 17b455d) (Props/C01.lean).",
      "Meaning = Lemmas/Sem.lean (kind, fields, coil/word lists read through iteration; custom: code byte and data). A custom request whose code IS a modelled kind decodes as that kind (witness in the file); the property excludes those.")

claim("C02", "Lean 4 theorems (decoder on each layout, padTo8 algebra, byte-wise case analysis for the exception marker) + differential correspondence (exception table exhaustive) + round-trip oracle",
      "Proved for the model, for every response built through the public constructors: encode returns exactly pdu_len and decoding gives the same kind with identical fields and register words; coil payloads come back with identical leading coils, "
      "count 8*ceil(n/8), padding off (rsp_roundtrip, rsp_roundtrip_coils); custom responses with any unmodelled code keep code byte and data; every exception (all f < 0x80, all nine codes, both FunctionCode constructions) "
      "encodes to two bytes and decodes back to the same function value and exception (exc_roundtrip); read-exception-status comes back as itself (rsp_read_exception_status_roundtrip, fix c4ddc91); "
      "ANY backed coil container of at most 2040 coils, however obtained, comes back with identical leading coils and padding off (rsp_roundtrip_coils_any, fix 30346fb); rsp_roundtrip_exact / rsp_roundtrip_exact_coils_iff say when the identical value returns (Props/C02.lean).",
      "Response::WriteSingleCoil round-trips in the crate's own three-byte form (its non-conformance to the specification is C03's open finding D12).")

claim("C03", "Lean 4 theorems against an independent statement of the wire layouts (Spec/Wire.lean, Spec/Bits.lean) + differential correspondence + reference-encoder oracle",
      "Proved for the model: the image of every built request equals the specification's bytes (function code, big-endian fields, byte count = payload length, LSB-first coil packing with zero padding, FF00/0000) and every "
      "in-scope specification PDU decodes to the meaning the specification assigns (req_conforms, req_decodes_spec; Props/C03Req.lean); the same for responses and exception responses as ..._partial excluding exactly "
      "Response::WriteSingleCoil, whose three-byte image is proved different from the five-byte echo for every address (rsp_conforms_partial, rsp_write_single_coil_defect, exc_conforms, rsp_decodes_spec; Props/C03Rsp.lean); "
      "req_conforms_any / rsp_conforms_any_partial extend conformance from constructor-built values to EVERY well-formed value of an implemented kind whose count fits one byte (containers taken from decoded PDUs included: padding is zero on the wire whatever the container holds).",
      "Open finding D12 (WriteSingleCoil response is 3 bytes) is pinned by three unedited unit tests; see KNOWN_FINDINGS.txt. Spec/*.lean is trusted as a transcription of the Modbus Application Protocol v1.1b3.")

claim("C04", "Lean 4 theorems composing the ADU encoder equation, the reception theorems (C10) and the PDU decoders + differential correspondence over all 256 slave ids + round-trip oracle",
      "Proved for the model, for every slave id: the encoded frame is slave id, PDU, be16(crc16) of those bytes, length PDU+3 (rtu_req_layout, rtu_rsp_layout); handing that frame (also followed by further bytes) to the opposite decoder returns the same "
      "slave id and the PDU decoder's value; exception responses (functions 1..0x2B, nine codes) come back as exceptions (rtu_exception_roundtrip); requests as ..._partial excluding 0x0F/0x10 (open finding D4) and responses excluding "
      "WriteSingleCoil (open finding D12), each with defect witnesses and refutations of the full statement (Props/C04.lean); end-to-end forms free of the PDU-round-trip hypothesis, for every built value that fits, is in scope and is frameable, in C04Full.lean, the inverse direction (decode then re-encode) in C04Dec.lean.",
      "For the variable-payload kinds the PDU-level round trip enters as a hypothesis that C01/C02 discharge (C01.req_roundtrip, C02.rsp_roundtrip); fixed-layout kinds and exceptions are hypothesis-free. That crc16 is CRC-16/MODBUS with the low byte first is C06. "
      "Open finding D19: the one-byte requests 07/0B/0C/11 are framed by rtu::request_pdu_len but cannot be encoded (todo!()); C04Wf.lean extends the round trip from constructor-built values to every well-formed value.")

claim("C05", "Lean 4 theorems composing the ADU encoder equation, the reception theorems (C10) and the PDU decoders + differential correspondence over transaction/unit ids + round-trip oracle",
      "Proved for the model, for every transaction id and unit id: the encoded ADU is tid (big-endian), protocol id 0, length = PDU+1, unit id, PDU, total PDU+7 (tcp_req_layout, tcp_rsp_layout, tcp_frame_fields); decoding it "
      "(also followed by further bytes) returns the same tid, uid and the PDU decoder's value; an exception response (functions 1..0x2B) is returned as an exception, never as a success (tcp_exception_roundtrip, tcp_exception_never_success); "
      "responses as ..._partial excluding WriteSingleCoil (open finding D12, witness); a PDU of more than 65534 bytes is refused and the length field never wraps, for every value and buffer (tcp_length_field_never_wraps) "
      "(Props/C05.lean); the end-to-end forms free of the PDU-round-trip hypothesis (every built value that fits, is in scope and is frameable) are in C05Full.lean, and the inverse direction (every frame a decoder accepts re-encodes to the same frame, up to normalisation) in C05Dec.lean.",
      "Exception frames for function 0 or 0x2C..0x7F are not frameable by the length table: the lone frame is proved to yield 'incomplete', never a success; followed by further bytes nothing is reported at its offset. Variable-payload kinds: PDU-level round trip is the hypothesis discharged by C01/C02.")

claim("C13", "Lean 4 theorems (inversion of the decoders, coherence of the decoded containers, exact characterisation of the defect region) + differential correspondence on corrupted count fields + usage oracle",
      "Proved for the model: EVERY value Response.decode returns is coherent (len; get returns an item below len and nothing at or above it for every index value; iteration yields len items; pdu_len and encode never panic; "
      "re-encode/decode gives the same meaning) and encodes into every buffer >= pdu_len (rsp_decoded_coherent, rsp_decoded_encodes); for requests the same holds IFF the input is not a write-multiple-coils request whose data is "
      "shorter than ceil(quantity/8) (req_decoded_coherent_iff; ..._partial forms; witness for 0F 33 11 00 04 00, also through both ADU decoders); decoded register data holds exactly 2*quantity bytes and "
      "re-encode/decode returns the very same value (rsp_decoded_data_exact, rsp_redecode_exact); a decoded request can be encoded again IFF it is not in the truncated class (req_decoded_encodes_iff, req_decoded_reencodes, "
      "req_decoded_qty_bound; after fix 39c2069) (Props/C13.lean). Props/C13Stage.lean: after the request scanner has framed a PDU, the PDU stage of the two request ADU decoders fails IF AND ONLY IF the PDU has one of four listed shapes "
      "(0x05 with an illegal coil value -> CoilValue; 0x0F whose quantity no byte count can describe, 0x10 / 0x17 whose byte count is not 2*quantity -> ByteCount), never with a panic, BufferSize or FnCode; for the eleven other accepted codes it cannot fail; "
      "every error of the ADU decoders is either the scanner's own or one of these (tcp/rtu_req_pdu_stage_iff, ..._server_request_errors; the RTU shapes are wider for 0x0F/0x10 because of open finding D4, each cause realised by an example).",
      "The excluded region is exactly open finding D5b, pinned by the unedited unit test deserialize_requests::write_multiple_coils; see KNOWN_FINDINGS.txt.")

claim("C19", "Lean 4 theorems (the encoder's outcome is a function of `fits`) + differential correspondence at sizes 120..300, 1000, 32767..70000 words and 1960..2100, 4000, 65536+ coils",
      "Proved for the model, for every payload size constructible through the public constructors (no bound): encode never panics; if it succeeds the payload fits, the bytes are exactly the specification's bytes "
      "(count fields equal the payload) and decode to an equivalent value; if the payload does not fit the one-byte count, encode is an error for every buffer "
      "(req_no_truncation, req_encode_outcome, rsp_no_truncation, rsp_error_or_exact, count_fields_*; Props/C19Req.lean, C19Rsp.lean).",
      "Values assembled from DECODED containers are covered too (Props/C19X.lean: the Data of any decoded register response has exactly 2*quantity bytes and, placed in a write request, encodes to the specification's bytes of its words - "
      "this failed before fix 016c806; Props/C19Wf.lean: the same for EVERY well-formed value - closure of well-formedness under the four public sources of a container, "
      "req_wf_no_truncation / rsp_wf_no_truncation / req_wf_conforms / rsp_wf_conforms, with the open-finding D5b region as the exact exception; the nine serial-line-only kinds whose pdu_len/encode are todo!()/unimplemented!() are open finding D19: excluded by the named predicate Implemented, with not_implemented_panics as the defect theorem). The MBAP length field of the TCP ADU encoders is C05/C12 (fix eae7d15: an over-long custom PDU is refused; tcp_length_field_never_wraps).")

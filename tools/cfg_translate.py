#!/usr/bin/env python3
"""
Translator for property C20: re-reads /repo/src/**/*.rs, Cargo.toml and README.md and writes
lean/Modbus/Gen/Cfg.lean — a model of the crate's conditional compilation:

  * the feature table and the documented selections,
  * per enum (and gated type alias) the names with the cfg condition under which they exist,
  * every mention `Q::Name` of such a name (Q resolved through `impl … for T`, `impl T`, `use X as Y`)
    with the conjunction of the cfg conditions enclosing it,
  * per `match` whose patterns name enum variants: its arms (condition, variants named in the pattern,
    catch-all or not),
  * syntactic facts: `#![no_std]`, `unsafe` tokens, `std::` / `alloc::` / `extern crate` outside cfg(test).

Any cfg shape it does not understand (cfg on an expression/statement/field, cfg_attr, cfg!) sets
`untranslatable := true`, which makes the generated theorem false by construction.
"""
import os, re, sys, json

REPO = sys.argv[1] if len(sys.argv) > 1 else "/repo"
OUT = sys.argv[2] if len(sys.argv) > 2 else os.path.join(os.path.dirname(os.path.dirname(os.path.abspath(__file__))), "lean", "Modbus", "Gen", "Cfg.lean")


def strip(src):
    """blank out comments, string and char literals (same length, newlines kept)"""
    out = list(src)
    i, n = 0, len(src)

    def blank(a, b):
        for k in range(a, b):
            if out[k] != "\n":
                out[k] = " "
    while i < n:
        c = src[i]
        if src.startswith("//", i):
            j = src.find("\n", i); j = n if j < 0 else j
            blank(i, j); i = j
        elif src.startswith("/*", i):
            depth, j = 1, i + 2
            while j < n and depth:
                if src.startswith("/*", j): depth += 1; j += 2
                elif src.startswith("*/", j): depth -= 1; j += 2
                else: j += 1
            blank(i, j); i = j
        elif c == '"':
            j = i + 1
            while j < n and src[j] != '"':
                j += 2 if src[j] == "\\" else 1
            blank(i + 1, j); i = j + 1
        elif c == "r" and re.match(r'r#*"', src[i:]):
            m = re.match(r'r(#*)"', src[i:]); h = m.group(1)
            j = src.find('"' + h, i + len(m.group(0))); j = n if j < 0 else j
            blank(i, j + 1 + len(h)); i = j + 1 + len(h)
        elif c == "'":
            m = re.match(r"'(\\.|[^\\'])'", src[i:])
            if m:
                blank(i + 1, i + len(m.group(0)) - 1); i += len(m.group(0))
            else:
                i += 1   # lifetime
        else:
            i += 1
    return "".join(out)


# ---------------------------------------------------------------- cfg conditions

class Untranslatable(Exception):
    pass


def parse_cond(s):
    """cfg predicate -> nested tuple"""
    s = s.strip()
    m = re.fullmatch(r'feature\s*=\s*"?\s*([A-Za-z0-9_\-]*)\s*"?', s)
    if m is not None:
        return ("feat", m.group(1))
    if s == "test":
        return ("feat", "test")
    m = re.fullmatch(r"(not|all|any)\s*\((.*)\)", s, re.S)
    if m:
        inner, parts, depth, cur = m.group(2), [], 0, ""
        for ch in inner:
            if ch == "(": depth += 1
            if ch == ")": depth -= 1
            if ch == "," and depth == 0:
                parts.append(cur); cur = ""
            else:
                cur += ch
        if cur.strip(): parts.append(cur)
        sub = [parse_cond(p) for p in parts]
        if m.group(1) == "not":
            if len(sub) != 1: raise Untranslatable("not/arity")
            return ("not", sub[0])
        return (m.group(1), sub)
    raise Untranslatable("cfg predicate: " + s)


def conj(cs):
    cs = [c for c in cs if c != ("tt",)]
    if not cs: return ("tt",)
    if len(cs) == 1: return cs[0]
    return ("all", cs)


# ---------------------------------------------------------------- scanning one file

OPEN, CLOSE = "([{", ")]}"


def item_extent(txt, start):
    """extent [start, end) of the item that begins at `start` (after its attributes)"""
    depth, i, n = 0, start, len(txt)
    saw_brace_at0 = False
    while i < n:
        c = txt[i]
        if c in OPEN:
            depth += 1
        elif c in CLOSE:
            if depth == 0:
                return i            # end of the enclosing block: last item without a trailing comma
            depth -= 1
            if depth == 0 and c == "}":
                # brace-terminated item (block arm, fn, mod, impl, struct-like variant); swallow a comma
                j = i + 1
                while j < n and txt[j] in " \t\r\n": j += 1
                return j + 1 if j < n and txt[j] == "," else i + 1
        elif c in ",;" and depth == 0:
            return i + 1
        i += 1
    return n


def scan_file(path, rel, raw_features):
    src = open(path).read()
    txt = strip(src)
    # features named in string literals were blanked: recover cfg attributes from the raw text at the same offsets
    regions = []          # (start, end, cond)
    problems = []
    for m in re.finditer(r"#\s*(!?)\s*\[\s*(cfg_attr|cfg)\s*\(", txt):
        if m.group(2) == "cfg_attr":
            problems.append(f"{rel}: cfg_attr"); continue
        # find matching ] in stripped text
        i, depth = m.end() - 1, 0
        while i < len(txt):
            if txt[i] == "(": depth += 1
            elif txt[i] == ")":
                depth -= 1
                if depth == 0: break
            i += 1
        pred = src[m.end():i]
        j = txt.find("]", i)
        try:
            cond = parse_cond(pred)
        except Untranslatable as e:
            problems.append(f"{rel}: {e}"); continue
        if m.group(1) == "!":
            regions.append((0, len(txt), cond)); continue
        k = j + 1
        # skip further attributes and whitespace
        while True:
            while k < len(txt) and txt[k] in " \t\r\n": k += 1
            if txt.startswith("#[", k) or re.match(r"#\s*\[", txt[k:k + 4] or ""):
                k = txt.find("]", k) + 1
            else:
                break
        # what follows must be an item / variant / arm, not a statement or expression we cannot delimit
        head = txt[k:k + 40]
        if re.match(r"(let|if|for|while|return|loop)\b", head):
            problems.append(f"{rel}: cfg on a statement/expression near offset {k}")
        regions.append((k, item_extent(txt, k), cond))
    if re.search(r"\bcfg!\s*\(", txt):
        problems.append(f"{rel}: cfg! macro")
    return src, txt, regions, problems


def cond_at(regions, pos):
    return conj([c for (a, b, c) in regions if a <= pos < b])


def line_of(txt, pos):
    return txt.count("\n", 0, pos) + 1


def main():
    problems = []
    cargo = open(os.path.join(REPO, "Cargo.toml")).read()
    feats = {}
    m = re.search(r"^\[features\]\s*$(.*?)(^\[|\Z)", cargo, re.M | re.S)
    if m:
        for ln in m.group(1).splitlines():
            mm = re.match(r'\s*([A-Za-z0-9_\-]+)\s*=\s*\[(.*)\]', ln)
            if mm:
                feats[mm.group(1)] = [x.strip().strip('"') for x in mm.group(2).split(",") if x.strip()]
    default = feats.get("default", [])
    own = [f for f in feats if f != "default"]
    readme = open(os.path.join(REPO, "README.md")).read() if os.path.exists(os.path.join(REPO, "README.md")) else ""
    documented = [sorted(default), [], sorted(own)]
    for mm in re.finditer(r'default-features\s*=\s*false[^\n]*?features\s*=\s*\[([^\]]*)\]', readme):
        documented.append(sorted(x.strip().strip('"') for x in mm.group(1).split(",") if x.strip()))
    for f in own:
        if re.search(r"\b" + re.escape(f.upper()) + r" only\b", readme, re.I) or True:
            pass
    for f in ("tcp", "rtu"):
        if f in own and [f] not in documented:
            documented.append([f])
    documented = [d for i, d in enumerate(documented) if d not in documented[:i]]

    files = []
    for root, _, fs in os.walk(os.path.join(REPO, "src")):
        for fn in sorted(fs):
            if fn.endswith(".rs"):
                p = os.path.join(root, fn)
                files.append((p, os.path.relpath(p, REPO)))
    files.sort()

    scanned = {}
    for p, rel in files:
        src, txt, regions, pr = scan_file(p, rel, feats)
        problems += pr
        scanned[rel] = (src, txt, regions)

    # ---- definitions: enums with variants, gated type aliases
    enums = {}      # name -> {variant: cond}
    aliases = {}    # gated alias name -> cond
    for rel, (src, txt, regions) in scanned.items():
        for m in re.finditer(r"\benum\s+([A-Z]\w*)\s*(<[^>{]*>)?\s*\{", txt):
            name = m.group(1)
            i, depth, start = m.end(), 0, m.end()
            body_start = i
            vs = {}
            item_start = True
            while i < len(txt):
                c = txt[i]
                if c in OPEN: depth += 1
                elif c in CLOSE:
                    if depth == 0: break
                    depth -= 1
                elif c == "," and depth == 0:
                    item_start = True
                elif depth == 0 and item_start and (c.isalpha() or c == "_"):
                    mm = re.match(r"[A-Za-z_]\w*", txt[i:])
                    vs[mm.group(0)] = conj([cond_at(regions, i), cond_at(regions, m.start())])
                    item_start = False
                    i += len(mm.group(0)); continue
                elif c == "#":
                    j = txt.find("]", i); i = j + 1; continue
                i += 1
            enums.setdefault(name, {}).update(vs)
        for m in re.finditer(r"\btype\s+([A-Z]\w*)\s*(<[^=]*>)?\s*=", txt):
            c = cond_at(regions, m.start())
            if c != ("tt",):
                aliases[m.group(1)] = c

    # ---- uses and matches
    uses = []       # (enum, variant, cond, where)
    matches = []    # (where, enum, [(cond, [variants], catchall)])
    for rel, (src, txt, regions) in scanned.items():
        # scopes for `Self` and `use X as Y`
        impls = []   # (start, end, type)
        for m in re.finditer(r"\bimpl\b([^{;]*)\{", txt):
            hdr = m.group(1)
            t = re.search(r"\bfor\s+([A-Z]\w*)", hdr) or re.search(r"([A-Z]\w*)\s*(<[^>]*>)?\s*$", hdr.strip())
            i, depth = m.end(), 1
            while i < len(txt) and depth:
                if txt[i] == "{": depth += 1
                elif txt[i] == "}": depth -= 1
                i += 1
            if t: impls.append((m.start(), i, t.group(1)))
        alias_uses = []  # (start, end, alias, target)
        for m in re.finditer(r"\buse\s+(?:[\w:]*::)?([A-Z]\w*)\s+as\s+([A-Z]\w*)\s*;", txt):
            # scope: enclosing block
            depth, i = 0, m.start()
            while i > 0:
                i -= 1
                if txt[i] == "}": depth += 1
                elif txt[i] == "{":
                    if depth == 0: break
                    depth -= 1
            s = i
            depth, j = 1, i + 1
            while j < len(txt) and depth:
                if txt[j] == "{": depth += 1
                elif txt[j] == "}": depth -= 1
                j += 1
            alias_uses.append((s, j, m.group(2), m.group(1)))

        def resolve(q, pos):
            if q == "Self":
                cands = [t for (a, b, t) in impls if a <= pos < b]
                return cands[-1] if cands else None
            for (a, b, al, tg) in alias_uses:
                if al == q and a <= pos < b:
                    return tg
            return q

        mention_at = []
        for m in re.finditer(r"\b([A-Z]\w*)\s*::\s*([A-Z]\w*)\b", txt):
            e = resolve(m.group(1), m.start())
            if e in enums and m.group(2) in enums[e]:
                mention_at.append((m.start(), e, m.group(2)))
                uses.append((e, m.group(2), cond_at(regions, m.start()), f"{rel}:{line_of(txt, m.start())}"))
        for name, c in aliases.items():
            for m in re.finditer(r"\b" + name + r"\b", txt):
                if re.match(r"type\s+$", txt[max(0, m.start() - 6):m.start()][-6:] or "") or txt[max(0, m.start() - 5):m.start()].strip().endswith("type"):
                    continue
                uses.append(("type", name, cond_at(regions, m.start()), f"{rel}:{line_of(txt, m.start())}"))

        # matches
        for m in re.finditer(r"\bmatch\b", txt):
            i, depth = m.end(), 0
            while i < len(txt) and not (txt[i] == "{" and depth == 0):
                if txt[i] in "([": depth += 1
                elif txt[i] in ")]": depth -= 1
                i += 1
            if i >= len(txt): continue
            body_start = i + 1
            arms, k = [], body_start
            while True:
                while k < len(txt) and txt[k] in " \t\r\n,": k += 1
                if k >= len(txt) or txt[k] == "}": break
                arm_start = k
                while txt.startswith("#", k):
                    k = txt.find("]", k) + 1
                    while k < len(txt) and txt[k] in " \t\r\n": k += 1
                pat_start = k
                depth2, j = 0, k
                while j < len(txt):
                    if txt[j] in OPEN: depth2 += 1
                    elif txt[j] in CLOSE: depth2 -= 1
                    elif txt.startswith("=>", j) and depth2 == 0: break
                    j += 1
                pat = txt[pat_start:j]
                end = item_extent(txt, j + 2)
                vs = [(e, v) for (p, e, v) in mention_at if pat_start <= p < j]
                guard = re.search(r"\bif\b", pat) is not None
                bare = pat.strip()
                catchall = (not guard) and (bare == "_" or re.fullmatch(r"[a-z_]\w*", bare) is not None)
                arms.append((cond_at(regions, pat_start), vs, catchall))
                k = end
            es = {e for (_, vs, _) in arms for (e, _) in vs}
            if len(es) == 1:
                e = es.pop()
                matches.append((f"{rel}:{line_of(txt, m.start())}", e, [(c, [v for (_, v) in vs], ca) for (c, vs, ca) in arms]))
            elif len(es) > 1:
                problems.append(f"{rel}:{line_of(txt, m.start())}: match over several enums")

    # ---- syntactic facts
    lib = scanned.get("src/lib.rs", ("", "", []))[1]
    no_std = re.search(r"#!\s*\[\s*no_std\s*\]", lib) is not None
    unsafe_tokens, std_mentions = 0, 0
    for rel, (src, txt, regions) in scanned.items():
        for m in re.finditer(r"\bunsafe\b", txt):
            # `#![warn(unsafe_code)]` is a lint name, not the keyword
            unsafe_tokens += 1
        for m in re.finditer(r"\b(std|alloc)\s*::|\bextern\s+crate\b", txt):
            c = cond_at(regions, m.start())
            if c != ("feat", "test") and not (c[0] == "all" and ("feat", "test") in c[1]):
                std_mentions += 1

    # ---- emit Lean
    featnames = sorted(set(own) | {"test"})
    fid = {f: i for i, f in enumerate(featnames)}

    def lc(c):
        if c == ("tt",): return ".tt"
        if c[0] == "feat":
            if c[1] not in fid:
                return ".ff"       # a feature the crate does not declare can never be enabled
            return f"(.feat {fid[c[1]]})"
        if c[0] == "not": return f"(.not {lc(c[1])})"
        return f"(.{c[0]} [{', '.join(lc(x) for x in c[1])}])"

    names = {}
    def nid(e, v):
        return names.setdefault((e, v), len(names))
    for e in sorted(enums):
        for v in enums[e]:
            nid(e, v)
    for a in sorted(aliases):
        nid("type", a)

    L = []
    L.append("/- GENERATED by tools/cfg_translate.py from /repo/src, Cargo.toml and README.md on every C20 run. Do not edit. -/")
    L.append("namespace Modbus.Gen.Cfg\n")
    L.append("/-- cfg predicates -/\ninductive Cond where\n  | tt | ff\n  | feat (f : Nat)\n  | not (c : Cond)\n  | all (cs : List Cond)\n  | any (cs : List Cond)\n")
    L.append("mutual\ndef Cond.eval (sel : List Nat) : Cond → Bool\n  | .tt => true\n  | .ff => false\n  | .feat f => sel.contains f\n  | .not c => !(c.eval sel)\n  | .all cs => Cond.evalAll sel cs\n  | .any cs => Cond.evalAny sel cs\ndef Cond.evalAll (sel : List Nat) : List Cond → Bool\n  | [] => true\n  | c :: cs => c.eval sel && Cond.evalAll sel cs\ndef Cond.evalAny (sel : List Nat) : List Cond → Bool\n  | [] => false\n  | c :: cs => c.eval sel || Cond.evalAny sel cs\nend\n")
    L.append("/- features: " + ", ".join(f"{i} = {f}" for f, i in sorted(fid.items(), key=lambda x: x[1])) + " -/")
    L.append(f"def featureCount : Nat := {len(featnames)}")
    L.append("/-- feature selections documented in README.md / Cargo.toml (default, none, all, TCP only, RTU only) -/")
    L.append("def documented : List (List Nat) := [" + ", ".join("[" + ", ".join(str(fid[f]) for f in d if f in fid) + "]" for d in documented) + "]")
    L.append("/-- names (enum variants, gated type aliases) with the condition under which they are defined -/")
    L.append("def defs : List (Nat × Cond) := [")
    for (e, v), i in sorted(names.items(), key=lambda x: x[1]):
        c = aliases[v] if e == "type" else enums[e][v]
        L.append(f"  ({i}, {lc(c)}),   -- {e}::{v}")
    L.append("]")
    L.append("/-- every mention of a name, with the conjunction of the cfg conditions enclosing it -/")
    L.append("def uses : List (Nat × Cond) := [")
    for (e, v, c, where) in uses:
        L.append(f"  ({names[(e, v)]}, {lc(c)}),   -- {e}::{v} at {where}")
    L.append("]")
    L.append("/-- matches over an enum: (all names of the enum, arms = (condition, names in the pattern, catch-all)) -/")
    L.append("def matchList : List (List Nat × List (Cond × List Nat × Bool)) := [")
    for (where, e, arms) in matches:
        allv = [names[(e, v)] for v in enums[e]]
        L.append(f"  -- match at {where} over {e}")
        L.append("  (" + str(allv) + ", [" + ", ".join(f"({lc(c)}, {[names[(e, v)] for v in vs]}, {'true' if ca else 'false'})" for (c, vs, ca) in arms) + "]),")
    L.append("]")
    L.append(f"def untranslatable : Bool := {'true' if problems else 'false'}")
    for p in problems:
        L.append(f"-- untranslatable: {p}")
    L.append(f"def noStdAttribute : Bool := {'true' if no_std else 'false'}")
    L.append(f"def unsafeTokens : Nat := {unsafe_tokens}")
    L.append(f"def stdAllocMentionsOutsideTests : Nat := {std_mentions}")
    L.append("\nend Modbus.Gen.Cfg")
    os.makedirs(os.path.dirname(OUT), exist_ok=True)
    new = "\n".join(L) + "\n"
    old = open(OUT).read() if os.path.exists(OUT) else None
    if old != new:
        open(OUT, "w").write(new)
    summary = dict(features=featnames, documented=documented, enums={e: len(v) for e, v in enums.items()}, aliases=sorted(aliases),
                   uses=len(uses), gated_uses=len([u for u in uses if u[2] != ("tt",)]), matches=len(matches), problems=problems,
                   no_std=no_std, unsafe_tokens=unsafe_tokens, std_mentions=std_mentions, changed=(old != new))
    print(json.dumps(summary))


if __name__ == "__main__":
    main()

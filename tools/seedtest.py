#!/usr/bin/env python3
"""
seedtest.py <worktree> <patch> <demo test file> <prop> [<prop> ...]
 1. in the scratch worktree: unedited suite passes with the patch; the demo fails with it and passes without it
 2. apply the patch to /repo, run `check <prop> quick` for each property, undo the patch straight afterwards
Prints one summary line per step (used to fill seeded/<id>/meta.json).
"""
import sys, subprocess, os, json, re
wt, patch, demo = sys.argv[1:4]
props = sys.argv[4:]
ENV = dict(os.environ, CARGO_NET_OFFLINE="true", VERIF_EVIDENCE_DIR="/verif/.build/evidence-scratch")
def sh(cmd, cwd=None):
    p = subprocess.run(cmd, cwd=cwd, env=ENV, stdout=subprocess.PIPE, stderr=subprocess.STDOUT, text=True, shell=True)
    return p.returncode, p.stdout
res = {}
sh("git checkout -- src", wt)
name = os.path.splitext(os.path.basename(demo))[0]
os.makedirs(os.path.join(wt, "tests"), exist_ok=True)
sh(f"cp {demo} {wt}/tests/{name}.rs")
rc, out = sh(f"cargo test --offline --test {name} 2>&1 | grep -E '^test result' ", wt)
res["demo_without_patch"] = out.strip()
rc, out = sh(f"git apply {patch}", wt)
if rc != 0:
    print("PATCH DOES NOT APPLY", out); sys.exit(2)
rc, out = sh("cargo test --offline --lib 2>&1 | grep -E '^test result'", wt)
res["suite_with_patch"] = out.strip()
rc, out = sh(f"cargo test --offline --test {name} 2>&1 | grep -E '^test result' ", wt)
res["demo_with_patch"] = out.strip()
sh("git checkout -- src", wt)
print(json.dumps(res, indent=1))
ok = "100 passed; 0 failed" in res["suite_with_patch"] and "FAILED" in res["demo_with_patch"] and "ok." in res["demo_without_patch"]
print("CONFIRMED" if ok else "NOT-CONFIRMED")
if not ok:
    sys.exit(1)
rc, out = sh(f"git -C /repo apply {patch}")
if rc != 0:
    print("patch does not apply to /repo", out); sys.exit(2)
try:
    for p in props:
        rc, out = sh(f"./check {p} quick", "/verif")
        lines = [l for l in out.splitlines() if l.startswith("VIOLATION") or re.match(r"C\d\d ", l) or l.startswith("BUILD")]
        print(f"--- {p}: rc={rc}")
        for l in lines: print("   ", l)
        for l in lines:
            m = re.search(r"replay=(\S+)", l)
            if m:
                r = json.load(open(m.group(1)))
                for k in ("oracle_line", "observed", "op", "crate", "model"):
                    if k in r: print(f"      {k}: {str(r[k])[:220]}")
finally:
    sh("git -C /repo checkout -- .")
    print("reverted:", sh("git -C /repo status --short")[1].strip() or "clean")

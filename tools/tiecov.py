#!/usr/bin/env python3
"""
tiecov.py [tier] [seed]  — how much of /repo/src does the tie actually execute?

The theorems are about the hand-written model; the correspondence stream is what ties the model to the
crate, and it can only notice a difference in code it runs.  This tool measures that: it builds the harness
against /repo's working tree with `-C instrument-coverage` (nightly toolchain, llvm-tools are installed),
replays the very op streams the checks use (corpus + `mbharness gen <Cxx> <tier> <seed>` for C01..C19)

   * through `mbharness run`    (primitive ops: these are diffed against the Lean driver — the tie proper)
   * through `mbharness oracle` (property oracles on the real crate)

and reports, per source file of the crate, which executable lines outside `#[cfg(test)]` were never
reached by the tie stream, and which by neither stream.  It is a measurement of generator quality, not a
check: it decides no property and is not registered in MANIFEST.json.  Output: design-notes/tie-coverage.txt
(and the same on stdout).  Scratch build output lives in /verif/.build/cov (git-ignored) and is removed
at the end unless KEEP=1.
"""
import os, sys, subprocess, json, glob, shutil, collections, re
VERIF = "/verif"
HARNESS = f"{VERIF}/harness"
HBIN = f"{HARNESS}/target/release/mbharness"
COV = f"{VERIF}/.build/cov"
TIER = sys.argv[1] if len(sys.argv) > 1 else "quick"
SEED = sys.argv[2] if len(sys.argv) > 2 else "1"
NIGHTLY_BIN = glob.glob(os.path.expanduser("~/.rustup/toolchains/nightly-x86_64-*/lib/rustlib/*/bin"))[0]
ENV = dict(os.environ, CARGO_NET_OFFLINE="true")

def sh(cmd, **kw):
    return subprocess.run(cmd, stdout=subprocess.PIPE, stderr=subprocess.STDOUT, text=True, **kw)

shutil.rmtree(COV, ignore_errors=True)
os.makedirs(COV)
p = sh(["cargo", "build", "--release", "--offline", "--quiet"], cwd=HARNESS, env=ENV)
assert p.returncode == 0, p.stdout
p = sh(["cargo", "+nightly", "build", "--release", "--offline", "--quiet", "--target-dir", f"{COV}/target"],
       cwd=HARNESS, env=dict(ENV, RUSTFLAGS="-C instrument-coverage -Z coverage-options=branch"))
assert p.returncode == 0, p.stdout
IBIN = f"{COV}/target/release/mbharness"

props = [f"C{i:02d}" for i in range(1, 20)]
nops = collections.Counter()
for pid in props:
    lines = []
    cp = f"{VERIF}/corpus/{pid}.ops"
    if os.path.exists(cp):
        lines += [l.rstrip("\n") for l in open(cp) if l.strip()]
    lines += [l for l in sh([HBIN, "gen", pid, TIER, SEED]).stdout.split("\n") if l.strip()]
    prim = [l for l in lines if not l.startswith("#")]
    orac = [l for l in lines if l.startswith("#@")]
    for mode, ls in (("run", prim), ("oracle", orac)):
        if not ls:
            continue
        nops[mode] += len(ls)
        # 16 shards, each its own process and profile
        k = 16
        procs = []
        for i in range(k):
            part = ls[i::k]
            if not part:
                continue
            inp = f"{COV}/{pid}.{mode}.{i}.in"
            open(inp, "w").write("\n".join(part) + "\n")
            procs.append(subprocess.Popen([IBIN, mode], stdin=open(inp), stdout=subprocess.DEVNULL, stderr=subprocess.DEVNULL,
                                          env=dict(ENV, LLVM_PROFILE_FILE=f"{COV}/prof/{mode}/{pid}-{i}-%p.profraw")))
        for q in procs:
            try:
                q.wait(timeout=900)
            except subprocess.TimeoutExpired:
                q.kill()

def export(mode_dirs, tag):
    raws = []
    for d in mode_dirs:
        raws += glob.glob(f"{COV}/prof/{d}/*.profraw")
    pd = f"{COV}/{tag}.profdata"
    p = sh([f"{NIGHTLY_BIN}/llvm-profdata", "merge", "-sparse", "-o", pd] + raws)
    assert p.returncode == 0, p.stdout
    p = subprocess.run([f"{NIGHTLY_BIN}/llvm-cov", "export", "-format=lcov", f"-instr-profile={pd}", IBIN],
                       stdout=subprocess.PIPE, stderr=subprocess.DEVNULL, text=True)
    assert p.returncode == 0
    cov = {}
    br = {}
    cur = None
    for l in p.stdout.split("\n"):
        if l.startswith("SF:"):
            cur = l[3:]
            cov.setdefault(cur, {})
            br.setdefault(cur, {})
        elif l.startswith("BRDA:") and cur:
            ln, blk, bidx, cnt = l[5:].split(",")
            key = (int(ln), blk, bidx)
            br[cur][key] = br[cur].get(key, 0) + (0 if cnt == "-" else int(cnt))
        elif l.startswith("DA:") and cur:
            ln, cnt = l[3:].split(",")[:2]
            cov[cur][int(ln)] = cov[cur].get(int(ln), 0) + int(cnt)
    return ({f: v for f, v in cov.items() if f.startswith("/repo/src/")},
            {f: v for f, v in br.items() if f.startswith("/repo/src/")})

tie, tie_br = export(["run"], "tie")
both, both_br = export(["run", "oracle"], "both")

def test_start(path):
    """first line of the trailing `#[cfg(test)] mod tests` (the unit tests are not part of the library)"""
    src = open(path).read().split("\n")
    for i, l in enumerate(src):
        if l.strip() == "#[cfg(test)]" and i + 1 < len(src) and "mod " in src[i + 1]:
            return i + 1
    return len(src) + 1

def display_ranges(path):
    """line ranges of `impl fmt::Display for …` blocks (deliberately not modelled, DESIGN section 7)"""
    src = open(path).read().split("\n")
    out = []
    i = 0
    while i < len(src):
        if re.match(r"impl (core::)?fmt::Display for", src[i]):
            j = i
            while j < len(src) and src[j] != "}":
                j += 1
            out.append((i + 1, j + 1))
            i = j
        i += 1
    return out

rep = []
rep.append(f"tie coverage of /repo/src by the checks' own op streams (tier {TIER}, seed {SEED}; /repo at "
           + sh(["git", "-C", "/repo", "rev-parse", "--short", "HEAD"]).stdout.strip() + ")")
rep.append(f"primitive ops (diffed against the Lean driver): {nops['run']}   oracle cases: {nops['oracle']}")
rep.append("lines = executable lines outside #[cfg(test)] and outside the Display impls (not modelled)")
rep.append("")
tot = [0, 0, 0]
btot = [0, 0]
for f in sorted(both):
    ts = test_start(f)
    dr = display_ranges(f)
    keep = lambda n: n < ts and not any(a <= n <= b for a, b in dr)
    lines = sorted(n for n in both[f] if keep(n))
    t_hit = [n for n in lines if tie.get(f, {}).get(n, 0) > 0]
    b_hit = [n for n in lines if both[f][n] > 0]
    tot[0] += len(lines); tot[1] += len(t_hit); tot[2] += len(b_hit)
    rep.append(f"{f[len('/repo/'):]:28s} lines {len(lines):4d}   tie {len(t_hit):4d}   tie+oracle {len(b_hit):4d}")
    src = open(f).read().split("\n")
    bks = sorted(k for k in both_br.get(f, {}) if keep(k[0]))
    bt = [k for k in bks if tie_br.get(f, {}).get(k, 0) > 0]
    btot[0] += len(bks); btot[1] += len(bt)
    rep.append(f"{'':28s} branch outcomes {len(bks):4d}   tie {len(bt):4d}")
    for k in bks:
        if k not in bt and tie.get(f, {}).get(k[0], 0) > 0:
            rep.append(f"      branch outcome never taken in the tie: line {k[0]:4d} (#{k[2]}): {src[k[0]-1].strip()[:80]}")
    for n in lines:
        if n not in t_hit:
            mark = "  (oracle only)" if n in b_hit else ""
            rep.append(f"      not reached by the tie: {n:4d}: {src[n-1].strip()[:90]}{mark}")
rep.append("")
rep.append(f"TOTAL lines {tot[0]}   tie {tot[1]} ({100.0*tot[1]/max(1,tot[0]):.1f}%)   tie+oracle {tot[2]} ({100.0*tot[2]/max(1,tot[0]):.1f}%)")
rep.append(f"TOTAL branch outcomes {btot[0]}   tie {btot[1]} ({100.0*btot[1]/max(1,btot[0]):.1f}%)")
# per-property view: which lines of each file does a property's OWN stream (run + oracle) reach?
rep.append("")
rep.append("per-property streams (run + oracle), lines reached per file; '.' = file not touched")
files = sorted(both)
short = [f[len('/repo/src/'):] for f in files]
rep.append(f"{'':5s}" + "".join(f"{s[-14:]:>16s}" for s in short))
permiss = {}
for pid in props:
    raws = glob.glob(f"{COV}/prof/run/{pid}-*.profraw") + glob.glob(f"{COV}/prof/oracle/{pid}-*.profraw")
    if not raws:
        continue
    pd = f"{COV}/{pid}.profdata"
    sh([f"{NIGHTLY_BIN}/llvm-profdata", "merge", "-sparse", "-o", pd] + raws)
    p = subprocess.run([f"{NIGHTLY_BIN}/llvm-cov", "export", "-format=lcov", f"-instr-profile={pd}", IBIN],
                       stdout=subprocess.PIPE, stderr=subprocess.DEVNULL, text=True)
    cur = None; cov = {}
    for l in p.stdout.split("\n"):
        if l.startswith("SF:"):
            cur = l[3:]; cov.setdefault(cur, {})
        elif l.startswith("DA:") and cur:
            ln, cnt = l[3:].split(",")[:2]
            cov[cur][int(ln)] = cov[cur].get(int(ln), 0) + int(cnt)
    row = f"{pid:5s}"
    for f in files:
        ts = test_start(f); dr = display_ranges(f)
        lines = [n for n in both[f] if n < ts and not any(a <= n <= b for a, b in dr)]
        hit = [n for n in lines if cov.get(f, {}).get(n, 0) > 0]
        permiss[(pid, f)] = sorted(set(lines) - set(hit))
        row += f"{(str(len(hit)) + '/' + str(len(lines))) if hit else '.':>16s}"
    rep.append(row)
import pickle
pickle.dump(permiss, open(f"{VERIF}/.build/tiecov-permiss.pkl", "wb"))
text = "\n".join(rep) + "\n"
print(text)
open(f"{VERIF}/design-notes/tie-coverage.txt", "w").write(text)
if os.environ.get("KEEP") != "1":
    shutil.rmtree(COV, ignore_errors=True)

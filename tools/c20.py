"""
Property C20 (partial): every documented feature selection builds and passes its tests; no unsafe, no_std.

1. tools/cfg_translate.py regenerates lean/Modbus/Gen/Cfg.lean from /repo's source (on every run);
2. lake builds Modbus.Props.C20 (`cfg_consistent : ∀ sel ⊆ features, consistent sel` by `decide`), axiom audit;
3. exhaustive correspondence on the finite domain: for every feature subset the model's verdict vs
   `cargo check` / `cargo test --no-run`; `cargo test` under the documented selections; `-F unsafe_code`;
4. verdict + evidence.
"""
import os, sys, json, time, subprocess, re, shutil, itertools

VERIF = os.path.dirname(os.path.dirname(os.path.abspath(__file__)))
sys.path.insert(0, VERIF)
LEAN = os.path.join(VERIF, "lean")
REPO = "/repo"
TARGET = os.path.join(VERIF, ".build", "c20-target")
ENV = dict(os.environ, CARGO_NET_OFFLINE="true", CARGO_TARGET_DIR=TARGET)


def sh(cmd, cwd=None, timeout=3000):
    p = subprocess.run(cmd, cwd=cwd, env=ENV, stdout=subprocess.PIPE, stderr=subprocess.STDOUT, timeout=timeout, text=True)
    return p.returncode, p.stdout


def run(tier, seed, t0):
    import importlib.machinery, importlib.util
    loader = importlib.machinery.SourceFileLoader("check", os.path.join(VERIF, "check"))
    spec = importlib.util.spec_from_loader("check", loader)
    chk = importlib.util.module_from_spec(spec); loader.exec_module(chk)

    pid = "C20"
    log, violations = [], []
    os.makedirs(chk.EVID, exist_ok=True)

    # 1. translate
    rc, out = sh([sys.executable, os.path.join(VERIF, "tools", "cfg_translate.py"), REPO])
    try:
        summ = json.loads(out.strip().splitlines()[-1])
    except Exception:
        summ = dict(problems=["translator crashed: " + out[-500:]])
    log.append(f"translator: {json.dumps(summ)[:600]}")
    feats = [f for f in summ.get("features", []) if f != "test"]

    # 2. proof obligations (also re-evaluates the model per selection, which works even when the theorem fails)
    nob, ndis, axioms, pfails = chk.proof_obligations(pid, tier, log)
    with chk.Lock():
        rc, ev = sh(["lake", "build", "Modbus.Lemmas.CfgCheck"], cwd=LEAN)
        rc, ev = sh(["lake", "env", "lean", "Audit/C20Eval.lean"], cwd=LEAN)
    model = {}
    for m in re.finditer(r"\(\[([0-9, ]*)\],\s*(true|false)\)", ev):
        ids = tuple(sorted(int(x) for x in m.group(1).split(",") if x.strip()))
        model[ids] = (m.group(2) == "true")
    fnames = summ.get("features", [])
    fid = {f: i for i, f in enumerate(fnames)}
    facts = re.search(r"\((true|false), (true|false), (true|false), (\d+), (\d+)\)", ev)
    facts_ok = bool(facts and facts.group(2) == "true")

    # 3. cargo on every configuration
    documented = [tuple(sorted(d)) for d in summ.get("documented", [])]
    subsets = []
    for k in range(len(feats) + 1):
        for c in itertools.combinations(sorted(feats), k):
            subsets.append(c)
    todo = subsets if tier == "thorough" else [s for s in subsets if s in documented]
    rows, cargo_fail, disagree = [], [], []
    for s in todo:
        fl = ",".join(s)
        base = ["--offline", "--no-default-features"] + (["--features", fl] if fl else [])
        t1 = time.time()
        rc_c, out_c = sh(["cargo", "check", "--lib"] + base, cwd=REPO)
        rc_t, out_t = sh(["cargo", "test", "--no-run"] + base, cwd=REPO)
        rc_r, out_r = (None, "")
        if s in documented and rc_t == 0:
            rc_r, out_r = sh(["cargo", "test"] + base, cwd=REPO)
        m_lib = model.get(tuple(sorted(fid[f] for f in s)))
        m_test = model.get(tuple(sorted([fid[f] for f in s] + [fid.get("test", 99)])))
        passed = sum(int(x) for x in re.findall(r"test result: ok\. (\d+) passed", out_r))
        rows.append(dict(features=list(s), documented=s in documented, cargo_check=rc_c == 0, cargo_test_build=rc_t == 0,
                         cargo_test=(None if rc_r is None else rc_r == 0), tests_passed=passed, model_lib=m_lib, model_test=m_test,
                         secs=round(time.time() - t1, 1)))
        cmd = "cd /repo && cargo test --offline --no-default-features" + (f" --features {fl}" if fl else "")
        if rc_c != 0 or rc_t != 0 or (rc_r is not None and rc_r != 0):
            errs = re.findall(r"^error[^\n]*\n[^\n]*--> [^\n]*", out_c + out_t + out_r, re.M)[:3]
            errs += re.findall(r"^test \S+ \.\.\. FAILED", out_r, re.M)[:5]
            cargo_fail.append(dict(features=list(s), command=cmd, documented=s in documented, errors=errs or [(out_c + out_t + out_r)[-600:]]))
        if (m_lib is not None and m_lib != (rc_c == 0)) or (m_test is not None and m_test != (rc_t == 0)):
            disagree.append(dict(features=list(s), model=(m_lib, m_test), cargo=(rc_c == 0, rc_t == 0)))
    # unsafe_code forbidden, default configuration
    # the crate sets #![warn(unsafe_code)] itself (a command-line -F would conflict with it): any use of
    # `unsafe` therefore shows up as an `unsafe_code` warning of the default-feature build
    rc_u0, out_u = sh(["cargo", "check", "--lib", "--offline", "--all-features"], cwd=REPO)
    rc_u = 1 if (rc_u0 != 0 or "unsafe_code" in out_u) else 0
    log.append(f"cargo check --lib --all-features: rc={rc_u0}, unsafe_code warnings: {'yes' if 'unsafe_code' in out_u else 'none'}")

    # 4. verdict
    doc_fail = [c for c in cargo_fail if c["documented"]]
    fact_failures = []
    if facts:
        if facts.group(3) != "true":
            fact_failures.append(dict(fact="#![no_std] is not an unconditional crate attribute of src/lib.rs (with the std feature the crate would link std)",
                                      command="grep -n 'no_std' /repo/src/lib.rs"))
        if int(facts.group(4)) > 0:
            fact_failures.append(dict(fact=f"{facts.group(4)} `unsafe` token(s) in src/ (the unsafe_code lint can be silenced locally with #[allow])",
                                      command="grep -rnw unsafe /repo/src"))
        if int(facts.group(5)) > 0:
            fact_failures.append(dict(fact=f"{facts.group(5)} mention(s) of std:: / alloc:: / extern crate outside cfg(test)",
                                      command="grep -rnE '\\b(std|alloc)::|extern crate' /repo/src"))
    if rc_u != 0:
        fact_failures.append(dict(fact="the unsafe_code lint fires (or the all-features build fails)", command="cd /repo && cargo check --lib --offline --all-features 2>&1 | grep -B2 -A8 unsafe_code"))
    if doc_fail or fact_failures:
        body = dict(requirement="the crate compiles and its test-suite passes under every documented feature selection; no unsafe; no_std",
                    failing_configurations=doc_fail or cargo_fail, failing_source_facts=fact_failures,
                    replay_command=(doc_fail[0]["command"] if doc_fail else fact_failures[0]["command"]))
        path = chk.write_replay(pid, "failing-configuration", body)
        violations.append(f"VIOLATION property={pid} replay={path}")
    elif pfails or ndis != nob or nob == 0 or disagree or summ.get("problems"):
        # the theorem or the tie broke; look for a failing configuration among ALL subsets before giving up
        found = [c for c in cargo_fail]
        if not found and tier != "thorough":
            for s in subsets:
                if s in todo: continue
                fl = ",".join(s)
                base = ["--offline", "--no-default-features"] + (["--features", fl] if fl else [])
                rc_t, out_t = sh(["cargo", "test", "--no-run"] + base, cwd=REPO)
                if rc_t != 0:
                    found.append(dict(features=list(s), command="cd /repo && cargo test --no-run --offline --no-default-features" + (f" --features {fl}" if fl else ""),
                                      documented=False, errors=re.findall(r"^error[^\n]*", out_t, re.M)[:3]))
        body = dict(theorems_not_checking=pfails, translator_problems=summ.get("problems"), model_vs_cargo=disagree,
                    model_inconsistent_selections=[[fnames[i] for i in k] for k, v in model.items() if not v])
        if found:
            body.update(failing_configurations=found, replay_command=found[0]["command"])
            path = chk.write_replay(pid, "failing-configuration", body)
            violations.append(f"VIOLATION property={pid} replay={path}")
        else:
            path = chk.write_replay(pid, "broken-obligation", body)
            violations.append(f"VIOLATION property={pid} replay={path} no-failing-input-found")

    ev_json = dict(
        property_id=pid, tier=tier, seed=seed, level="proof",
        coverage=dict(
            obligations=nob, discharged=ndis,
            checker_cmd="python3 tools/cfg_translate.py /repo && cd lean && lake build Modbus.Props.C20 && lake env lean Audit/C20.lean",
            trusted_base=["Lean 4.33.0 kernel (decide +kernel, no axioms)", "tools/cfg_translate.py (regenerates the cfg model from /repo on every run)",
                          "cargo/rustc as the observers of each configuration (compile and test outcomes are observed, not proved)"],
            theorems={n: axioms.get(n, axioms.get("Modbus." + n, [])) for n in chk.registered_theorems(pid)},
            evaluations=len(rows) * 3 + 1, distinct_nontrivial=len(rows),
            rule="one case per feature subset: model verdict vs cargo check --lib, cargo test --no-run, and cargo test for documented selections; quick = the documented selections, thorough = all subsets",
            samples=rows[:8], exhaustive=(tier == "thorough"),
            exhaustive_scope="thorough: all 2^3 feature subsets x {lib, test}; quick: the five documented selections",
            translator=summ, model_vs_cargo_disagreements=disagree, cargo_failures=cargo_fail, unsafe_code_forbid_rc=rc_u,
            explanation="partial: the Lean theorem covers cfg-consistency of enum variants / type aliases and match exhaustiveness for every feature subset; type checking, borrow checking and test outcomes are observed by cargo",
            proof_failures=pfails[:5], log=log),
        assumptions=["cfg translator handles the attribute shapes present in the crate and flags any other shape as untranslatable"],
        wall_s=round(time.time() - t0, 2), violations=len(violations))
    json.dump(ev_json, open(os.path.join(chk.EVID, f"{pid}.json"), "w"), indent=1)
    print(f"C20 {tier}: obligations {ndis}/{nob}, {len(rows)} configurations, cargo failures {len(cargo_fail)}, model/cargo disagreements {len(disagree)}, {time.time()-t0:.1f}s")
    for v in violations:
        print(v)
    return 1 if violations else 0

#!/bin/sh
# run every registered quick check on the current tree; prints one line per property and the exit codes
cd "$(dirname "$0")/.."
fail=0
for i in $(seq -w 1 20); do
  out=$(./check C$i ${1:-quick}); rc=$?
  echo "$out" | grep -v "^KNOWN" | tail -1 | sed "s/^/rc=$rc /"
  [ $rc -ne 0 ] && fail=1
done
exit $fail

#!/bin/sh
# negctl.sh: apply each behaviour-preserving refactoring of seeded/negative-controls to /repo, run all twenty quick
# checks (evidence diverted to a scratch directory), undo it; every line must say "quiet".
cd "$(dirname "$0")/.."
export VERIF_EVIDENCE_DIR=/verif/.build/evidence-scratch
bad=0
for p in seeded/negative-controls/NEG?-neg?.diff; do
  if ! git -C /repo apply "$PWD/$p" 2>/dev/null; then echo "$p: does not apply"; bad=1; continue; fi
  out=$(tools/runall.sh quick 2>&1 | grep -v "^rc=0")
  git -C /repo checkout -- .
  if [ -z "$out" ]; then echo "$p: quiet"; else echo "$p: ALARM"; echo "$out"; bad=1; fi
done
python3 tools/cfg_translate.py /repo >/dev/null
git -C /repo status --short
exit $bad

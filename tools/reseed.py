#!/usr/bin/env python3
"""Re-run every seeded change (seeded/S*/patch.diff) against its target property's quick check under another seed.
usage: reseed.py <seed>   — prints one line per seeded change; does not touch the stored meta.json"""
import sys, os, subprocess, json, re, glob
seed = sys.argv[1] if len(sys.argv) > 1 else "4242"
only = sys.argv[2:]
env = dict(os.environ, VERIF_SEED=seed, VERIF_EVIDENCE_DIR="/verif/.build/evidence-scratch")
def sh(c, cwd=None):
    return subprocess.run(c, shell=True, cwd=cwd, env=env, stdout=subprocess.PIPE, stderr=subprocess.STDOUT, text=True).stdout
bad = 0
for d in sorted(glob.glob("/verif/seeded/S*")):
    m = json.load(open(d + "/meta.json"))
    if only and not any(m["id"].startswith(o) for o in only): continue
    target = re.findall(r"C\d\d", m["breaks"])[0]
    out = sh(f"git -C /repo apply {d}/patch.diff")
    if out.strip():
        print(m["id"], "APPLY FAILED", out.strip()[:100]); continue
    try:
        o = sh(f"./check {target} quick", "/verif")
        v = [l for l in o.splitlines() if l.startswith("VIOLATION")]
        kind = "quiet" if not v else ("tie-only" if "no-failing-input-found" in v[0] else "input")
        if kind != "input": bad += 1
        print(f"{m['id']:38s} {target} {kind}", flush=True)
    finally:
        sh("git -C /repo checkout -- .")
print("not caught with a failing input:", bad)

# leave the translator-generated cfg model in the state of the unchanged tree
import subprocess as _sp
_sp.run(["python3", "/verif/tools/cfg_translate.py", "/repo"], stdout=_sp.DEVNULL)

#!/usr/bin/env python3
"""
tiecov_one.py <Cxx> <seed> <out.json>  — code coverage of /repo/src by ONE property's own stream.

Called by `check` in the thorough tier (never in quick; never affects the exit code): builds the harness
against /repo's working tree with `-C instrument-coverage -Z coverage-options=branch` (nightly), replays
corpus + `mbharness gen <Cxx> quick <seed>` through `mbharness run` and `mbharness oracle`, and writes which
executable lines / branch outcomes of the crate (outside #[cfg(test)] and the Display impls) this property's
stream executed.  A measurement for the evidence file; see tools/tiecov.py for the all-properties report.
"""
import os, sys, subprocess, json, glob, shutil, re
pid, seed, outp = sys.argv[1], sys.argv[2], sys.argv[3]
VERIF = "/verif"
HARNESS = f"{VERIF}/harness"
HBIN = f"{HARNESS}/target/release/mbharness"
TGT = f"{VERIF}/.build/cov-target"
W = f"{VERIF}/.build/cov1-{pid}"
ENV = dict(os.environ, CARGO_NET_OFFLINE="true")

def fail(msg):
    json.dump({"available": False, "reason": msg[:300]}, open(outp, "w"))
    shutil.rmtree(W, ignore_errors=True)
    sys.exit(0)

nb = glob.glob(os.path.expanduser("~/.rustup/toolchains/nightly-x86_64-*/lib/rustlib/*/bin"))
if not nb or not os.path.exists(nb[0] + "/llvm-cov"):
    fail("no nightly llvm-tools")
NB = nb[0]
shutil.rmtree(W, ignore_errors=True)
os.makedirs(W + "/prof")
p = subprocess.run(["cargo", "+nightly", "build", "--release", "--offline", "--quiet", "--target-dir", TGT], cwd=HARNESS,
                   env=dict(ENV, RUSTFLAGS="-C instrument-coverage -Z coverage-options=branch"),
                   stdout=subprocess.PIPE, stderr=subprocess.STDOUT, text=True)
if p.returncode != 0:
    fail("instrumented build failed: " + p.stdout[-200:])
IBIN = f"{TGT}/release/mbharness"
lines = []
cp = f"{VERIF}/corpus/{pid}.ops"
if os.path.exists(cp):
    lines += [l.rstrip("\n") for l in open(cp) if l.strip()]
lines += [l for l in subprocess.run([HBIN, "gen", pid, "quick", seed], stdout=subprocess.PIPE, text=True).stdout.split("\n") if l.strip()]
prim = [l for l in lines if not l.startswith("#")]
orac = [l for l in lines if l.startswith("#@")]
procs = []
for mode, ls in (("run", prim), ("oracle", orac)):
    for i in range(8):
        part = ls[i::8]
        if not part:
            continue
        inp = f"{W}/{mode}.{i}.in"
        open(inp, "w").write("\n".join(part) + "\n")
        procs.append(subprocess.Popen([IBIN, mode], stdin=open(inp), stdout=subprocess.DEVNULL, stderr=subprocess.DEVNULL,
                                      env=dict(ENV, LLVM_PROFILE_FILE=f"{W}/prof/{mode}-{i}-%p.profraw")))
for q in procs:
    try:
        q.wait(timeout=600)
    except subprocess.TimeoutExpired:
        q.kill()
raws = glob.glob(f"{W}/prof/*.profraw")
if not raws:
    fail("no profile written")
if subprocess.run([f"{NB}/llvm-profdata", "merge", "-sparse", "-o", f"{W}/m.profdata"] + raws,
                  stdout=subprocess.DEVNULL, stderr=subprocess.DEVNULL).returncode != 0:
    fail("llvm-profdata merge failed")
p = subprocess.run([f"{NB}/llvm-cov", "export", "-format=lcov", f"-instr-profile={W}/m.profdata", IBIN],
                   stdout=subprocess.PIPE, stderr=subprocess.DEVNULL, text=True)
if p.returncode != 0:
    fail("llvm-cov export failed")
cov, br, cur = {}, {}, None
for l in p.stdout.split("\n"):
    if l.startswith("SF:"):
        cur = l[3:] if l[3:].startswith("/repo/src/") else None
        if cur:
            cov.setdefault(cur, {}); br.setdefault(cur, {})
    elif cur and l.startswith("DA:"):
        ln, cnt = l[3:].split(",")[:2]
        cov[cur][int(ln)] = cov[cur].get(int(ln), 0) + int(cnt)
    elif cur and l.startswith("BRDA:"):
        ln, blk, bidx, cnt = l[5:].split(",")
        k = (int(ln), blk, bidx)
        br[cur][k] = br[cur].get(k, 0) + (0 if cnt == "-" else int(cnt))

def skip_ranges(path):
    src = open(path).read().split("\n")
    ts = len(src) + 1
    for i, l in enumerate(src):
        if l.strip() == "#[cfg(test)]" and i + 1 < len(src) and "mod " in src[i + 1]:
            ts = i + 1
            break
    out = [(ts, len(src) + 1)]
    i = 0
    while i < len(src):
        if re.match(r"impl (core::)?fmt::Display for", src[i]):
            j = i
            while j < len(src) and src[j] != "}":
                j += 1
            out.append((i + 1, j + 1)); i = j
        i += 1
    return out

files = {}
tl = th = tb = tbh = 0
unreached = []
for f in sorted(cov):
    sk = skip_ranges(f)
    keep = lambda n: not any(a <= n <= b for a, b in sk)
    ls = sorted(n for n in cov[f] if keep(n))
    hit = [n for n in ls if cov[f][n] > 0]
    bs = [k for k in br[f] if keep(k[0])]
    bh = [k for k in bs if br[f][k] > 0]
    tl += len(ls); th += len(hit); tb += len(bs); tbh += len(bh)
    if hit:
        files[f[len("/repo/"):]] = {"lines": len(ls), "lines_executed": len(hit), "branch_outcomes": len(bs), "branch_outcomes_taken": len(bh)}
        miss = sorted(set(ls) - set(hit))
        if len(miss) <= 12:
            unreached += [f"{f[len('/repo/'):]}:{n}" for n in miss]
json.dump({"available": True, "stream": f"corpus + mbharness gen {pid} quick {seed} ({len(prim)} primitive ops, {len(orac)} oracle cases)",
           "crate_lines": tl, "crate_lines_executed": th, "crate_branch_outcomes": tb, "crate_branch_outcomes_taken": tbh,
           "files_touched": files, "unreached_lines_in_nearly_covered_files": unreached[:40]}, open(outp, "w"), indent=1)
shutil.rmtree(W, ignore_errors=True)

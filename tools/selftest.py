#!/usr/bin/env python3
"""
Self-test (not registered in MANIFEST): applies each single-line mutant of design-notes/mutants.md
(patches prepared under a scratch directory) to /repo, runs the expected property's quick check, and
reverts.  Prints, per mutant and property, whether the check reported a failing input, a broken tie only,
or nothing (expectations: design-notes/mutants.md; M09 and M25 are tie-only).
"""
import os
os.environ["VERIF_EVIDENCE_DIR"] = "/verif/.build/evidence-scratch"
import sys, os, subprocess, re, json
D = sys.argv[1] if len(sys.argv) > 1 else "/verif/design-notes/mutant-patches"
EXPECT = {"M01":"C18","M02":"C18","M03":"C18","M04":"C18","M05":"C06","M06":"C14","M07":"C14","M08":"C14 C09","M09":"C14 C09","M10":"C08",
          "M11":"C01 C03","M12":"C07 C15","M13":"C15 C04","M14":"C07 C10","M15":"C07 C10","M16":"C12","M17":"C12","M18":"C04","M19":"C02",
          "M20":"C02 C03","M21":"C16","M22":"C17 C13","M23":"C05","M25":"C02 C13 C07"}
only = sys.argv[2:]
def sh(c, cwd=None):
    return subprocess.run(c, shell=True, cwd=cwd, stdout=subprocess.PIPE, stderr=subprocess.STDOUT, text=True).stdout
for mid, props in sorted(EXPECT.items()):
    if only and mid not in only: continue
    patch = f"{D}/{mid}.diff"
    if not os.path.exists(patch): print(mid, "no patch"); continue
    out = sh(f"git -C /repo apply {patch}")
    if out.strip(): print(mid, "apply failed", out); continue
    try:
        res = []
        for p in props.split():
            o = sh(f"./check {p} quick", "/verif")
            v = [l for l in o.splitlines() if l.startswith("VIOLATION")]
            kind = "quiet" if not v else ("no-failing-input" if "no-failing-input-found" in v[0] else "failing-input")
            detail = ""
            m = re.search(r"replay=(\S+)", v[0]) if v else None
            if m:
                r = json.load(open(m.group(1)))
                detail = (r.get("oracle_line") or r.get("op") or r.get("replay_command") or "")[:90] + " => " + str(r.get("observed") or r.get("crate") or "")[:110]
            res.append(f"{p}:{kind} {detail}")
        print(mid, " | ".join(res), flush=True)
    finally:
        sh("git -C /repo checkout -- .")

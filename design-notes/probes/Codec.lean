namespace M
inductive Error | bufferSize | byteCount (c : UInt8) | fnCode (c : UInt8)
  deriving Repr, DecidableEq

inductive Res (α : Type) where
  | ok (a : α) | err (e : Error) | panic
  deriving Repr, DecidableEq

instance : Monad Res where
  pure := .ok
  bind x f := match x with | .ok a => f a | .err e => .err e | .panic => .panic

abbrev Bytes := List UInt8

def be16 (v : UInt16) : Bytes := [UInt8.ofNat (v.toNat / 256), UInt8.ofNat (v.toNat % 256)]
def rd16 (hi lo : UInt8) : UInt16 := UInt16.ofNat (hi.toNat * 256 + lo.toNat)

/-- `buf[i] = x` -/
def setAt (buf : Bytes) (i : Nat) (x : UInt8) : Res Bytes :=
  if i < buf.length then .ok (buf.set i x) else .panic
/-- `BigEndian::write_u16(&mut buf[off..], v)` and byte-copy loops: writes `bs` at `off` -/
def writeAt (buf : Bytes) (off : Nat) (bs : Bytes) : Res Bytes :=
  if bs = [] then .ok buf
  else if off + bs.length ≤ buf.length then .ok (buf.take off ++ bs ++ buf.drop (off + bs.length)) else .panic
/-- `BigEndian::read_u16(&b[i..i+2])` -/
def readAt16 (b : Bytes) (i : Nat) : Res UInt16 :=
  match b[i]?, b[i+1]? with
  | some hi, some lo => .ok (rd16 hi lo)
  | _, _ => .panic
def idx (b : Bytes) (i : Nat) : Res UInt8 := match b[i]? with | some x => .ok x | none => .panic

structure Data where
  data : Bytes
  quantity : Nat
  deriving Repr, DecidableEq

inductive Request
  | readCoils (a q : UInt16)
  | writeMultipleRegisters (a : UInt16) (d : Data)
  deriving Repr, DecidableEq

def Request.pduLen : Request → Nat
  | .readCoils _ _ => 5
  | .writeMultipleRegisters _ d => 6 + d.data.length

def u8mul2 (n : Nat) : Res UInt8 := -- `len as u8 * 2` with overflow check
  let x := n % 256
  if x * 2 ≤ 255 then .ok (UInt8.ofNat (x * 2)) else .panic

def Request.encode (r : Request) (buf : Bytes) : Res (Nat × Bytes) :=
  if buf.length < r.pduLen then .err .bufferSize else
  match r with
  | .readCoils a q => do
      let buf ← setAt buf 0 1
      let buf ← writeAt buf 1 (be16 a)
      let buf ← writeAt buf 3 (be16 q)
      pure (5, buf)
  | .writeMultipleRegisters a d => do
      let buf ← setAt buf 0 0x10
      let buf ← writeAt buf 1 (be16 a)
      let buf ← writeAt buf 3 (be16 (UInt16.ofNat d.quantity))
      let bc ← u8mul2 d.quantity
      let buf ← setAt buf 5 bc
      let buf ← writeAt buf 6 d.data
      pure (6 + d.data.length, buf)

def Request.bytesOf : Request → Bytes
  | .readCoils a q => 1 :: (be16 a ++ be16 q)
  | .writeMultipleRegisters a d =>
      0x10 :: (be16 a ++ be16 (UInt16.ofNat d.quantity) ++ [UInt8.ofNat (d.quantity * 2)] ++ d.data)

def Request.decode (b : Bytes) : Res Request :=
  if b.isEmpty then .err .bufferSize else do
  let fc ← idx b 0
  let minLen := if fc = 1 then 5 else if fc = 0x10 then 6 else 1
  if b.length < minLen then .err .bufferSize else
  if fc = 1 then do
    let a ← readAt16 b 1
    let q ← readAt16 b 3
    pure (.readCoils a q)
  else if fc = 0x10 then do
    let a ← readAt16 b 1
    let q ← readAt16 b 3
    let bc ← idx b 5
    if b.length < 6 + bc.toNat ∨ bc.toNat ≠ q.toNat * 2 then .err (.byteCount bc) else
    pure (.writeMultipleRegisters a ⟨(b.drop 6).take bc.toNat, q.toNat⟩)
  else .err (.fnCode fc)
end M

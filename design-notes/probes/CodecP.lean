import P.Codec
namespace M

theorem rd_be (v : UInt16) : rd16 (UInt8.ofNat (v.toNat / 256)) (UInt8.ofNat (v.toNat % 256)) = v := by
  apply UInt16.toNat_inj.mp
  have := v.toNat_lt
  simp [rd16, UInt8.toNat_ofNat']
  omega

@[simp] theorem bind_ok {α β} (a : α) (f : α → Res β) : (Res.ok a >>= f) = f a := rfl

theorem setAt_cons (x y : UInt8) (t : Bytes) : setAt (x :: t) 0 y = .ok (y :: t) := by
  simp [setAt]

theorem writeAt_split (pre mid post bs : Bytes) (h : mid.length = bs.length) (hb : bs ≠ []) :
    writeAt (pre ++ mid ++ post) pre.length bs = .ok (pre ++ bs ++ post) := by
  unfold writeAt
  simp only [hb, if_false]
  have : pre.length + bs.length ≤ (pre ++ mid ++ post).length := by simp; omega
  simp only [this, if_true]
  congr 1
  simp [List.take_append, List.drop_append, h]

/-- any buffer of length ≥ n splits as a prefix of length n and the rest -/
theorem split_buf (buf : Bytes) (n : Nat) (h : n ≤ buf.length) :
    ∃ pre post, buf = pre ++ post ∧ pre.length = n :=
  ⟨buf.take n, buf.drop n, (List.take_append_drop n buf).symm, by simp; omega⟩

theorem encode_readCoils (a q : UInt16) (buf : Bytes) (h : 5 ≤ buf.length) :
    (Request.readCoils a q).encode buf = .ok (5, (Request.readCoils a q).bytesOf ++ buf.drop 5) := by
  obtain ⟨pre, post, rfl, hp⟩ := split_buf buf 5 h
  match pre, hp with
  | [b0, b1, b2, b3, b4], _ =>
    simp [Request.encode, Request.pduLen, Request.bytesOf, setAt, writeAt, be16,
      bind, pure]

theorem decode_readCoils (a q : UInt16) :
    Request.decode (Request.readCoils a q).bytesOf = .ok (.readCoils a q) := by
  simp [Request.decode, Request.bytesOf, be16, idx, readAt16, bind, pure, rd_be]

end M


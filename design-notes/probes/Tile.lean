import P.Codec
namespace M

/-- run a list of checked writes, left to right -/
def applyWrites (buf : Bytes) : List (Nat × Bytes) → Res Bytes
  | [] => .ok buf
  | (off, bs) :: ws => match writeAt buf off bs with
      | .ok b => applyWrites b ws
      | .err e => .err e
      | .panic => .panic

/-- segments tile `[start, …)` contiguously -/
def Tiled (start : Nat) : List (Nat × Bytes) → Prop
  | [] => True
  | (off, bs) :: ws => off = start ∧ Tiled (start + bs.length) ws

def segBytes (ws : List (Nat × Bytes)) : Bytes := (ws.map (·.2)).flatten

theorem writeAt_at (done todo : Bytes) (bs : Bytes) (h : bs.length ≤ todo.length) :
    writeAt (done ++ todo) done.length bs = .ok (done ++ bs ++ todo.drop bs.length) := by
  unfold writeAt
  by_cases hb : bs = []
  · subst hb; simp
  · simp only [hb, if_false]
    have : done.length + bs.length ≤ (done ++ todo).length := by simp; omega
    simp only [this, if_true]
    congr 1
    simp [List.take_append, List.drop_append]

theorem applyWrites_tiled (ws : List (Nat × Bytes)) :
    ∀ (done todo : Bytes), Tiled done.length ws → (segBytes ws).length ≤ todo.length →
      applyWrites (done ++ todo) ws = .ok (done ++ segBytes ws ++ todo.drop (segBytes ws).length) := by
  induction ws with
  | nil => intro done todo _ _; simp [applyWrites, segBytes]
  | cons w ws ih =>
    intro done todo ht hl
    obtain ⟨off, bs⟩ := w
    obtain ⟨rfl, ht'⟩ := ht
    have hl' : bs.length + (segBytes ws).length ≤ todo.length := by
      simpa [segBytes] using hl
    simp only [applyWrites]
    rw [writeAt_at done todo bs (by omega)]
    have := ih (done ++ bs) (todo.drop bs.length) (by simpa using ht') (by simp; omega)
    simp only [List.append_assoc] at this ⊢
    rw [this]
    simp [segBytes, List.drop_drop, Nat.add_comm]

/-- the corollary used by every encoder: a tiling from 0 of total length n over any buffer of length ≥ n -/
theorem applyWrites_from_zero (ws : List (Nat × Bytes)) (buf : Bytes)
    (ht : Tiled 0 ws) (hl : (segBytes ws).length ≤ buf.length) :
    applyWrites buf ws = .ok (segBytes ws ++ buf.drop (segBytes ws).length) := by
  simpa using applyWrites_tiled ws [] buf (by simpa using ht) hl

/-- encoder written as a write list (one entry per Rust statement) -/
def encodeWmr (a : UInt16) (d : Data) (buf : Bytes) : Res (Nat × Bytes) :=
  if buf.length < 6 + d.data.length then .err .bufferSize else
  match u8mul2 d.quantity with
  | .ok bc =>
    match applyWrites buf [(0, [0x10]), (1, be16 a), (3, be16 (UInt16.ofNat d.quantity)), (5, [bc]), (6, d.data)] with
    | .ok b => .ok (6 + d.data.length, b)
    | .err e => .err e
    | .panic => .panic
  | .err e => .err e
  | .panic => .panic

theorem encodeWmr_ok (a : UInt16) (d : Data) (buf : Bytes)
    (hq : d.quantity * 2 ≤ 255) (h : 6 + d.data.length ≤ buf.length) :
    encodeWmr a d buf = .ok (6 + d.data.length,
      (0x10 :: (be16 a ++ be16 (UInt16.ofNat d.quantity) ++ [UInt8.ofNat (d.quantity * 2)] ++ d.data))
        ++ buf.drop (6 + d.data.length)) := by
  unfold encodeWmr
  have h1 : ¬ buf.length < 6 + d.data.length := by omega
  have hmod : d.quantity % 256 = d.quantity := by omega
  have hu : u8mul2 d.quantity = .ok (UInt8.ofNat (d.quantity * 2)) := by
    simp [u8mul2, hmod, hq]
  simp only [h1, if_false, hu]
  rw [applyWrites_from_zero]
  · simp [segBytes, be16]; omega
  · simp [Tiled, be16]
  · simp [segBytes, be16]; omega
end M

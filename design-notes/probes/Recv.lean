namespace R
abbrev Bytes := List UInt8
inductive Res (α : Type) where
  | ok (a : α) | err (e : Nat) | panic
structure Loc where
  start : Nat
  size : Nat

variable {F : Type}

/-- caller-side loop: scan, consume start+size, repeat -/
def drain (scan : Bytes → Res (Option (F × Loc))) (buf : Bytes) (out : List F) : Bytes × List F × Bool :=
  if hb : buf = [] then (buf, out, false) else
  match scan buf with
  | .ok (some (x, loc)) =>
      if h0 : loc.start + loc.size = 0 then (buf, out, true)
      else drain scan (buf.drop (loc.start + loc.size)) (out ++ [x])
  | .ok none => (buf, out, false)
  | .err _ => (buf, out, true)
  | .panic => (buf, out, true)
termination_by buf.length
decreasing_by
  have : buf.length ≠ 0 := by simpa using hb
  simp [List.length_drop]; omega

structure St (F : Type) where
  buf : Bytes
  out : List F
  fault : Bool

def recv (scan : Bytes → Res (Option (F × Loc))) (s : St F) (chunk : Bytes) : St F :=
  let (b, o, f) := drain scan (s.buf ++ chunk) s.out
  ⟨b, o, s.fault || f⟩

/-- a frame the scanner handles: found at (0,len) whatever follows; every strict non-empty prefix is 'incomplete' -/
structure Good (scan : Bytes → Res (Option (F × Loc))) (f : Bytes) (x : F) : Prop where
  pos : 1 ≤ f.length
  whole : ∀ rest, scan (f ++ rest) = .ok (some (x, ⟨0, f.length⟩))
  pre : ∀ p, p ≠ [] → p <+: f → p.length < f.length → scan p = .ok none

/-- peel complete frames off a received prefix -/
def peel : List (Bytes × F) → Bytes → List F × Bytes
  | [], b => ([], b)
  | (f, x) :: fs, b =>
      if f.length ≤ b.length then
        let (xs, r) := peel fs (b.drop f.length)
        (x :: xs, r)
      else ([], b)

def stream (fs : List (Bytes × F)) : Bytes := (fs.map (·.1)).flatten

theorem prefix_cases (f s b : Bytes) (h : b <+: f ++ s) :
    (f.length ≤ b.length ∧ ∃ b', b = f ++ b' ∧ b' <+: s) ∨ (b.length < f.length ∧ b <+: f) := by
  have hf : f <+: f ++ s := List.prefix_append f s
  by_cases hl : f.length ≤ b.length
  · left
    refine ⟨hl, ?_⟩
    obtain ⟨b', rfl⟩ := List.prefix_of_prefix_length_le hf h hl
    exact ⟨b', rfl, (List.prefix_append_right_inj f).mp h⟩
  · right
    exact ⟨by omega, List.prefix_of_prefix_length_le h hf (by omega)⟩

variable (scan : Bytes → Res (Option (F × Loc)))

theorem drain_spec (fs : List (Bytes × F)) (hg : ∀ p ∈ fs, Good scan p.1 p.2) :
    ∀ (b : Bytes) (out : List F), b <+: stream fs →
      drain scan b out = ((peel fs b).2, out ++ (peel fs b).1, false) := by
  induction fs with
  | nil =>
    intro b out hb
    have : b = [] := by simpa [stream] using hb
    subst this
    rw [drain]; simp [peel]
  | cons fx fs ih =>
    obtain ⟨f, x⟩ := fx
    intro b out hb
    have hgood : Good scan f x := hg (f, x) (by simp)
    have hfne : f ≠ [] := by
      intro h; have := hgood.pos; simp [h] at this
    have hb' : b <+: f ++ stream fs := by simpa [stream] using hb
    rcases prefix_cases f (stream fs) b hb' with ⟨hl, b', rfl, hb''⟩ | ⟨hl, hpre⟩
    · -- a whole frame is at the front
      rw [drain]
      have hne : f ++ b' ≠ [] := by
        intro h; have h2 := congrArg List.length h; simp at h2; exact hfne h2.1
      simp only [hne, dite_false, hgood.whole b']
      have h0 : ¬ (0 + f.length = 0) := by have := hgood.pos; omega
      simp only [h0, dite_false]
      have hd : (f ++ b').drop (0 + f.length) = b' := by simp
      rw [hd, ih (fun p hp => hg p (by simp [hp])) b' (out ++ [x]) hb'']
      have hle : f.length ≤ (f ++ b').length := by simp
      simp [peel, hle]
    · -- only a strict prefix of the next frame
      have hnle : ¬ f.length ≤ b.length := by omega
      by_cases hbe : b = []
      · subst hbe; rw [drain]; simp [peel, hfne]
      · rw [drain]
        simp only [hbe, dite_false, hgood.pre b hbe hpre hl]
        simp [peel, hnle]

theorem peel_stream (fs : List (Bytes × F)) : peel fs (stream fs) = (fs.map (·.2), []) := by
  induction fs with
  | nil => simp [peel, stream]
  | cons fx fs ih =>
    obtain ⟨f, x⟩ := fx
    have : stream ((f, x) :: fs) = f ++ stream fs := by simp [stream]
    rw [this]
    simp [peel, ih]

theorem peel_append (fs : List (Bytes × F)) (hpos : ∀ p ∈ fs, 1 ≤ p.1.length) :
    ∀ (P c : Bytes), P ++ c <+: stream fs →
      (peel fs P).2 ++ c <+: stream (fs.drop (peel fs P).1.length) ∧
      peel fs (P ++ c) =
        ((peel fs P).1 ++ (peel (fs.drop (peel fs P).1.length) ((peel fs P).2 ++ c)).1,
         (peel (fs.drop (peel fs P).1.length) ((peel fs P).2 ++ c)).2) := by
  induction fs with
  | nil =>
    intro P c h
    have : P ++ c = [] := by simpa [stream] using h
    have hP : P = [] := (List.append_eq_nil_iff.mp this).1
    have hc : c = [] := (List.append_eq_nil_iff.mp this).2
    subst hP; subst hc
    simp [peel, stream]
  | cons fx fs ih =>
    obtain ⟨f, x⟩ := fx
    intro P c h
    have hs : stream ((f, x) :: fs) = f ++ stream fs := by simp [stream]
    rw [hs] at h
    have hPpre : P <+: f ++ stream fs := (List.prefix_append P c).trans h
    by_cases hl : f.length ≤ P.length
    · rcases prefix_cases f (stream fs) P hPpre with ⟨_, P', rfl, _⟩ | ⟨hlt, _⟩
      · have h' : P' ++ c <+: stream fs := by
          rw [List.append_assoc] at h
          exact (List.prefix_append_right_inj f).mp h
        obtain ⟨ih1, ih2⟩ := ih (fun p hp => hpos p (by simp [hp])) P' c h'
        have hle : f.length ≤ (f ++ P').length := by simp
        have hle2 : f.length ≤ (f ++ P' ++ c).length := by simp [List.append_assoc]
        constructor
        · simpa [peel, hle] using ih1
        · have e1 : (f ++ P' ++ c).drop f.length = P' ++ c := by simp [List.append_assoc]
          simp only [peel, hle, hle2, if_true, List.drop_left', e1, ih2]
          simp
      · omega
    · have hnl : ¬ f.length ≤ P.length := hl
      simp [peel, hnl, hs, h]

theorem reassembly (fs : List (Bytes × F)) (hg : ∀ p ∈ fs, Good scan p.1 p.2) :
    ∀ (cs : List Bytes) (P : Bytes), P ++ cs.flatten = stream fs →
      cs.foldl (recv scan) ⟨(peel fs P).2, (peel fs P).1, false⟩ = ⟨[], fs.map (·.2), false⟩ := by
  intro cs
  induction cs with
  | nil =>
    intro P h
    have : P = stream fs := by simpa using h
    subst this
    simp [peel_stream]
  | cons c cs ih =>
    intro P h
    have h' : (P ++ c) ++ cs.flatten = stream fs := by simpa [List.append_assoc] using h
    have hpre : P ++ c <+: stream fs := ⟨cs.flatten, h'⟩
    obtain ⟨p1, p2⟩ := peel_append fs (fun p hp => (hg p hp).pos) P c hpre
    have hgd : ∀ p ∈ fs.drop (peel fs P).1.length, Good scan p.1 p.2 :=
      fun p hp => hg p (List.mem_of_mem_drop hp)
    have hd := drain_spec scan (fs.drop (peel fs P).1.length) hgd _ (peel fs P).1 p1
    have step : recv scan ⟨(peel fs P).2, (peel fs P).1, false⟩ c
        = ⟨(peel fs (P ++ c)).2, (peel fs (P ++ c)).1, false⟩ := by
      simp only [recv, hd, p2, Bool.false_or]
    simp only [List.foldl_cons, step]
    exact ih (P ++ c) h'

/-- C11 as stated: every way of cutting the stream into pieces -/
theorem reassembly_all_chunkings (fs : List (Bytes × F)) (hg : ∀ p ∈ fs, Good scan p.1 p.2)
    (cs : List Bytes) (h : cs.flatten = stream fs) :
    cs.foldl (recv scan) ⟨[], [], false⟩ = ⟨[], fs.map (·.2), false⟩ := by
  have := reassembly scan fs hg cs [] (by simpa using h)
  cases fs with
  | nil => simpa [peel] using this
  | cons fx fs =>
    have hp : 1 ≤ fx.1.length := (hg fx (by simp)).pos
    have hn : ¬ fx.1.length ≤ 0 := by omega
    simpa [peel, hn] using this

end R

namespace Scan
inductive Res (α : Type) where
  | ok (a : α) | err (e : Nat) | panic
  deriving Repr, DecidableEq

abbrev Bytes := List UInt8
structure Loc where
  start : Nat
  size : Nat
  deriving Repr, DecidableEq

/-- one attempt at the front of a buffer: error, incomplete (none) or a frame of `size` bytes -/
abbrev Attempt (F : Type) := Bytes → Res (Option (F × Nat))

def maxFrameLen : Nat := 256

/-- model of `decode`'s loop (rtu/mod.rs:42-91, tcp/mod.rs:42-92), `d` = drop_cnt -/
def scanFrom {F} (att : Attempt F) (buf : Bytes) (d : Nat) : Res (Option (F × Loc)) :=
  if _h : d + 1 ≥ buf.length then .ok none
  else match att (buf.drop d) with
    | .ok none => .ok none
    | .ok (some (f, sz)) => .ok (some (f, ⟨d, sz⟩))
    | .panic => .panic
    | .err e => if d + 1 ≥ maxFrameLen then .err e else scanFrom att buf (d + 1)
termination_by buf.length - d
decreasing_by omega

def scan {F} (att : Attempt F) (buf : Bytes) : Res (Option (F × Loc)) :=
  if buf.isEmpty then .err 0 else scanFrom att buf 0

def isErr {α} : Res α → Bool | .err _ => true | _ => false

/-- all offsets in [d, s) are errors ⇒ the loop reaches s -/
theorem scanFrom_skip {F} (att : Attempt F) (buf : Bytes) (d s : Nat) (hds : d ≤ s)
    (hs : s + 1 < buf.length) (hs2 : s < maxFrameLen)
    (herr : ∀ i, d ≤ i → i < s → isErr (att (buf.drop i)) = true) :
    scanFrom att buf d = scanFrom att buf s := by
  induction h : s - d generalizing d with
  | zero => have : d = s := by omega
            subst this; rfl
  | succ n ih =>
    have hlt : d < s := by omega
    rw [scanFrom]
    have h1 : ¬ (d + 1 ≥ buf.length) := by omega
    simp only [h1, dite_false]
    have he := herr d (Nat.le_refl _) hlt
    cases hatt : att (buf.drop d) with
    | ok a => simp [hatt, isErr] at he
    | panic => simp [hatt, isErr] at he
    | err e =>
      simp only
      have h2 : ¬ (d + 1 ≥ maxFrameLen) := by omega
      simp only [h2, if_false]
      exact ih (d+1) (by omega) (fun i hi1 hi2 => herr i (by omega) hi2) (by omega)

/-- C14, first clause, generic in the attempt -/
theorem scan_found {F} (att : Attempt F) (noise frame rest : Bytes) (f : F)
    (hn : noise.length < maxFrameLen) (hfl : 2 ≤ frame.length)
    (herr : ∀ i, i < noise.length → isErr (att ((noise ++ frame ++ rest).drop i)) = true)
    (hatt : att (frame ++ rest) = .ok (some (f, frame.length))) :
    scan att (noise ++ frame ++ rest) = .ok (some (f, ⟨noise.length, frame.length⟩)) := by
  unfold scan
  have hne : (noise ++ frame ++ rest).isEmpty = false := by
    cases noise <;> cases frame <;> simp_all
  simp only [hne]
  rw [scanFrom_skip att _ 0 noise.length (Nat.zero_le _) (by simp; omega) hn
    (fun i _ hi => herr i hi)]
  rw [scanFrom]
  have h1 : ¬ (noise.length + 1 ≥ (noise ++ frame ++ rest).length) := by simp; omega
  simp only [h1, dite_false]
  have hd : (noise ++ frame ++ rest).drop noise.length = frame ++ rest := by
    simp [List.append_assoc]
  rw [hd, hatt]
  simp

/-- C14, third clause: 256 rejected offsets in a buffer of ≥ 257 bytes ⇒ error, not 'incomplete' -/
theorem scan_gives_up {F} (att : Attempt F) (buf : Bytes) (hl : 257 ≤ buf.length)
    (herr : ∀ d, d < 256 → isErr (att (buf.drop d)) = true) :
    isErr (scan att buf) = true := by
  unfold scan
  have hne : buf.isEmpty = false := by cases buf <;> simp_all
  simp only [hne]
  rw [scanFrom_skip att buf 0 255 (by omega) (by omega) (by simp [maxFrameLen])
    (fun i _ hi => herr i (by omega))]
  rw [scanFrom]
  have h1 : ¬ (255 + 1 ≥ buf.length) := by omega
  simp only [h1, dite_false]
  have he := herr 255 (by omega)
  cases hatt : att (buf.drop 255) with
  | ok a => simp [hatt, isErr] at he
  | panic => simp [hatt, isErr] at he
  | err e => simp [maxFrameLen, isErr]
end Scan

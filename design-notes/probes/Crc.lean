namespace Crc
/-- one shift round of `crc16` (rtu/mod.rs:132-137) -/
def L (s : BitVec 16) : BitVec 16 :=
  if s &&& 1#16 != 0#16 then (s >>> 1) ^^^ 0xA001#16 else s >>> 1
def steps8 (s : BitVec 16) : BitVec 16 := L (L (L (L (L (L (L (L s)))))))
def stepByte (s : BitVec 16) (b : BitVec 8) : BitVec 16 := steps8 (s ^^^ b.zeroExtend 16)
def raw (init : BitVec 16) (bs : List (BitVec 8)) : BitVec 16 := bs.foldl stepByte init
def crc16 (bs : List (BitVec 8)) : BitVec 16 := (raw 0xFFFF#16 bs).rotateRight 8
example : crc16 [0x01, 0x03, 0x08, 0x2B, 0x00, 0x02] = 0xB663#16 := by decide +kernel

def P : BitVec 16 := 0xA001#16

theorem and_one_ne (s : BitVec 16) : (s &&& 1#16 != 0#16) = s.getLsbD 0 := by
  rcases hb : s.getLsbD 0 with _ | _
  · have : s &&& 1#16 = 0#16 := by
      ext i hi
      by_cases h0 : i = 0
      · subst h0; simpa using hb
      · simp [h0]
    simp [this]
  · have : s &&& 1#16 ≠ 0#16 := by
      intro h
      have h2 := congrArg (fun v => v.getLsbD 0) h
      simp at h2
      rw [BitVec.getLsbD_eq_getElem (by decide)] at hb
      rw [hb] at h2; exact absurd h2 (by decide)
    simp [this]

theorem L_def (s : BitVec 16) : L s = (s >>> 1) ^^^ (if s.getLsbD 0 then P else 0#16) := by
  unfold L P
  rw [and_one_ne]; split <;> simp

theorem xor_cancel_left (p a : BitVec 16) : p ^^^ (p ^^^ a) = a := by
  rw [← BitVec.xor_assoc, BitVec.xor_self, BitVec.zero_xor]

theorem L_xor (x y : BitVec 16) : L (x ^^^ y) = L x ^^^ L y := by
  simp only [L_def, BitVec.getLsbD_xor, BitVec.ushiftRight_xor_distrib]
  rcases x.getLsbD 0 with _ | _ <;> rcases y.getLsbD 0 with _ | _ <;> simp
  · ac_rfl
  · ac_rfl
  · have : x >>> 1 ^^^ P ^^^ (y >>> 1 ^^^ P) = P ^^^ (P ^^^ (x >>> 1 ^^^ y >>> 1)) := by ac_rfl
    rw [this, xor_cancel_left]

theorem L_zero : L 0#16 = 0#16 := by decide

theorem L_eq_zero (s : BitVec 16) (h : L s = 0#16) : s = 0#16 := by
  rw [L_def] at h
  rcases hb : s.getLsbD 0 with _ | _
  · rw [hb] at h
    simp at h
    have hs : s.toNat / 2 = 0 := by
      have := congrArg BitVec.toNat h
      simpa [BitVec.toNat_ushiftRight, Nat.shiftRight_eq_div_pow] using this
    have h0 : s.toNat % 2 = 0 := by
      have : s.getLsbD 0 = s.toNat.testBit 0 := rfl
      rw [this, Nat.testBit_zero] at hb
      simpa using hb
    apply BitVec.eq_of_toNat_eq
    simp; omega
  · rw [hb] at h
    simp only [if_true] at h
    have h' : s >>> 1 = P := BitVec.xor_eq_zero_iff.mp h
    have := congrArg BitVec.toNat h'
    simp [BitVec.toNat_ushiftRight, Nat.shiftRight_eq_div_pow, P] at this
    have := s.isLt
    omega

/-! bit-serial view and the back-step argument for bursts -/
def bit (b : Bool) : BitVec 16 := if b then 1#16 else 0#16
def step (s : BitVec 16) (b : Bool) : BitVec 16 := L (s ^^^ bit b)
def feed (s : BitVec 16) (w : List Bool) : BitVec 16 := w.foldl step s

theorem step_eq (s : BitVec 16) (b : Bool) :
    step s b = (s >>> 1) ^^^ (if (s.getLsbD 0 ^^ b) then P else 0#16) := by
  unfold step
  rw [L_def]
  have h1 : (s ^^^ bit b) >>> 1 = s >>> 1 := by
    cases b <;> simp [bit, BitVec.ushiftRight_xor_distrib]
  have h2 : (s ^^^ bit b).getLsbD 0 = (s.getLsbD 0 ^^ b) := by
    cases b <;> simp [bit]
  rw [h1, h2]

theorem msb_shr1 (s : BitVec 16) : (s >>> 1).msb = false := by
  simp [BitVec.msb_ushiftRight]

theorem step_msb (s : BitVec 16) (b : Bool) : (step s b).msb = (s.getLsbD 0 ^^ b) := by
  rw [step_eq, BitVec.msb_xor, msb_shr1]
  cases (s.getLsbD 0 ^^ b) <;> simp [P] <;> decide

/-- if the new state's top bit is clear there was no feedback: the input bit equalled the register's low bit -/
theorem step_back (s : BitVec 16) (b : Bool) (h : (step s b).msb = false) :
    b = s.getLsbD 0 ∧ step s b = s >>> 1 := by
  rw [step_msb] at h
  have hb : b = s.getLsbD 0 := by
    rw [BitVec.getLsbD_eq_getElem (by decide)] at h ⊢
    cases b <;> cases hs : s[0] <;> simp [hs] at h ⊢
  refine ⟨hb, ?_⟩
  rw [step_eq, h]; simp

theorem msb_false_of_shr_zero (x : BitVec 16) (k : Nat) (hk : k ≤ 15) (h : x >>> k = 0#16) :
    x.msb = false := by
  have := congrArg (fun v => v.getLsbD (15 - k)) h
  simp at this
  have e : k + (15 - k) = 15 := by omega
  rw [e] at this
  simpa [BitVec.msb_eq_getLsbD_last] using this

/-- a window of at most 16 bits that brings the register to 0 merely spells out the register's own low bits -/
theorem feed_zero_back : ∀ (w : List Bool) (s : BitVec 16), w.length ≤ 16 → feed s w = 0#16 →
    s >>> w.length = 0#16 ∧ ∀ j (h : j < w.length), w[j] = s.getLsbD j := by
  intro w
  induction w with
  | nil => intro s _ h; simpa [feed] using h
  | cons b w ih =>
    intro s hl h
    have hl' : w.length ≤ 15 := by simpa using hl
    have h' : feed (step s b) w = 0#16 := by simpa [feed] using h
    obtain ⟨i1, i2⟩ := ih (step s b) (by omega) h'
    have hm : (step s b).msb = false := msb_false_of_shr_zero _ _ hl' i1
    obtain ⟨hb, hs⟩ := step_back s b hm
    rw [hs] at i1 i2
    constructor
    · have e : s >>> (b :: w).length = s >>> 1 >>> w.length := by
        rw [← BitVec.shiftRight_add]; simp [Nat.add_comm]
      rw [e]; exact i1
    · intro j hj
      cases j with
      | zero => simpa using hb
      | succ j =>
        have := i2 j (by simpa using hj)
        simpa [Nat.add_comm] using this

/-- burst detection core: from the zero register, a non-zero window of ≤ 16 bits leaves a non-zero register -/
theorem burst_nonzero (w : List Bool) (hl : w.length ≤ 16) (hw : true ∈ w) : feed 0#16 w ≠ 0#16 := by
  intro h
  obtain ⟨_, h2⟩ := feed_zero_back w 0#16 hl h
  obtain ⟨j, hj, hjt⟩ := List.getElem_of_mem hw
  have := h2 j hj
  rw [hjt] at this
  simp at this
end Crc

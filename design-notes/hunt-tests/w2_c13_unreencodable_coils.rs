// C13: "Re-encoding a decoded value and decoding again gives an equivalent value".
//
// Request::try_from accepts a write-multiple-coils request whose quantity needs more than 255
// packed bytes (quantity > 2040) as long as enough bytes FOLLOW the header -- the byte-count field
// is neither compared with the quantity nor used to bound the data (`data = &bytes[6..]`).
// The decoded value is perfectly usable (len/get/iter agree, so this is NOT the known short-data
// case) but it can never be re-encoded: Request::encode returns Err(BufferSize) however large
// the buffer is.
use modbus_core::*;

#[test]
fn decoded_write_multiple_coils_with_quantity_above_2040_cannot_be_reencoded() {
    // 0F | addr 0000 | quantity 0x0800 = 2048 | byte count FF | 256 data bytes
    let mut pdu = vec![0x0F, 0x00, 0x00, 0x08, 0x00, 0xFF];
    pdu.extend(std::iter::repeat(0xA5).take(256));

    let req = Request::try_from(&pdu[..]).expect("decoder accepts it");
    let Request::WriteMultipleCoils(_, coils) = req else {
        panic!()
    };
    // the value is coherent and safe to use ...
    assert_eq!(coils.len(), 2048);
    assert!((0..2048).all(|i| coils.get(i).is_some()));
    assert!(coils.get(2048).is_none());
    assert_eq!(coils.into_iter().count(), 2048);
    assert_eq!(req.pdu_len(), 6 + 256);

    // ... but re-encoding it is impossible, so decode . encode . decode is not defined
    let mut out = vec![0u8; 70_000];
    let n = req
        .encode(&mut out)
        .expect("a value returned by the decoder must be re-encodable");
    let again = Request::try_from(&out[..n]).unwrap();
    let Request::WriteMultipleCoils(_, c2) = again else {
        panic!()
    };
    assert_eq!(c2.len(), 2048);
}

#[test]
fn maximal_quantity_is_accepted_too() {
    // quantity 0xFFFF with 8192 bytes following, byte count field 0
    let mut pdu = vec![0x0F, 0x00, 0x00, 0xFF, 0xFF, 0x00];
    pdu.extend(std::iter::repeat(0xFF).take(8192));
    let req = Request::try_from(&pdu[..]).expect("decoder accepts it");
    let mut out = vec![0u8; 70_000];
    assert!(
        req.encode(&mut out).is_ok(),
        "decoded value cannot be re-encoded: {:?}",
        req.encode(&mut out)
    );
}

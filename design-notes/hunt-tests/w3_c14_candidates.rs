// C14 candidates (public API only). Each test asserts the literal reading of a C14 clause
// and FAILS on the unmodified code. Whether they count as defects depends on how
// "noise that cannot itself be read as a plausible frame start" / "can start a frame" is read.
use modbus_core::*;

fn rtu_exception_frame(slave: u8) -> Vec<u8> {
    let mut buf = [0u8; 16];
    let n = rtu::server::encode_response(
        rtu::ResponseAdu {
            hdr: rtu::Header { slave },
            pdu: ResponsePdu(Err(ExceptionResponse {
                function: FunctionCode::ReadHoldingRegisters,
                exception: Exception::IllegalDataAddress,
            })),
        },
        &mut buf,
    )
    .unwrap();
    buf[..n].to_vec()
}

/// Clause 1, RTU response direction: one byte of 0x42 noise in front of the 5-byte
/// exception response `01 83 02 C0 F1` of slave 1.
/// At offset 0 the scanner reads slave=0x42, fn=0x01 (the real slave id), byte count=0x83
/// (the real function code) => "needs 136 bytes" => Ok(None), and never looks at offset 1.
#[test]
fn a1_rtu_one_noise_byte_before_exception_response_of_slave_1() {
    let frame = rtu_exception_frame(0x01);
    assert_eq!(frame, [0x01, 0x83, 0x02, 0xC0, 0xF1]);
    // sanity: the frame alone is found at (0, 5)
    let (_, loc) = rtu::decode(DecoderType::Response, &frame).unwrap().unwrap();
    assert_eq!((loc.start, loc.size), (0, 5));

    // the noise byte followed by the *next* noise byte is not a frame start (fn 0x42 is rejected)
    assert!(rtu::response_pdu_len(&[0x42, 0x42]).is_err());

    let mut buf = vec![0x42];
    buf.extend_from_slice(&frame);
    let res = rtu::decode(DecoderType::Response, &buf).unwrap();
    let loc = res.map(|(_, l)| (l.start, l.size));
    assert_eq!(loc, Some((1, 5)), "frame after 1 noise byte not found");
}

/// Same with 255 noise bytes (the stated maximum) and every slave id that is also a
/// response function code of the 'byte count' family (1,2,3,4,0x0C,0x17).
#[test]
fn a2_rtu_noise_lengths_and_slave_ids() {
    let mut missed = vec![];
    for slave in [0x01u8, 0x02, 0x03, 0x04, 0x0C, 0x17] {
        for n in [1usize, 2, 100, 255] {
            let frame = rtu_exception_frame(slave);
            let mut buf = vec![0x42; n];
            buf.extend_from_slice(&frame);
            let loc = rtu::decode(DecoderType::Response, &buf)
                .unwrap()
                .map(|(_, l)| (l.start, l.size));
            if loc != Some((n, frame.len())) {
                missed.push((slave, n, loc));
            }
        }
    }
    assert!(missed.is_empty(), "missed (slave, noise len, result): {missed:?}");
}

/// Clause 1, RTU request direction: 4-byte request (fn 0x07 / 0x0B / 0x0C / 0x11) of slave 1..6
/// after one noise byte: straddling read is slave=0x42, fn=<slave id> => fixed PDU length 5,
/// needs 8 bytes, 5 available => Ok(None).
#[test]
fn a3_rtu_request_direction() {
    let mut missed = vec![];
    for slave in 1u8..=6 {
        for f in [0x07u8, 0x0B, 0x0C, 0x11] {
            let mut b = [0u8; 8];
            let n = rtu::client::encode_request(
                rtu::RequestAdu {
                    hdr: rtu::Header { slave },
                    pdu: RequestPdu(Request::Custom(FunctionCode::Custom(f), &[])),
                },
                &mut b,
            )
            .unwrap();
            let mut buf = vec![0x42];
            buf.extend_from_slice(&b[..n]);
            let loc = rtu::decode(DecoderType::Request, &buf)
                .unwrap()
                .map(|(_, l)| (l.start, l.size));
            if loc != Some((1, n)) {
                missed.push((slave, f, loc));
            }
        }
    }
    assert!(missed.is_empty(), "missed (slave, fn, result): {missed:?}");
}

/// Clause 1, TCP: one noise byte before a 9-byte exception response whose unit id is 1.
/// Straddling read at offset 0: fn = unit id = 0x01, byte count = real fn 0x83 => needs 140 bytes.
#[test]
fn a4_tcp_one_noise_byte_before_exception_response_unit_1() {
    let mut b = [0u8; 16];
    let n = tcp::server::encode_response(
        tcp::ResponseAdu {
            hdr: tcp::Header {
                transaction_id: 0x1234,
                unit_id: 0x01,
            },
            pdu: ResponsePdu(Err(ExceptionResponse {
                function: FunctionCode::ReadHoldingRegisters,
                exception: Exception::IllegalDataAddress,
            })),
        },
        &mut b,
    )
    .unwrap();
    assert_eq!(n, 9);
    let mut buf = vec![0x42];
    buf.extend_from_slice(&b[..n]);
    let loc = tcp::decode(DecoderType::Response, &buf)
        .unwrap()
        .map(|(_, l)| (l.start, l.size));
    assert_eq!(loc, Some((1, 9)));
}

/// Clause 3, TCP: 258..=262 bytes of 0x42. None of the first 256 offsets can start a frame
/// (every visible protocol-id byte is 0x42, every visible function code is 0x42), but the
/// scanner answers Ok(None): at offset 255 fewer than 8 bytes remain, and the TCP predictors
/// call anything shorter than 8 bytes "incomplete" before the give-up test is reached.
/// (RTU gives Err for all lengths >= 257.)
#[test]
fn b1_tcp_garbage_258_to_262_bytes_is_incomplete_not_error() {
    let mut not_err = vec![];
    for len in 257..=270usize {
        let buf = vec![0x42u8; len];
        for d in [DecoderType::Request, DecoderType::Response] {
            assert!(rtu::decode(d, &buf).is_err(), "rtu len {len}");
            if let Ok(r) = tcp::decode(d, &buf) {
                assert!(r.is_none());
                not_err.push((len, d));
            }
        }
    }
    // len 257 leaves tid only (2 bytes) => arguably still a possible frame start; 258.. shows a non-zero protocol id
    let not_err: Vec<_> = not_err.into_iter().filter(|(l, _)| *l >= 258).collect();
    assert!(not_err.is_empty(), "Ok(None) instead of Err for: {not_err:?}");
}

/// Clause 3, both transports: a header announcing a PDU far larger than MAX_FRAME_LEN (256)
/// keeps the scanner at 'incomplete' for as long as the receiver can buffer:
/// RTU response `01 18 FF FF ...` (read-FIFO, 16-bit byte count 0xFFFF) followed by 596 garbage bytes.
#[test]
fn b2_oversize_announcement_never_errors() {
    let mut buf = vec![0x01, 0x18, 0xFF, 0xFF];
    buf.extend_from_slice(&[0x42; 596]);
    let r = rtu::decode(DecoderType::Response, &buf);
    assert!(r.is_err(), "600-byte RTU buffer (max RTU frame: 256) still 'incomplete': {r:?}");
}

#[test]
fn b3_oversize_announcement_never_errors_tcp() {
    // protocol id is already wrong (0x4242) and the MBAP length (0x4242) contradicts the predicted one
    let mut buf = vec![0x42; 600];
    buf[7] = 0x18;
    buf[8] = 0xFF;
    buf[9] = 0xFF;
    let r = tcp::decode(DecoderType::Response, &buf);
    assert!(r.is_err(), "600-byte TCP buffer with protocol id 0x4242 still 'incomplete': {r:?}");
}

//! NOT a code defect - a caveat about how C08's "burst <= 16 bits" must be read.
//! CRC-16/MODBUS is a reflected CRC: its burst guarantee is for bits contiguous in
//! wire order (LSB of each byte first, as a UART sends them).  If bits inside a byte
//! are numbered MSB-first, an 11-"bit" burst can map a valid frame to a valid frame.
use modbus_core::*;

#[test]
fn msb_first_numbered_burst_is_not_a_wire_burst() {
    let good = [0xF5u8, 0x05, 0x1C, 0x0A, 0xFF, 0x00, 0xBE, 0xDC];
    let bad = [0xF5u8, 0x05, 0x1D, 0xCB, 0x3F, 0x00, 0xBE, 0xDC];
    // both are CRC-valid frames of the same length at the same position
    assert!(rtu::extract_frame(&good, 5).unwrap().is_some());
    assert!(rtu::extract_frame(&bad, 5).unwrap().is_some());
    // differing bits, numbered MSB-first: 23,24,25,31,32,33 -> span 11
    let mut idx = vec![];
    for i in 0..64 {
        if (good[i / 8] ^ bad[i / 8]) & (0x80 >> (i % 8)) != 0 {
            idx.push(i);
        }
    }
    assert_eq!(idx, vec![23, 24, 25, 31, 32, 33]);
    // numbered LSB-first (wire order) the same error spans 24 bits (> 16)
    let mut idx = vec![];
    for i in 0..64 {
        if (good[i / 8] ^ bad[i / 8]) & (1 << (i % 8)) != 0 {
            idx.push(i);
        }
    }
    assert_eq!(idx.last().unwrap() - idx.first().unwrap() + 1, 24);
}

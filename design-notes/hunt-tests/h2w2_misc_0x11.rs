use modbus_core::*;

struct Rng(u64);
impl Rng {
    fn next(&mut self) -> u64 {
        let mut x = self.0;
        x ^= x << 13;
        x ^= x >> 7;
        x ^= x << 17;
        self.0 = x;
        x
    }
    fn below(&mut self, n: usize) -> usize {
        (self.next() % n as u64) as usize
    }
}

// Containers taken from any decoded value, transplanted into every variant that
// takes one: pdu_len / encode must not panic and must agree.
#[test]
fn transplanted_containers() {
    let mut rng = Rng(99);
    for _ in 0..200_000 {
        let n = rng.below(300);
        let mut v: Vec<u8> = (0..n).map(|_| rng.next() as u8).collect();
        if n >= 2 {
            v[0] = [1u8, 2, 3, 4, 0x0F, 0x10, 0x17][rng.below(7)];
            if rng.below(2) == 0 {
                v[1] = (n - 2).min(255) as u8;
            }
            if n >= 6 && (v[0] == 0x0F || v[0] == 0x10) && rng.below(2) == 0 {
                v[5] = (n - 6).min(255) as u8;
                v[3] = 0;
                v[4] = if v[0] == 0x10 { v[5] / 2 } else { v[5] };
                if v[0] == 0x0F {
                    let q = (v[5] as usize * 8).saturating_sub(rng.below(8));
                    v[3] = (q >> 8) as u8;
                    v[4] = q as u8;
                }
            }
            if n >= 10 && v[0] == 0x17 && rng.below(2) == 0 {
                v[9] = (n - 10).min(255) as u8;
                v[7] = 0;
                v[8] = v[9] / 2;
            }
        }
        let mut coils: Vec<Coils> = vec![];
        let mut datas: Vec<Data> = vec![];
        if let Ok(r) = Request::try_from(&v[..]) {
            match r {
                Request::WriteMultipleCoils(_, c) => {
                    let q = u16::from_be_bytes([v[3], v[4]]) as usize;
                    if v.len() - 6 >= (q + 7) / 8 {
                        coils.push(c)
                    }
                }
                Request::WriteMultipleRegisters(_, d) | Request::ReadWriteMultipleRegisters(_, _, _, d) => datas.push(d),
                _ => {}
            }
        }
        if let Ok(r) = Response::try_from(&v[..]) {
            match r {
                Response::ReadCoils(c) | Response::ReadDiscreteInputs(c) => coils.push(c),
                Response::ReadInputRegisters(d) | Response::ReadHoldingRegisters(d) | Response::ReadWriteMultipleRegisters(d) => datas.push(d),
                _ => {}
            }
        }
        let mut out = vec![0x77u8; 600];
        for c in coils {
            for r in [Response::ReadCoils(c), Response::ReadDiscreteInputs(c)] {
                let l = r.pdu_len();
                let m = r.encode(&mut out).unwrap();
                assert_eq!(l, m);
                assert!(r.encode(&mut out[..l - 1]).is_err());
                let back = Response::try_from(&out[..m]).unwrap();
                assert_eq!(FunctionCode::from(back), FunctionCode::from(r));
            }
            let r = Request::WriteMultipleCoils(1, c);
            let l = r.pdu_len();
            let m = r.encode(&mut out).unwrap();
            assert_eq!(l, m);
            assert!(r.encode(&mut out[..l - 1]).is_err());
            let back = Request::try_from(&out[..m]).unwrap();
            if let Request::WriteMultipleCoils(1, c2) = back {
                assert_eq!(c2.len(), c.len());
                assert!(c2.into_iter().eq(c.into_iter()));
            } else {
                panic!()
            }
        }
        for d in datas {
            for r in [Response::ReadInputRegisters(d), Response::ReadHoldingRegisters(d), Response::ReadWriteMultipleRegisters(d)] {
                let l = r.pdu_len();
                let m = r.encode(&mut out).unwrap();
                assert_eq!(l, m);
                assert!(r.encode(&mut out[..l - 1]).is_err());
                assert_eq!(Response::try_from(&out[..m]).unwrap(), r);
            }
            for r in [Request::WriteMultipleRegisters(9, d), Request::ReadWriteMultipleRegisters(1, 2, 3, d)] {
                let l = r.pdu_len();
                let m = r.encode(&mut out).unwrap();
                assert_eq!(l, m);
                assert!(r.encode(&mut out[..l - 1]).is_err());
                assert_eq!(Request::try_from(&out[..m]).unwrap(), r);
            }
        }
    }
}

// CANDIDATE (judgement call): the Report Server ID *response* (0x11) has a
// byte-count field exactly like 0x0C, its *request* is framed by both request
// predictors, yet both response predictors reject it.
#[test]
fn report_server_id_response_is_not_frameable() {
    // request side: supported
    assert_eq!(rtu::request_pdu_len(&[0x11, 0x11]), Ok(Some(1)));
    assert_eq!(tcp::request_pdu_len(&[0, 1, 0, 0, 0, 2, 0x11, 0x11]), Ok(Some(1)));
    // response: 11 | byte count 3 | server id 0x42 | run indicator FF | extra 00
    let mut adu = vec![0x11u8, 0x11, 0x03, 0x42, 0xFF, 0x00];
    let c = rtu::crc16(&adu);
    adu.push((c >> 8) as u8);
    adu.push(c as u8);
    assert_eq!(rtu::response_pdu_len(&adu), Ok(Some(5)), "RTU 0x11 response: spec length is 2 + byte count");
    let tcp_adu = [0u8, 1, 0, 0, 0, 6, 0x11, 0x11, 0x03, 0x42, 0xFF, 0x00];
    assert_eq!(tcp::response_pdu_len(&tcp_adu), Ok(Some(5)), "TCP 0x11 response: spec length is 2 + byte count");
}

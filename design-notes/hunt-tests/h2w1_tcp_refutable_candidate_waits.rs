//! C14 (TCP): stray bytes that are NOT function codes, followed by a complete well-formed frame.
//! The candidate that starts inside the stray bytes borrows a byte of the real frame's MBAP
//! header (here: the low byte of its length field) as "function code".  Its own MBAP header is
//! already refutable with the bytes at hand (protocol id != 0 and/or length field != predicted
//! length), but `tcp::extract_frame` tests the buffer size BEFORE the header fields, so the
//! scanner answers "incomplete" instead of dropping the stray bytes and returning the frame.

use modbus_core::{tcp, DecoderType};

#[test]
fn response_two_stray_bytes_then_exception_response() {
    // stray 0x42 0x42, then: tid 0x0001, proto 0, len 3, unit 0x11, PDU 83 02 (exception)
    let frame = [0x00, 0x01, 0x00, 0x00, 0x00, 0x03, 0x11, 0x83, 0x02];
    let mut buf = vec![0x42, 0x42];
    buf.extend_from_slice(&frame);

    // sanity: the frame alone is found, and ONE stray byte is resynchronised fine
    let (f, l) = tcp::decode(DecoderType::Response, &frame).unwrap().unwrap();
    assert_eq!((f.transaction_id, f.unit_id, f.pdu, l.start, l.size), (1, 0x11, &frame[7..], 0, 9));
    let mut b1 = vec![0x42];
    b1.extend_from_slice(&frame);
    assert_eq!(tcp::decode(DecoderType::Response, &b1).unwrap().unwrap().1.start, 1);

    // the candidate at offset 0 is 42 42 | 00 01 | 00 00 | 00 | 03 11 ...:
    // protocol id 0x0001 (not Modbus), length field 0, "function" 0x03 = low byte of the real
    // length field, "byte count" 0x11 = the real unit id  => predicted PDU length 19.
    let r = tcp::decode(DecoderType::Response, &buf);
    let (f, l) = r
        .expect("no error expected")
        .expect("C14: frame after 2 non-frame bytes must be returned, got 'incomplete'");
    assert_eq!(l.start, 2);
    assert_eq!(l.size, 9);
    assert_eq!(f.pdu, &frame[7..]);
}

#[test]
fn response_any_number_of_stray_bytes_from_two_up() {
    // transaction id, unit id and every stray byte are NOT function codes; only the low byte
    // of the (correct) length field is.
    let frame = [0xEE, 0xEE, 0x00, 0x00, 0x00, 0x03, 0xF7, 0x83, 0x02];
    let mut bad = Vec::new();
    for n in 0..=255usize {
        let mut buf = vec![0x42u8; n];
        buf.extend_from_slice(&frame);
        match tcp::decode(DecoderType::Response, &buf) {
            Ok(Some((_, l))) if l.start == n && l.size == 9 => {}
            _ => bad.push(n),
        }
    }
    assert!(bad.is_empty(), "frame not returned for stray lengths {bad:?}");
}

#[test]
fn response_two_stray_bytes_then_one_byte_coil_response_adu() {
    // len field 4 -> candidate function 0x04, byte count = unit id 0x20
    let frame = [0x12, 0x34, 0x00, 0x00, 0x00, 0x04, 0x20, 0x01, 0x01, 0x05];
    let mut buf = vec![0xEE, 0xEE];
    buf.extend_from_slice(&frame);
    let adu = tcp::server::decode_response(&buf).unwrap();
    assert!(adu.is_some(), "C14: ADU decoder reports 'incomplete' for stray+complete frame");
}

#[test]
fn request_two_stray_bytes_then_write_multiple_registers() {
    // 8 registers -> PDU 22 bytes -> length field 0x0017 -> candidate function 0x17 whose
    // "write byte count" is the real frame's 2nd data byte (0xF0) => predicted PDU 250 bytes.
    let mut frame = vec![0x00, 0x09, 0x00, 0x00, 0x00, 0x17, 0x63, 0x10, 0x00, 0x10, 0x00, 0x08, 0x10];
    frame.extend_from_slice(&[0xF0; 16]);
    assert_eq!(frame.len(), 29);
    let mut buf = vec![0x42, 0x42];
    buf.extend_from_slice(&frame);
    assert_eq!(
        tcp::decode(DecoderType::Request, &frame).unwrap().unwrap().1,
        tcp::FrameLocation { start: 0, size: 29 }
    );
    let r = tcp::decode(DecoderType::Request, &buf).unwrap();
    let (_, l) = r.expect("C14: frame after 2 non-frame bytes must be returned, got 'incomplete'");
    assert_eq!(l, tcp::FrameLocation { start: 2, size: 29 });
}

#[test]
fn refutable_header_reported_incomplete_not_error() {
    // C14 last clause: no offset can start a frame (offset 0 has protocol id 0xFFFF and length
    // 0xFFFF, all other function positions hold 0xFF), buffer longer than 256 bytes: the scanner
    // must give up, but it says "incomplete" because offset 0 announces 264 bytes.
    let mut buf = vec![0xFFu8; 263];
    buf[7] = 0x01; // response "read coils", byte count 0xFF
    let r = tcp::decode(DecoderType::Response, &buf);
    assert!(r.is_err(), "expected give-up error, got {r:?}");
}

// BORDERLINE observations (only defects if "equivalent PDU" in C04/C05 means `==` on the public
// types rather than "same bytes / same meaning").
use modbus_core::*;

// The crate has a typed `Response::ReadExceptionStatus(u8)` whose pdu_len/encode ARE implemented
// and whose frame length (0x07 -> 2) is known to both length predictors, but Response::try_from
// has no arm for 0x07, so the client side never gets the typed variant back.
#[cfg(feature = "rtu")]
#[test]
fn read_exception_status_response_does_not_come_back_as_the_same_variant() {
    let sent = ResponsePdu(Ok(Response::ReadExceptionStatus(0xA5)));

    let mut buf = [0u8; 16];
    let n = rtu::server::encode_response(
        rtu::ResponseAdu {
            hdr: rtu::Header { slave: 0x11 },
            pdu: sent,
        },
        &mut buf,
    )
    .unwrap();
    assert_eq!(n, 2 + 3);
    let got = rtu::client::decode_response(&buf[..n]).unwrap().unwrap();
    assert_eq!(got.hdr.slave, 0x11);
    assert_eq!(got.pdu, sent, "RTU");
}

#[cfg(feature = "rtu")]
#[test]
fn read_exception_status_response_over_tcp() {
    let sent = ResponsePdu(Ok(Response::ReadExceptionStatus(0xA5)));
    let mut buf = [0u8; 16];
    let hdr = tcp::Header {
        transaction_id: 7,
        unit_id: 1,
    };
    let n = tcp::server::encode_response(tcp::ResponseAdu { hdr, pdu: sent }, &mut buf).unwrap();
    let got = tcp::server::decode_response(&buf[..n]).unwrap().unwrap();
    assert_eq!(got.pdu, sent, "TCP");
}

// Request::try_from wraps every function code it has no arm for in `FunctionCode::Custom(byte)`,
// even when `FunctionCode::new(byte)` is a named kind (0x16 always; 0x07/0x08/0x0B/0x0C/0x11 with
// the rtu feature). Response::try_from uses FunctionCode::new. So for a decoded request
// `FunctionCode::from(req) == FunctionCode::new(first_byte)` is false.
#[test]
fn decoded_request_function_code_is_not_canonical() {
    let sent = Request::Custom(FunctionCode::MaskWriteRegister, &[0, 4, 0, 0xF2, 0, 0x25]);
    let mut buf = [0u8; 32];
    let hdr = tcp::Header {
        transaction_id: 7,
        unit_id: 1,
    };
    let n = tcp::server::encode_request(
        tcp::RequestAdu {
            hdr,
            pdu: RequestPdu(sent),
        },
        &mut buf,
    )
    .unwrap();
    let got = tcp::server::decode_request(&buf[..n]).unwrap().unwrap();
    assert_eq!(FunctionCode::from(got.pdu.0).value(), 0x16); // byte value is right
    assert_eq!(FunctionCode::from(got.pdu.0), FunctionCode::new(0x16)); // but not the named kind
    assert_eq!(got.pdu.0, sent);
}

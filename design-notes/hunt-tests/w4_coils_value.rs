//! C16 ("independent of buffer history"): the `Coils` VALUE returned by
//! `Coils::from_bools` keeps the whole target buffer, so `==` / `Debug` /
//! encode->decode round trips depend on the target's excess capacity and on
//! whatever bytes the excess held before.  Bits/encoded PDUs are exact (checked
//! in the first test, which passes); the value comparisons below fail.
use modbus_core::*;

fn expect_packed(bools: &[bool]) -> Vec<u8> {
    let mut v = vec![0u8; (bools.len() + 7) / 8];
    for (i, b) in bools.iter().enumerate() {
        if *b {
            v[i / 8] |= 1 << (i % 8);
        }
    }
    v
}

/// Passing control: encoded PDUs are exact and independent of the target's history.
#[test]
fn encoded_pdus_are_exact_for_dirty_oversized_targets() {
    for n in (1..=40usize).chain([255, 256, 1968, 2033, 2039, 2040]) {
        let bools: Vec<bool> = (0..n).map(|i| (i * 7 + i / 3) % 3 != 0).collect();
        let exp = expect_packed(&bools);
        for fill in [0u8, 0xFF, 0xA5] {
            for extra in [0usize, 1, 9] {
                let mut t = vec![fill; exp.len() + extra];
                let c = Coils::from_bools(&bools, &mut t).unwrap();
                let req = Request::WriteMultipleCoils(0x0102, c);
                assert_eq!(req.pdu_len(), 6 + exp.len());
                let mut b = vec![0xCC; 300];
                assert_eq!(req.encode(&mut b), Ok(6 + exp.len()));
                let mut x = vec![0x0F, 1, 2, (n >> 8) as u8, n as u8, exp.len() as u8];
                x.extend_from_slice(&exp);
                assert_eq!(&b[..x.len()], &x[..]);
                assert!(b[x.len()..].iter().all(|v| *v == 0xCC));
                for rsp in [Response::ReadCoils(c), Response::ReadDiscreteInputs(c)] {
                    assert_eq!(rsp.pdu_len(), 2 + exp.len());
                    let mut b = vec![0xCC; 300];
                    assert_eq!(rsp.encode(&mut b), Ok(2 + exp.len()));
                    assert_eq!(b[1] as usize, exp.len());
                    assert_eq!(&b[2..2 + exp.len()], &exp[..]);
                    assert!(b[2 + exp.len()..].iter().all(|v| *v == 0xCC));
                }
            }
        }
    }
    // more than 255 packed bytes: an error, never a truncated count
    for n in [2041usize, 2048, 65536, 65537, 65536 + 8] {
        let bools = vec![true; n];
        let mut t = vec![0u8; n / 8 + 1];
        let c = Coils::from_bools(&bools, &mut t).unwrap();
        let mut b = vec![0u8; n / 8 + 20];
        assert!(Request::WriteMultipleCoils(0, c).encode(&mut b).is_err());
        assert!(Response::ReadCoils(c).encode(&mut b).is_err());
    }
}

/// FAILS: same booleans, same capacity, different previous contents of the excess byte.
#[test]
fn value_depends_on_previous_contents_of_excess_bytes() {
    let bools = [true, false, true, true];
    let mut a = [0x00u8, 0xAA];
    let mut b = [0xFFu8, 0x55];
    let ca = Coils::from_bools(&bools, &mut a).unwrap();
    let cb = Coils::from_bools(&bools, &mut b).unwrap();
    assert_eq!(ca.into_iter().collect::<Vec<_>>(), cb.into_iter().collect::<Vec<_>>());
    assert_eq!(ca, cb, "same coils packed into buffers with different history");
}

/// FAILS: same booleans, zeroed targets, different capacity.
#[test]
fn value_depends_on_excess_capacity() {
    let bools = [true, false];
    let mut a = [0u8; 1];
    let mut b = [0u8; 2]; // the crate's own `test_request_pdu_len` uses exactly this shape
    let ca = Coils::from_bools(&bools, &mut a).unwrap();
    let cb = Coils::from_bools(&bools, &mut b).unwrap();
    assert_eq!(ca, cb, "same coils packed into zeroed buffers of different size");
}

/// FAILS: encode -> decode does not give back the request that was encoded.
#[test]
fn write_multiple_coils_round_trip_with_oversized_target() {
    let bools = [true, false];
    let mut t = [0u8; 2];
    let req = Request::WriteMultipleCoils(0, Coils::from_bools(&bools, &mut t).unwrap());
    let mut pdu = [0u8; 16];
    let n = req.encode(&mut pdu).unwrap();
    assert_eq!(&pdu[..n], &[0x0F, 0, 0, 0, 2, 1, 0b01]);
    let back = Request::try_from(&pdu[..n]).unwrap();
    assert_eq!(back, req, "decoded request differs from the encoded one");
}

// Each test asserts the PROPERTY; it fails on the unmodified code.
use modbus_core::*;

/// D1 (C02 + C03): a `Coils` obtained from the crate's own request decoder keeps
/// whatever the sender put in the unused high bits of the last byte. `Coils` is
/// `Copy` and `Response::ReadCoils` is a public variant, so a server that answers
/// with (or echoes) decoded coils emits non-zero padding, and the client decodes
/// padding coils that are ON.
#[test]
fn d1_decoded_coils_in_read_coils_response_leak_padding_bits() {
    // Write Multiple Coils: addr 0, quantity 4, byte count 1, data 0xF5
    // (coils 1,0,1,0; the four unused bits are set by the sender).
    let wire: &[u8] = &[0x0F, 0x00, 0x00, 0x00, 0x04, 0x01, 0xF5];
    let Request::WriteMultipleCoils(_, coils) = Request::try_from(wire).unwrap() else {
        panic!()
    };
    assert_eq!(coils.len(), 4);
    let states: Vec<bool> = coils.into_iter().collect();
    assert_eq!(states, [true, false, true, false]);

    for rsp in [Response::ReadCoils(coils), Response::ReadDiscreteInputs(coils)] {
        let mut buf = [0u8; 8];
        let len = rsp.encode(&mut buf).unwrap();
        assert_eq!(len, 3);
        // C02: "identical leading coils and a count rounded up to a whole byte,
        //       the padding coils being off"
        let back = match Response::try_from(&buf[..len]).unwrap() {
            Response::ReadCoils(c) | Response::ReadDiscreteInputs(c) => c,
            o => panic!("{o:?}"),
        };
        assert_eq!(back.len(), 8);
        for i in 0..8 {
            let want = if i < 4 { states[i] } else { false };
            assert_eq!(back.get(i), Some(want), "C02: coil {i}");
        }
    }
}

/// D1 (C03 encode side): the emitted byte must have zero padding.
#[test]
fn d1_c03_decoded_coils_in_read_coils_response_nonzero_padding_on_wire() {
    let wire: &[u8] = &[0x0F, 0x00, 0x00, 0x00, 0x04, 0x01, 0xF5];
    let Request::WriteMultipleCoils(_, coils) = Request::try_from(wire).unwrap() else {
        panic!()
    };
    let mut buf = [0u8; 8];
    let len = Response::ReadCoils(coils).encode(&mut buf).unwrap();
    // C03: "coils packed least-significant-bit first with zero padding"
    assert_eq!(&buf[..len], &[0x01, 0x01, 0b0000_0101]);
}

/// D1b (C03 encode side only): same container re-encoded as a request.
#[test]
fn d1b_decoded_coils_in_write_multiple_coils_request_leak_padding_bits() {
    let wire: &[u8] = &[0x0F, 0x00, 0x00, 0x00, 0x04, 0x01, 0xF5];
    let Request::WriteMultipleCoils(_, coils) = Request::try_from(wire).unwrap() else {
        panic!()
    };
    let mut buf = [0u8; 16];
    let len = Request::WriteMultipleCoils(0x0010, coils).encode(&mut buf).unwrap();
    assert_eq!(&buf[..len], &[0x0F, 0x00, 0x10, 0x00, 0x04, 0x01, 0x05]);
}

/// D2 (C02): `Response::ReadExceptionStatus(u8)` has a working `pdu_len` (2) and a
/// working `encode` (`07 xx`), the RTU/TCP length tables know 0x07 => 2, but
/// `Response::try_from` has no arm for it and returns `Custom`.
#[cfg(feature = "rtu")]
#[test]
fn d2_read_exception_status_response_does_not_round_trip() {
    for status in [0x00u8, 0x55, 0xFF] {
        let rsp = Response::ReadExceptionStatus(status);
        assert_eq!(rsp.pdu_len(), 2);
        let mut buf = [0u8; 4];
        let len = rsp.encode(&mut buf).unwrap();
        assert_eq!(&buf[..len], &[0x07, status]);
        let back = Response::try_from(&buf[..len]).unwrap();
        assert_eq!(back, rsp, "C02: decoding returns the same kind");
    }
}

/// D2 through the ADU layer (RTU is the only transport this function exists on).
#[cfg(feature = "rtu")]
#[test]
fn d2_read_exception_status_rtu_adu() {
    let adu = rtu::ResponseAdu {
        hdr: rtu::Header { slave: 0x11 },
        pdu: ResponsePdu(Ok(Response::ReadExceptionStatus(0x6D))),
    };
    let mut buf = [0u8; 16];
    let len = rtu::server::encode_response(adu, &mut buf).unwrap();
    let back = rtu::client::decode_response(&buf[..len]).unwrap().unwrap();
    assert_eq!(back, adu);
}

/// D3 (C12 "never panics"; borderline, see report): the fields of
/// `ExceptionResponse` are public, and a function code >= 0x80 makes the encoder
/// panic in debug builds (debug_assert / add overflow) and silently wrap to
/// `function - 0x80` in release builds.
#[test]
fn d3_exception_response_with_high_function_code() {
    let er = ExceptionResponse {
        function: FunctionCode::Custom(0x83),
        exception: Exception::IllegalDataAddress,
    };
    let r = std::panic::catch_unwind(|| {
        let mut buf = [0u8; 2];
        er.encode(&mut buf).map(|n| (n, buf))
    });
    match r {
        Err(_) => panic!("C12: encoder panicked"),
        Ok(Err(_)) => {}
        Ok(Ok((_, buf))) => {
            // if it "succeeds" it must at least decode to the same value
            assert_eq!(ExceptionResponse::try_from(&buf[..]).unwrap(), er, "wrapped function code {buf:02x?}");
        }
    }
}
